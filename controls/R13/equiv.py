#!/usr/bin/env python3
"""
Equivalence check for the private_header / user_header / getTimestamp
refactoring.

usage: equiv.py <original modules dir> <refactored modules dir>

Each modules directory is exercised in its own subprocess (this same script
in "worker" mode, once normally and once under `python -O`) over the same
deterministically generated inputs.  The worker records, for every case, the
returned document or the exception type, the stream position afterwards and
the attributes left on the section object.  A second stage runs the peltool
CLI of both trees on generated PEL files/directories and compares stdout,
stderr, exit status and the files left behind.  Exit status 0 iff everything
agrees.
"""
import json
import os
import random
import shutil
import struct
import subprocess
import sys
import tempfile

PY = sys.executable
SEED = 20261003


# --------------------------------------------------------------------------
# input generation (shared by both sides, deterministic)
# --------------------------------------------------------------------------

def interesting_bytes(rnd, n):
    mode = rnd.randrange(6)
    if mode == 0:
        return bytes(n)
    if mode == 1:
        return b"\xff" * n
    if mode == 2:
        return bytes(rnd.choice(b"BOHPTEMWNCSKL\x00\x80\xff") for _ in range(n))
    return bytes(rnd.randrange(256) for _ in range(n))


def ph_body(rnd, creator=None, count=None):
    ts = bytes(rnd.choice([0x20, 0x22, 0x99, 0x00, 0xff, 0x1a, rnd.randrange(256)])
               for _ in range(16))
    creator = rnd.choice(b"BOHPTEMWNCSKL\x00\x80\xffZ") if creator is None else creator
    count = rnd.choice([0, 1, 2, 3, 255]) if count is None else count
    return (ts + bytes([creator, rnd.randrange(256), rnd.randrange(256), count]) +
            interesting_bytes(rnd, 4) + interesting_bytes(rnd, 8) +
            interesting_bytes(rnd, 4) + interesting_bytes(rnd, 4))


def uh_body(rnd):
    sev = rnd.choice([0x00, 0x10, 0x20, 0x21, 0x40, 0x51, 0x60, 0x70, 0x71,
                      rnd.randrange(256)])
    flags = rnd.choice([0x0000, 0x8000, 0x4000, 0x2000, 0xa800, 0x6000,
                        0xffff, 0x0020, 0x0200, rnd.randrange(65536)])
    states = rnd.choice([0, 1, 2, 3, 4, 0x0102, 0x0403, 0xffffffff,
                         rnd.randrange(1 << 32)])
    return (bytes([rnd.randrange(256), rnd.randrange(256), sev, rnd.randrange(256)]) +
            interesting_bytes(rnd, 4) +
            bytes([rnd.randrange(256), rnd.randrange(256)]) +
            struct.pack(">HI", flags, states))


def gen_cases():
    rnd = random.Random(SEED)
    cases = []
    orders = ["big", "little", None]
    signs = [False, True, None]
    kinds = ["memoryview", "bytes", "bytearray"]

    # timestamp helper: every length around the 8 byte layout, plus offsets
    for n in range(0, 20):
        for rep in range(4):
            cases.append(dict(fn="ts", data=interesting_bytes(rnd, n).hex(),
                              kind=kinds[rep % 3], skip=rnd.choice([0, 0, 1, 3]),
                              order="big", signed=False))

    # private header: all truncation lengths, then random configurations
    for n in range(0, 46):
        body = ph_body(rnd)
        cases.append(dict(fn="ph", data=(body + interesting_bytes(rnd, 6))[:n].hex(),
                          kind="memoryview", skip=0, order="big", signed=False,
                          comp=rnd.randrange(65536), ver=1, sub=0, twice=False))
    for i in range(260):
        n = rnd.choice([40, 40, 40, 80, 100, rnd.randrange(0, 90)])
        body = (ph_body(rnd) + ph_body(rnd) + interesting_bytes(rnd, 20))[:n]
        cases.append(dict(fn="ph", data=body.hex(), kind=rnd.choice(kinds),
                          skip=rnd.choice([0, 0, 0, 1, 8]),
                          order=rnd.choice(orders + ["big", "big"]),
                          signed=rnd.choice(signs + [False, False]),
                          comp=rnd.choice([0, 0x4248, 0x4200, 0x0042, 0xffff, 0x1000,
                                           0x2000, 0x3100, -1, 70000,
                                           rnd.randrange(65536)]),
                          ver=rnd.randrange(256), sub=rnd.randrange(256),
                          twice=rnd.random() < 0.3))

    # user header
    for n in range(0, 20):
        cases.append(dict(fn="uh", data=(uh_body(rnd) + interesting_bytes(rnd, 3))[:n].hex(),
                          kind="memoryview", skip=0, order="big", signed=False,
                          comp=rnd.randrange(65536), ver=1, sub=0, twice=False,
                          creator="O"))
    for i in range(260):
        n = rnd.choice([16, 16, 16, 32, 40, rnd.randrange(0, 40)])
        body = (uh_body(rnd) + uh_body(rnd) + interesting_bytes(rnd, 8))[:n]
        cases.append(dict(fn="uh", data=body.hex(), kind=rnd.choice(kinds),
                          skip=rnd.choice([0, 0, 0, 1, 8]),
                          order=rnd.choice(orders + ["big", "big"]),
                          signed=rnd.choice(signs + [False, False]),
                          comp=rnd.choice([0, 0x4248, 0x4200, 0xffff, 0x1000, 0x2000,
                                           -1, rnd.randrange(65536)]),
                          ver=rnd.randrange(256), sub=rnd.randrange(256),
                          twice=rnd.random() < 0.3,
                          creator=rnd.choice(["O", "B", "H", "P", "T", "", "\x00",
                                              "\xff", "zz", None, 5])))

    # extended user header (consumer of the timestamp helper)
    for i in range(90):
        sym = rnd.choice([0, 0, 4, 16, 80, 255])
        body = (interesting_bytes(rnd, 8) + b"ABCDEFGH1234" + b"fw1020.00-1\x00\x00\x00\x00\x00" +
                b"fips1020\x00\x00\x00\x00\x00\x00\x00\x00" + interesting_bytes(rnd, 4) +
                interesting_bytes(rnd, 8) + bytes(3) + bytes([sym]) +
                bytes(rnd.choice(b"BD10_AZ\x00") for _ in range(sym)))
        if rnd.random() < 0.5:
            body = b"MTM-1234" + body[8:]
        n = rnd.choice([len(body), len(body), rnd.randrange(0, len(body) + 1)])
        cases.append(dict(fn="eh", data=body[:n].hex(),
                          kind=rnd.choice(["bytes", "bytes", "bytes", "memoryview"]), skip=0,
                          order="big", signed=False, comp=0x1000, ver=1, sub=0,
                          twice=False, creator="O"))
    return cases


# --------------------------------------------------------------------------
# worker: run all cases against the modules first on sys.path
# --------------------------------------------------------------------------

def snapshot(obj):
    return {k: repr(v) for k, v in sorted(vars(obj).items()) if k != "stream"}


def call(fn, *args):
    try:
        return ["ok", fn(*args)]
    except BaseException as e:      # noqa: compare the type only
        return ["exc", type(e).__name__]


def worker(out_path):
    import contextlib
    import io
    from pel.datastream import DataStream
    from pel.peltool import private_header, user_header, extend_user_header

    for mod in (private_header, user_header, extend_user_header):
        if not mod.__file__.startswith(os.environ["EQUIV_MODULES"] + os.sep):
            raise RuntimeError("wrong module imported: " + mod.__file__)
    results = []
    for case in gen_cases():
        raw = bytes.fromhex(case["data"])
        data = {"memoryview": memoryview, "bytes": bytes,
                "bytearray": bytearray}[case["kind"]](raw)
        stream = DataStream(data, byte_order=case["order"], is_signed=case["signed"])
        stream.index = min(case["skip"], len(raw))
        rec = {"case": case["fn"]}
        stdout, stderr = io.StringIO(), io.StringIO()
        with contextlib.redirect_stdout(stdout), contextlib.redirect_stderr(stderr):
            if case["fn"] == "ts":
                rec["r"] = call(private_header.getTimestamp, stream)
            else:
                if case["fn"] == "ph":
                    obj = private_header.PrivateHeader(
                        stream, 0x5048, 48, case["ver"], case["sub"], case["comp"])
                elif case["fn"] == "uh":
                    obj = user_header.UserHeader(
                        stream, 0x5548, 24, case["ver"], case["sub"], case["comp"],
                        case["creator"])
                else:
                    obj = extend_user_header.ExtendedUserHeader(
                        stream, 0x4548, 76, case["ver"], case["sub"], case["comp"],
                        case["creator"])
                rec["before"] = snapshot(obj)
                if case["fn"] == "uh":
                    rec["pre"] = [call(obj.isHidden), call(obj.isServiceable)]
                rec["r"] = call(obj.toJSON)
                if rec["r"][0] == "ok":
                    rec["type"] = type(rec["r"][1]).__name__
                    rec["keys"] = list(rec["r"][1].keys())
                    rec["vtypes"] = [type(v).__name__ for v in rec["r"][1].values()]
                rec["after"] = snapshot(obj)
                rec["index1"] = stream.index
                if case["fn"] == "uh":
                    rec["post"] = [repr(call(obj.isHidden)), repr(call(obj.isServiceable))]
                if case["twice"]:
                    rec["r2"] = call(obj.toJSON)
                    rec["after2"] = snapshot(obj)
            rec["index"] = stream.index
        rec["stdout"], rec["stderr"] = stdout.getvalue(), stderr.getvalue()
        results.append(rec)

    # public surface other modules rely on
    results.append({"surface": [
        callable(private_header.getTimestamp),
        sorted(n for n in ("PrivateHeader", "getTimestamp", "DataStream",
                           "OrderedDict", "creatorIDs", "getDisplayCompID")
               if hasattr(private_header, n)),
        sorted(n for n in ("UserHeader", "DataStream", "OrderedDict",
                           "getDisplayCompID") if hasattr(user_header, n)),
        private_header.PrivateHeader.__init__.__code__.co_varnames[:7],
        user_header.UserHeader.__init__.__code__.co_varnames[:8],
        private_header.getTimestamp.__code__.co_argcount,
    ]})
    with open(out_path, "w") as f:
        json.dump(results, f, indent=0, sort_keys=True, default=repr)


def run_worker(modules, optimise, tmp):
    out_path = os.path.join(tmp, "w%d_%s.json" % (optimise, abs(hash(modules))))
    env = dict(os.environ, PYTHONPATH=modules, EQUIV_MODULES=modules,
               PYTHONDONTWRITEBYTECODE="1", PYTHONHASHSEED="0")
    cmd = [PY] + (["-O"] if optimise else []) + [os.path.abspath(__file__), "--worker", out_path]
    p = subprocess.run(cmd, env=env, capture_output=True, text=True, cwd=tmp)
    if p.returncode != 0:
        print("worker failed for", modules, p.stdout, p.stderr)
        sys.exit(2)
    with open(out_path) as f:
        return json.load(f), p.stdout, p.stderr


# --------------------------------------------------------------------------
# CLI stage
# --------------------------------------------------------------------------

def section(sid, body, ver=1, sub=0, comp=0x1000):
    return struct.pack(">2sHBBH", sid, len(body) + 8, ver, sub, comp) + body


def gen_pels():
    rnd = random.Random(SEED + 1)
    pels = []
    for i in range(40):
        count = rnd.choice([2, 2, 2, 3])
        creator = rnd.choice(b"BOHPTE\x00Z")
        ph = section(b"PH", ph_body(rnd, creator=creator, count=count),
                     comp=rnd.choice([0x1000, 0x4248, 0x2000, 0xbd00]))
        uh = section(b"UH", uh_body(rnd) + bytes(4), comp=rnd.choice([0x1000, 0x4248]))
        pel = ph + uh
        if count == 3:
            pel += section(b"UD", b"\x01\x02\x03\x04hello\x00\x00\x00", sub=rnd.choice([1, 2, 99]))
        kind = rnd.randrange(8)
        if kind == 0:
            pel = pel[:rnd.randrange(0, len(pel))]          # truncated anywhere
        elif kind == 1:
            pel = b"XX" + pel[2:]                           # not a PH
        elif kind == 2:
            pel = pel[:48] + b"ZZ" + pel[50:]               # not a UH
        elif kind == 3:
            pel = pel[:rnd.choice([8, 15, 16, 24, 47, 48, 56, 63, 71])]
        pels.append(pel)
    pels.append(b"")
    return pels


def tree_state(root):
    state = {}
    for d, _, files in os.walk(root):
        for f in files:
            p = os.path.join(d, f)
            with open(p, "rb") as fh:
                state[os.path.relpath(p, root)] = fh.read().hex()
    return state


def fold_tracebacks(text):
    """
    An uncaught exception must be the same exception, but the frames quoted
    in the traceback (line numbers, source lines, helper names) and the
    message may differ: keep only the exception type.
    """
    out, lines, i = [], text.split("\n"), 0
    while i < len(lines):
        if lines[i].startswith("Traceback (most recent call last):"):
            i += 1
            while i < len(lines) and lines[i].startswith(" "):
                i += 1
            last = lines[i] if i < len(lines) else ""
            out.append("<traceback: %s>" % last.split(":")[0])
        else:
            out.append(lines[i])
        i += 1
    return "\n".join(out)


def run_cli(modules, tmp, optimise):
    """Runs a fixed list of peltool invocations in a fresh copy of the corpus."""
    work = tempfile.mkdtemp(dir=tmp)
    logs = os.path.join(work, "logs")
    os.mkdir(logs)
    names = []
    for i, pel in enumerate(gen_pels()):
        name = "%08X" % (0x50000000 + i) if i % 3 else "pel%02d.pel" % i
        names.append(name)
        with open(os.path.join(logs, name), "wb") as f:
            f.write(pel)
    peltool = os.path.join(modules, "pel", "peltool", "peltool.py")
    env = dict(os.environ, PYTHONPATH=modules, PYTHONDONTWRITEBYTECODE="1",
               PYTHONHASHSEED="0")
    runs = []

    def go(*args):
        cmd = [PY] + (["-O"] if optimise else []) + [peltool] + list(args)
        p = subprocess.run(cmd, env=env, capture_output=True, cwd=work)
        runs.append([list(args), p.returncode,
                     p.stdout.decode("latin-1").replace(work, "<W>"),
                     fold_tracebacks(p.stderr.decode("latin-1").replace(work, "<W>")
                                     .replace(modules, "<M>"))])

    for name in names:
        go("-f", os.path.join("logs", name))
        go("-f", os.path.join("logs", name), "-E")
    for name in names[:12]:
        go("-f", os.path.join("logs", name), "-x")
        go("-f", os.path.join("logs", name), "-s")
    for opts in (["-l"], ["-l", "-E"], ["-l", "-H", "-O"], ["-l", "-N"], ["-l", "-t", "-O"],
                 ["-l", "-r", "-E"], ["-n"], ["-n", "-E"], ["-n", "-H", "-O"],
                 ["-a"], ["-a", "-E"], ["-a", "-E", "-x"],
                 ["-l", "-O", "-S", "Unrecoverable"], ["-l", "-S", "Informational"],
                 ["-l", "-E", "-e", ".pel"],
                 ["-i", "0x50000001"], ["-i", "50000004", "-x"], ["--bmc-id", "0"],
                 ["--bmc-id", "16909060"], ["-i", "nonsense"]):
        go("-p", "logs", *opts)
    for d in ("jsonout", "jsonout2", "jsonout3"):
        os.mkdir(os.path.join(work, d))
    go("-p", "logs", "-j", "-o", "jsonout")
    go("-p", "logs", "-j", "-o", "jsonout2", "-E")
    state_mid = tree_state(work)
    go("-p", "logs", "-j", "-o", "jsonout3", "-E", "-c")
    go("-p", "logs", "-l", "-E")
    state = tree_state(work)
    shutil.rmtree(work)
    return {"runs": runs, "state_mid": state_mid, "state": state}


# --------------------------------------------------------------------------

def first_diff(a, b, path=""):
    if type(a) != type(b):
        return "%s: %r != %r" % (path, a, b)
    if isinstance(a, dict):
        for k in sorted(set(a) | set(b)):
            if k not in a or k not in b:
                return "%s/%s: present on one side only" % (path, k)
            d = first_diff(a[k], b[k], "%s/%s" % (path, k))
            if d:
                return d
        return None
    if isinstance(a, list):
        if len(a) != len(b):
            return "%s: length %d != %d" % (path, len(a), len(b))
        for i, (x, y) in enumerate(zip(a, b)):
            d = first_diff(x, y, "%s[%d]" % (path, i))
            if d:
                return d
        return None
    return None if a == b else "%s: %r != %r" % (path, a, b)


def main():
    if len(sys.argv) == 3 and sys.argv[1] == "--worker":
        worker(sys.argv[2])
        return 0
    if len(sys.argv) != 3:
        print(__doc__)
        return 2
    orig, new = (os.path.abspath(p) for p in sys.argv[1:3])
    ok = True
    with tempfile.TemporaryDirectory(prefix="equiv_R13_") as tmp:
        for optimise in (0, 1):
            a = run_worker(orig, optimise, tmp)
            b = run_worker(new, optimise, tmp)
            d = first_diff(list(a), list(b))
            n = len(a[0])
            excs = sum(1 for r in a[0] if r.get("r", [""])[0] == "exc")
            print("functions  -O=%d: %d cases (%d raising) : %s"
                  % (optimise, n, excs, "MISMATCH " + d if d else "identical"))
            ok = ok and not d
        for optimise in (0, 1):
            a = run_cli(orig, tmp, optimise)
            b = run_cli(new, tmp, optimise)
            d = first_diff(a, b)
            fails = sum(1 for r in a["runs"] if r[1] != 0)
            print("peltool    -O=%d: %d invocations (%d non-zero exits), %d files : %s"
                  % (optimise, len(a["runs"]), fails, len(a["state"]),
                     "MISMATCH " + d if d else "identical"))
            ok = ok and not d
    print("EQUIVALENT" if ok else "DIFFERENT")
    return 0 if ok else 1


if __name__ == "__main__":
    sys.exit(main())
