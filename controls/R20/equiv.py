#!/usr/bin/env python3
"""
Equivalence check for the callout refactoring of pel/peltool/src.py.

usage: equiv.py <original modules dir> <refactored modules dir>

Generates a fixed (seeded) set of inputs, runs them through both module
trees in separate interpreter processes (with and without -O), and compares
everything observable: returned JSON, exception type and message, stream
position afterwards, the interleaved stdout/stderr text, calls made to a
fake callout plug-in, the module level caches at the end, and - for whole
PEL files - the peltool CLI's stdout, stderr and exit status.

Exits 0 iff every comparison agrees.
"""
import json
import os
import random
import shutil
import subprocess
import sys
import tempfile

HERE = os.path.abspath(__file__)

# --------------------------------------------------------------------------
# input generation
# --------------------------------------------------------------------------

ID, PE, MR = b"ID", b"PE", b"MR"
PRIORITIES = [0x48, 0x4D, 0x41, 0x42, 0x43, 0x4C, 0x00, 0xFF, 0x20]
PROC_NAMES = [b"BMC0001\0", b"BMC0002\0", b"RAISE\0\0\0", b"BAD\0\0\0\0\0",
              b"NAN\0\0\0\0\0", b"EMPTY\0\0\0", b"NONE\0\0\0\0", b"EXIT\0\0\0\0",
              b"NOISY\0\0\0", b"\0\0\0\0\0\0\0\0", b"LIST\0\0\0\0",
              b"NESTED\0\0", b"BMC0008\0", b"BMC0009\0"]


MISCHIEF = [0.0]   # probability that a generated field lies


def pick(rnd, honest, others):
    """The honest value, or - as often as MISCHIEF says - one of the others."""
    if rnd.random() < MISCHIEF[0]:
        return rnd.choice(others)
    return honest


def text(rnd, n, bad=False):
    if n <= 0:
        return b""
    if bad and rnd.random() < 0.3:
        return bytes(rnd.randrange(256) for _ in range(n))
    alphabet = b"ABCDEFGHIJKLMNOPQRSTUVWXYZ0123456789-. "
    used = rnd.randint(0, n)
    return (bytes(rnd.choice(alphabet) for _ in range(used))
            + b"\0" * (n - used))


def fru(rnd, flags=None, size=None, bad=False):
    if flags is None:
        flags = rnd.choice([0x10, 0x20, 0x30, 0x40, 0x90, 0xA0, 0xB0, 0xC0,
                            0xE0, 0x00, 0x50, 0xF0]) | rnd.choice(
            [0x08, 0x0D, 0x02, 0x02, 0x0C, 0x09, 0x00, 0x0A, 0x0F, 0x03,
             rnd.randrange(16)])
    body = b""
    if flags & 0x08 or flags & 0x02:
        if flags & 0x02 and rnd.random() < 0.9:
            body += pick(rnd, rnd.choice(PROC_NAMES),
                         [b"\xff\xfe\0\0\0\0\0\0", b"\0\0\0\0AB\0\0"])
        else:
            body += text(rnd, 8, bad)
    if flags & 0x04:
        body += text(rnd, 4, bad)
    if flags & 0x01:
        body += text(rnd, 12, bad)
    if size is None:
        size = pick(rnd, 4 + len(body), [0, 255, rnd.randrange(256)])
    return ID + bytes([size & 0xFF, flags]) + body


def pce(rnd, size=None, bad=False):
    name = text(rnd, pick(rnd, rnd.choice([0, 0, 4, 8, 16]), [3, 1]), bad)
    if size is None:
        size = pick(rnd, 24 + len(name),
                    [0, 4, 23, 24, 25, 255, rnd.randrange(256)])
    mt = rnd.choice([text(rnd, 8, bad), b"\0" * 8, b"8335-GTH"])
    return (PE + bytes([size & 0xFF, rnd.randrange(256)]) + mt
            + text(rnd, 12, bad) + name)


def mru(rnd, size=None, count=None):
    if count is None:
        count = rnd.choice([0, 1, 2, 3, 15, rnd.randrange(16)])
    flags = (rnd.randrange(16) << 4) | count
    present = pick(rnd, count, [max(0, count - 1), count + 1])
    body = b"".join(bytes(rnd.randrange(256) for _ in range(8))
                    for _ in range(present))
    if size is None:
        size = pick(rnd, 8 + 8 * count, [0, 8, 255, rnd.randrange(256)])
    return MR + bytes([size & 0xFF, flags]) + b"\0\0\0\0" + body


def callout(rnd, bad=False):
    loc = text(rnd, pick(rnd, rnd.choice([0, 0, 4, 8, 16, 20]), [1, 3, 6]),
               bad)
    subs = []
    kinds = pick(rnd, rnd.choice([
        ["f"], ["f"], ["f", "p"], ["f", "m"], ["f", "p", "m"], [], ["p"],
        ["m"], ["m", "f"], ["p", "f"], ["m", "p", "f"]]), [
        ["f", "f"], ["p", "p"], ["m", "m"], ["f", "x"], ["x"],
        ["f", "p", "m", "f"], ["p", "m", "p", "f", "m"]])
    for kind in kinds:
        if kind == "f":
            subs.append(fru(rnd, bad=bad))
        elif kind == "p":
            subs.append(pce(rnd, bad=bad))
        elif kind == "m":
            subs.append(mru(rnd))
        else:
            subs.append(bytes(rnd.randrange(256)
                              for _ in range(rnd.choice([1, 2, 4, 7]))))
    body = b"".join(subs)
    honest = 4 + len(loc) + len(body)
    size = pick(rnd, honest, [0, 4, 4 + len(loc), honest - 1, honest + 1,
                              honest + 4, 255, rnd.randrange(256)])
    loclen = pick(rnd, len(loc), [len(loc) + 1, 0, 255])
    return (bytes([size & 0xFF, rnd.randrange(256), rnd.choice(PRIORITIES),
                   loclen & 0xFF]) + loc + body)


def subsection(rnd, bad=False):
    callouts = [callout(rnd, bad)
                for _ in range(rnd.choice([0, 1, 1, 2, 3, 5, 10]))]
    body = b"".join(callouts)
    pad = b"\0" * ((-len(body)) % 4) if rnd.random() < 0.7 else b""
    honest = (4 + len(body) + len(pad)) // 4
    words = pick(rnd, honest, [0, 1, honest - 1, honest + 1, honest + 7,
                               0xFFFF, rnd.randrange(65536)])
    words = max(0, words) & 0xFFFF
    return (bytes([0xC0, rnd.randrange(256)]) + words.to_bytes(2, "big")
            + body + pad)


def mutate(rnd, data):
    data = bytearray(data)
    how = rnd.randrange(5)
    if how == 0 and data:
        del data[rnd.randrange(len(data)):]
    elif how == 1 and data:
        for _ in range(rnd.randint(1, 4)):
            data[rnd.randrange(len(data))] = rnd.randrange(256)
    elif how == 2 and data:
        pos = rnd.randrange(len(data))
        data[pos:pos] = bytes(rnd.randrange(256)
                              for _ in range(rnd.randint(1, 6)))
    elif how == 3 and data:
        pos = rnd.randrange(len(data))
        del data[pos:pos + rnd.randint(1, 6)]
    else:
        data += bytes(rnd.randrange(256) for _ in range(rnd.randint(1, 40)))
    return bytes(data)


def src_body(rnd, sub, flags=None, ascii_=None):
    """The SRC section after its 8B section header."""
    if flags is None:
        flags = rnd.choice([0x01, 0x01, 0x01, 0x00, 0x81, 0x11, 0x05, 0xFF])
    words = rnd.choice([9, 9, 9, 2, 5, 0, 1])
    hexdata = b"".join(rnd.randrange(1 << 32).to_bytes(4, "big")
                       for _ in range(8))
    if ascii_ is None:
        ascii_ = rnd.choice([b"BD8D1002", b"BC8A1234", b"11002610",
                             b"B7001111", b"BD123456", b"        "])
    ascii_ = ascii_.ljust(32, b" ")
    return (bytes([2, flags, 0, words]) + b"\0\0"
            + (72 + len(sub)).to_bytes(2, "big") + hexdata + ascii_ + sub)


def section_header(sid, length, ver=1, sub=0, comp=0x1000):
    return (sid + (length & 0xFFFF).to_bytes(2, "big") + bytes([ver, sub])
            + comp.to_bytes(2, "big"))


def pel_file(rnd, src, creator=b"O", trailing=True):
    ph = section_header(b"PH", 48) + bytes.fromhex(
        "2022030818402700" "2022030818402800") + creator + b"\0\0" \
        + bytes([4 if trailing else 3]) + (0x1234).to_bytes(4, "big") \
        + b"\0" * 8 + (0x50000123).to_bytes(4, "big") \
        + (0x50000123).to_bytes(4, "big")
    uh = section_header(b"UH", 24) + bytes([0x10, 0x03, 0x40, 0x00]) \
        + b"\0" * 4 + b"\0\0" + (0xA800).to_bytes(2, "big") + b"\0" * 4
    ps = section_header(b"PS", 8 + len(src)) + src
    out = ph + uh + ps
    if trailing:
        payload = b'{"hello": "world"}\0\0'
        out += section_header(b"UD", 8 + len(payload), 1, 1, 0x2000) + payload
    return out


def make_cases():
    rnd = random.Random(20)
    cases = []

    def add(kind, data, **kw):
        case = {"kind": kind, "data": data.hex()}
        case.update(kw)
        cases.append(case)
        # a third each: all fields honest, a few lying, many lying
        MISCHIEF[0] = [0.0, 0.04, 0.25][len(cases) % 3]

    # single substructures, well formed and not
    for i in range(150):
        bad = i % 5 == 0
        add("FRUIdentity", fru(rnd, bad=bad) + text(rnd, 6))
        add("PCEIdentity", pce(rnd, bad=bad) + text(rnd, 6))
        add("MRU", mru(rnd) + text(rnd, 6))
    for flags in range(256):
        add("FRUIdentity", fru(rnd, flags=flags))
    for size in range(0, 40):
        add("PCEIdentity", pce(rnd, size=size) + b"ABCDEFGH" * 3)
    for count in range(16):
        add("MRU", mru(rnd, count=count))
    for kind in ("FRUIdentity", "PCEIdentity", "MRU", "Callout"):
        for n in range(0, 30):
            add(kind, bytes(rnd.randrange(256) for _ in range(n)))
            add(kind, {"FRUIdentity": fru(rnd, flags=0x1F),
                       "PCEIdentity": pce(rnd, size=32),
                       "MRU": mru(rnd, count=3),
                       "Callout": callout(rnd)}[kind][:n])

    # whole callouts
    for i in range(400):
        data = callout(rnd, bad=(i % 7 == 0))
        if i % 5 == 0:
            data = mutate(rnd, data)
        add("Callout", data + text(rnd, rnd.choice([0, 2, 8])))

    # callout subsections through SRC.getCallouts
    for i in range(700):
        data = subsection(rnd, bad=(i % 9 == 0))
        if i % 5 == 0:
            data = mutate(rnd, data)
        if i % 11 == 0:
            data = mutate(rnd, data)
        add("getCallouts", data + text(rnd, rnd.choice([0, 0, 4, 12])),
            plugins=(i % 4 != 0), creator=rnd.choice(["O", "O", "O", "B", "H", "o"]))
    for n in range(0, 12):
        add("getCallouts", bytes(rnd.randrange(256) for _ in range(n)),
            plugins=True, creator="O")
    # odd streams and configurations
    for i in range(60):
        data = subsection(rnd)
        add("getCallouts", data, plugins=True, creator="O",
            stream=rnd.choice(["memoryview", "bytearray", "signed",
                               "little", "undefined"]))
        add("getCallouts", data, plugins=True, creator="O", config="none")
        add("Callout", callout(rnd),
            stream=rnd.choice(["memoryview", "bytearray", "signed",
                               "little", "undefined"]))

    # whole SRC sections through SRC.toJSON
    for i in range(400):
        sub = subsection(rnd, bad=(i % 9 == 0))
        if i % 6 == 0:
            sub = mutate(rnd, sub)
        body = src_body(rnd, sub)
        if i % 13 == 0:
            body = mutate(rnd, body)
        add("toJSON", body + text(rnd, rnd.choice([0, 8, 24])),
            plugins=(i % 4 != 0), creator=rnd.choice(["O", "O", "B", "H"]))

    # the same SRC object asked twice (nothing may be remembered)
    for i in range(40):
        sub = subsection(rnd)
        add("getCalloutsTwice", sub + sub, plugins=True, creator="O")

    # whole PEL files through the CLI
    cli = []
    for i in range(60):
        MISCHIEF[0] = [0.0, 0.0, 0.04, 0.25][i % 4]
        sub = subsection(rnd, bad=(i % 10 == 0))
        if i % 6 == 0:
            sub = mutate(rnd, sub)
        body = src_body(rnd, sub, flags=0x01 if i % 5 else None)
        cli.append({"data": pel_file(rnd, body, trailing=(i % 4 != 0),
                                     creator=rnd.choice([b"O", b"O", b"B"])).hex(),
                    "args": rnd.choice([[], [], ["-P"], ["-x"]])})
    return cases, cli


# --------------------------------------------------------------------------
# fake callout plug-in
# --------------------------------------------------------------------------

PLUGIN = '''
import sys
calls = []


def getMaintProcDesc(procName):
    calls.append(procName)
    if procName.startswith("BMC"):
        return '{"text": "procedure %s", "n": %d}' % (procName, len(calls))
    if procName == "RAISE":
        raise RuntimeError("boom")
    if procName == "BAD":
        return "not json"
    if procName == "NAN":
        return "NaN"
    if procName == "EMPTY":
        return ""
    if procName == "NONE":
        return None
    if procName == "EXIT":
        sys.exit(7)
    if procName == "NOISY":
        print("plug-in says hello")
        print("plug-in complains", file=sys.stderr)
        return '"loud"'
    if procName == "LIST":
        return '[1, 2, {"a": null}]'
    if procName == "NESTED":
        return "[" * 2000 + "]" * 2000
    return '"other"'
'''


def make_plugin(root):
    pkg = os.path.join(root, "calloutparsers", "ocallouts")
    os.makedirs(pkg)
    open(os.path.join(root, "calloutparsers", "__init__.py"), "w").close()
    open(os.path.join(pkg, "__init__.py"), "w").close()
    with open(os.path.join(pkg, "ocallouts.py"), "w") as f:
        f.write(PLUGIN)


# --------------------------------------------------------------------------
# worker: runs inside the interpreter that has one modules dir on its path
# --------------------------------------------------------------------------

class Tap:
    def __init__(self, log, tag):
        self.log = log
        self.tag = tag

    def write(self, s):
        self.log.append([self.tag, s])
        return len(s)

    def flush(self):
        pass


def dump(obj, depth=0):
    """Attribute dump of the callout objects."""
    if depth > 6:
        return "..."
    if obj is None or isinstance(obj, (int, str, bool, float)):
        return obj
    if isinstance(obj, (list, tuple)):
        return [dump(o, depth + 1) for o in obj]
    if isinstance(obj, dict):
        return {str(k): dump(v, depth + 1) for k, v in obj.items()}
    if hasattr(obj, "__dict__"):
        d = {"__class__": type(obj).__name__}
        for k, v in sorted(vars(obj).items()):
            d[k] = dump(v, depth + 1)
        return d
    return repr(type(obj))


def worker(modules, plugin_root, cases_file):
    # The modules dir comes first for pel.*; the fake plug-in package, when
    # asked for, goes in front of it so that it shadows the real one.
    sys.path.insert(0, modules)
    if plugin_root != "-":
        sys.path.insert(0, plugin_root)
    from collections import OrderedDict
    from pel.datastream import DataStream
    from pel.peltool.config import Config
    import pel.peltool.src as src
    assert os.path.abspath(src.__file__).startswith(
        os.path.abspath(modules)), src.__file__

    with open(cases_file) as f:
        cases = json.load(f)

    real_out, real_err = sys.stdout, sys.stderr
    results = []
    for case in cases:
        data = bytes.fromhex(case["data"])
        kind = case["kind"]
        variant = case.get("stream", "bytes")
        if variant == "memoryview":
            stream = DataStream(memoryview(data), "big", False)
        elif variant == "bytearray":
            stream = DataStream(bytearray(data), "big", False)
        elif variant == "signed":
            stream = DataStream(data, "big", True)
        elif variant == "little":
            stream = DataStream(data, "little", False)
        elif variant == "undefined":
            stream = DataStream(data)
        else:
            stream = DataStream(data, "big", False)

        config = Config()
        config.allow_plugins = case.get("plugins", True)
        if case.get("config") == "none":
            config = None

        log = []
        res = {}
        sys.stdout, sys.stderr = Tap(log, "out"), Tap(log, "err")
        try:
            try:
                if kind in ("FRUIdentity", "PCEIdentity", "MRU", "Callout"):
                    obj = getattr(src, kind)(stream)
                    res["value"] = dump(obj)
                    if kind == "Callout":
                        res["flattened"] = obj.flattenedSize()
                elif kind == "getCallouts":
                    s = src.SRC(stream, 0x5053, 0, 1, 1, 0x1000,
                                case["creator"])
                    out = OrderedDict()
                    out["before"] = 1
                    ret = s.getCallouts(out, config)
                    res["ret"] = repr(ret)
                    res["value"] = json.dumps(out)
                elif kind == "getCalloutsTwice":
                    s = src.SRC(stream, 0x5053, 0, 1, 1, 0x1000,
                                case["creator"])
                    out1, out2 = OrderedDict(), OrderedDict()
                    s.getCallouts(out1, config)
                    s.getCallouts(out2, config)
                    res["value"] = json.dumps([out1, out2])
                elif kind == "toJSON":
                    s = src.SRC(stream, 0x5053, 0, 1, 1, 0x1000,
                                case["creator"])
                    res["value"] = json.dumps(s.toJSON(config))
                    res["src"] = dump({k: v for k, v in vars(s).items()
                                       if k != "stream"})
                else:
                    raise ValueError(kind)
            except BaseException as e:
                res["exception"] = [type(e).__name__, str(e)]
        finally:
            sys.stdout, sys.stderr = real_out, real_err
        res["index"] = stream.index
        res["log"] = log
        results.append(res)

    plugin = sys.modules.get("calloutparsers.ocallouts.ocallouts")
    final = {
        "calloutParsers": {k: (None if v is None else v.__name__)
                           for k, v in sorted(src.calloutParsers.items())},
        "srcParsers": {k: (None if v is None else v.__name__)
                       for k, v in sorted(src.srcParsers.items())},
        "plugin_file": (os.path.relpath(plugin.__file__, modules)
                        if plugin and plugin_root == "-" else
                        (plugin.__file__ if plugin else None)),
        "plugin_calls": getattr(plugin, "calls", None),
        "optimized": sys.flags.optimize,
    }
    json.dump({"results": results, "final": final}, sys.stdout)


# --------------------------------------------------------------------------
# driver
# --------------------------------------------------------------------------

def run_worker(modules, plugin_root, cases_file, optimize):
    cmd = [sys.executable, "-B"] + (["-O"] if optimize else []) + \
        [HERE, "--worker", modules, plugin_root, cases_file]
    env = dict(os.environ)
    env.pop("PYTHONPATH", None)
    p = subprocess.run(cmd, capture_output=True, text=True, env=env)
    if p.returncode != 0:
        print(p.stderr[-4000:])
        raise SystemExit("worker failed for " + modules)
    return json.loads(p.stdout)


def run_cli(modules, plugin_root, work, cli_cases, optimize):
    results = []
    env = dict(os.environ)
    env["PYTHONPATH"] = modules if plugin_root == "-" else \
        plugin_root + os.pathsep + modules
    tool = os.path.join(modules, "pel", "peltool", "peltool.py")
    for i, case in enumerate(cli_cases):
        path = os.path.join(work, "pel_%03d" % i)
        with open(path, "wb") as f:
            f.write(bytes.fromhex(case["data"]))
        cmd = [sys.executable, "-B"] + (["-O"] if optimize else []) + \
            [tool, "-f", path] + case["args"]
        p = subprocess.run(cmd, capture_output=True, env=env, cwd=work)
        results.append({"rc": p.returncode,
                        "out": p.stdout.decode("utf-8", "replace"),
                        "err": p.stderr.decode("utf-8", "replace"),
                        "files": sorted(os.listdir(work))})
    return results


def main():
    if len(sys.argv) >= 2 and sys.argv[1] == "--worker":
        worker(sys.argv[2], sys.argv[3], sys.argv[4])
        return 0

    orig = os.path.abspath(sys.argv[1])
    refac = os.path.abspath(sys.argv[2])
    cases, cli_cases = make_cases()
    work = tempfile.mkdtemp(prefix="equiv_R20_")
    bad = 0
    try:
        plugin_root = os.path.join(work, "plugins")
        make_plugin(plugin_root)
        cases_file = os.path.join(work, "cases.json")
        with open(cases_file, "w") as f:
            json.dump(cases, f)

        for optimize, plug in ((False, plugin_root), (True, plugin_root),
                               (False, "-"), (True, "-")):
            a = run_worker(orig, plug, cases_file, optimize)
            b = run_worker(refac, plug, cases_file, optimize)
            assert a["final"]["optimized"] == (1 if optimize else 0)
            stats = {"raised": 0, "ok": 0}
            for i, (ra, rb) in enumerate(zip(a["results"], b["results"])):
                stats["raised" if "exception" in ra else "ok"] += 1
                if ra != rb:
                    bad += 1
                    if bad <= 10:
                        print("MISMATCH case", i, cases[i]["kind"],
                              "-O" if optimize else "")
                        print("  input:", cases[i])
                        print("  orig :", json.dumps(ra)[:1500])
                        print("  refac:", json.dumps(rb)[:1500])
            if len(a["results"]) != len(b["results"]) or \
                    len(a["results"]) != len(cases):
                bad += 1
                print("result count differs")
            if a["final"] != b["final"]:
                bad += 1
                print("final module state differs", a["final"], b["final"])
            kinds = {}
            for c, r in zip(cases, a["results"]):
                k = kinds.setdefault(c["kind"], [0, 0])
                k["exception" in r] += 1
            print("optimize=%s plug-in=%s: %d library cases compared (%d "
                  "returned, %d raised); per kind [returned, raised]: %s; "
                  "fake plug-in calls: %d" % (
                      optimize, "real" if plug == "-" else "fake",
                      len(cases), stats["ok"], stats["raised"], kinds,
                      len(a["final"]["plugin_calls"] or [])))

        for n, (optimize, plug) in enumerate(((False, "-"), (True, "-"),
                                              (False, plugin_root))):
            cli_work_a = os.path.join(work, "cli_a_%d" % n)
            cli_work_b = os.path.join(work, "cli_b_%d" % n)
            os.makedirs(cli_work_a)
            os.makedirs(cli_work_b)
            a = run_cli(orig, plug, cli_work_a, cli_cases, optimize)
            b = run_cli(refac, plug, cli_work_b, cli_cases, optimize)
            for i, (ra, rb) in enumerate(zip(a, b)):
                # the file's own path appears in messages; neutralise it
                for r, w, mod in ((ra, cli_work_a, orig),
                                  (rb, cli_work_b, refac)):
                    for key in ("out", "err"):
                        r[key] = r[key].replace(w, "<work>").replace(
                            mod, "<modules>")
                if ra != rb:
                    bad += 1
                    if bad <= 10:
                        print("CLI MISMATCH", i, cli_cases[i]["args"])
                        print("  orig :", json.dumps(ra)[:1500])
                        print("  refac:", json.dumps(rb)[:1500])
            withsec = sum('"Callout Section"' in r["out"] for r in a)
            print("optimize=%s plug-in=%s: %d CLI runs compared (%d printed "
                  "a callout section, %d non-zero exits, %d with stderr)" % (
                      optimize, "real" if plug == "-" else "fake",
                      len(a), withsec,
                      sum(r["rc"] != 0 for r in a),
                      sum(bool(r["err"]) for r in a)))
    finally:
        shutil.rmtree(work, ignore_errors=True)

    if bad:
        print("NOT EQUIVALENT: %d mismatches" % bad)
        return 1
    print("EQUIVALENT")
    return 0


if __name__ == "__main__":
    sys.exit(main())
