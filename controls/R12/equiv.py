#!/usr/bin/env python
"""
Equivalence check for the refactoring of modules/pel/peltool/peltool.py
(main() and the directory helpers).

usage: equiv.py <original modules dir> <refactored modules dir>

Every case is run against a freshly built fixture tree (always at the same
path, so that paths in messages agree), once with each modules directory:

 * CLI cases run peltool.py as a real process (some of them with python -O,
   some with stdout on /dev/full, some with the BMC environment simulated by
   a bootstrap that redirects the fixed BMC directories to the fixture);
   compared: exit status, stdout, stderr, and the fixture tree afterwards
   (names, types, link targets, file contents).
 * function cases call the public directory helpers directly in one child
   process per modules directory; compared: returned value, exception type,
   stdout, stderr, the fixture tree afterwards.

Exits 0 iff everything agrees.
"""

import hashlib
import itertools
import json
import os
import random
import shutil
import struct
import subprocess
import sys

HERE = os.path.dirname(os.path.abspath(__file__))
BASE = os.path.join(HERE, 'equiv_work')
FIX = os.path.join(BASE, 'fx')
PY = sys.executable

BMC_PATH = "/var/lib/phosphor-logging/extensions/pels/logs/"
BMC_ARCHIVE = "/var/lib/phosphor-logging/extensions/pels/logs/archive"


# --------------------------------------------------------------------------
# PEL construction
# --------------------------------------------------------------------------

def section(sid: bytes, body: bytes, ver=1, sub=0, comp=0x1000, length=None):
    if length is None:
        length = 8 + len(body)
    return sid + struct.pack('>HBBH', length, ver, sub, comp) + body


def ts(y=0x2024, mo=0x03, d=0x08, h=0x18, mi=0x40, s=0x27):
    return struct.pack('>HBBBBBB', y, mo, d, h, mi, s, 0)


def src_section(ascii_str='BD8D1001', flags=0, words=9, sid=b'PS'):
    body = struct.pack('>BBBBHH', 2, flags, 0, words, 0, 72)
    body += struct.pack('>8I', 0x020000F0, 0x2E330000, 0, 0x02000000,
                        0x11, 0x22, 0x33, 0x44)
    body += ascii_str.ljust(32).encode()[:32]
    return section(sid, body, comp=0x1000)


def make_pel(eid, plid=None, bmc_id=1, sev=0x40, flags=0xA000, creator=b'O',
             extra=(), src='BD8D1001', count=None, uh_id=b'UH', ph_id=b'PH',
             subsystem=0x72):
    if plid is None:
        plid = eid
    sections = []
    if src is not None:
        sections.append(src_section(src))
    sections.extend(extra)
    if count is None:
        count = 2 + len(sections)
    ph = ts() + ts(s=0x28) + creator + b'\x00\x00' + bytes([count]) + \
        struct.pack('>I', bmc_id) + struct.pack('>Q', 0x0102) + \
        struct.pack('>II', plid, eid)
    uh = struct.pack('>BBBBIBBHI', subsystem, 0x03, sev, 0x00, 0, 0, 0,
                     flags, 0)
    return section(ph_id, ph, comp=0x2000) + section(uh_id, uh, comp=0x2000) \
        + b''.join(sections)


def ud(data: bytes, comp=0x3000, sub=1):
    return section(b'UD', data, sub=sub, comp=comp)


# --------------------------------------------------------------------------
# Fixture trees.  Everything below FIX is removed and built anew per run.
# --------------------------------------------------------------------------

def w(path, data):
    os.makedirs(os.path.dirname(path), exist_ok=True)
    with open(path, 'wb') as f:
        f.write(data)


def build_fixture(name):
    shutil.rmtree(FIX, ignore_errors=True)
    os.makedirs(FIX)
    d = os.path.join(FIX, 'pels')
    a = os.path.join(FIX, 'archive')
    o = os.path.join(FIX, 'out')
    os.makedirs(d)
    os.makedirs(a)
    os.makedirs(o)
    w(os.path.join(FIX, 'exclude.txt'), b'BD8D1001\nBD8D2002\n')
    w(os.path.join(FIX, 'exclude_none.txt'), b'# nothing\n')
    w(os.path.join(FIX, 'single.pel'),
      make_pel(0x50000099, bmc_id=99, extra=[ud(b'single file')]))
    w(os.path.join(FIX, 'single_hidden.pel'),
      make_pel(0x50000098, bmc_id=98, sev=0x00, flags=0x4000))
    w(os.path.join(FIX, 'single_bad.pel'), b'PH\x00\x30' + b'\x01' * 10)
    w(os.path.join(FIX, 'single_nopel.pel'), b'this is not a PEL at all' * 4)
    w(os.path.join(FIX, 'single_empty.pel'), b'')
    w(os.path.join(FIX, 'single_big.pel'),
      make_pel(0x50000097, bmc_id=97,
               extra=[ud(bytes(range(256)) * 40) for _ in range(3)]))
    # the archive always holds two PELs of its own
    w(os.path.join(a, '2024030818402700_500000A1'),
      make_pel(0x500000A1, bmc_id=161, src='BD8D3003'))
    w(os.path.join(a, '2024030818402701_500000A2.pel'),
      make_pel(0x500000A2, plid=0x500000A1, bmc_id=162, src='BC8A0001'))

    if name == 'empty':
        return
    if name == 'plain':
        w(os.path.join(d, '2024030818402700_50000001'),
          make_pel(0x50000001, bmc_id=1))
        w(os.path.join(d, '2024030818402701_50000002'),
          make_pel(0x50000002, plid=0x50000001, bmc_id=2, src='BD8D2002',
                   extra=[ud(b'hello world'), ud(b'second one')]))
        w(os.path.join(d, '2024030818402702_50000003'),
          make_pel(0x50000003, bmc_id=3, sev=0x00, flags=0x0000,
                   src='BC8A1234'))
        w(os.path.join(d, '2024030818402703_50000004'),
          make_pel(0x50000004, bmc_id=4, sev=0x51, flags=0x4000,
                   src='11002345'))
        w(os.path.join(d, '2024030818402704_50000005'),
          make_pel(0x50000005, bmc_id=5, sev=0x10, flags=0x2000, src=None,
                   extra=[ud(b'no src here')]))
        return
    if name == 'mixed':
        # valid PELs with and without extensions
        w(os.path.join(d, '2024030818402700_50000001.pel'),
          make_pel(0x50000001, bmc_id=1))
        w(os.path.join(d, '2024030818402701_50000002.pel'),
          make_pel(0x50000002, plid=0x50000001, bmc_id=2, src='BD8D2002',
                   extra=[ud(b'abc' * 30), section(b'MI', b'\x01\x02\x03')]))
        w(os.path.join(d, '2024030818402702_50000003.txt'),
          make_pel(0x50000003, bmc_id=3, sev=0x00, flags=0x8000,
                   src='BC8A1234'))
        w(os.path.join(d, '2024030818402703_50000004'),
          make_pel(0x50000004, bmc_id=4, sev=0x51, flags=0x4000))
        w(os.path.join(d, '2024030818402704_50000005.PEL'),
          make_pel(0x50000005, bmc_id=5, sev=0x20, flags=0x6000))
        # leftovers of --json carrying an id in the name
        w(os.path.join(d, '0000_50000001.0x50000001.json'),
          b'{"Private Header": {}}\n')
        w(os.path.join(d, 'AAAA_50000006.json'), b'[1, 2, 3]')
        # same id, not a PEL / truncated PEL / PEL that does not decode
        w(os.path.join(d, '0001_50000007'), b'')
        w(os.path.join(d, '0002_50000007'), b'garbage' * 20)
        w(os.path.join(d, '0003_50000007'),
          make_pel(0x50000007, bmc_id=7)[:60])
        w(os.path.join(d, '0004_50000007'),
          make_pel(0x50000007, bmc_id=7, count=9))
        w(os.path.join(d, '0005_50000007'),
          make_pel(0x50000007, bmc_id=7, extra=[ud(b'the real one')]))
        w(os.path.join(d, '0006_50000007'),
          make_pel(0x50000007, bmc_id=7, extra=[ud(b'the later one')]))
        # right private header, wrong user header
        w(os.path.join(d, '0007_50000008'),
          make_pel(0x50000008, bmc_id=8, uh_id=b'XX'))
        # not a private header at the start
        w(os.path.join(d, '0008_50000009'),
          make_pel(0x50000009, bmc_id=9, ph_id=b'QQ'))
        # filtered out by default (hidden, informational)
        w(os.path.join(d, '0009_5000000A.pel'),
          make_pel(0x5000000A, bmc_id=10, sev=0x00, flags=0x4000))
        # sub directories are never looked into
        w(os.path.join(d, 'sub', '9999_50000010'),
          make_pel(0x50000010, bmc_id=16))
        w(os.path.join(d, 'dir_5000000B.pel', 'inner_5000000B.pel'),
          make_pel(0x5000000B, bmc_id=11))
        # links
        os.symlink(os.path.join(d, '2024030818402700_50000001.pel'),
                   os.path.join(d, 'link_5000000C.pel'))
        os.symlink(os.path.join(d, 'no_such_file'),
                   os.path.join(d, 'dangling_5000000D.pel'))
        os.symlink(os.path.join(d, 'sub'), os.path.join(d, 'dirlink_5000000E'))
        os.symlink(os.path.join(FIX, 'single.pel'),
                   os.path.join(d, 'outside_5000000F.pel'))
        # odd names
        w(os.path.join(d, '.hidden'), make_pel(0x50000011, bmc_id=17))
        w(os.path.join(d, 'two.dots.pel'), make_pel(0x50000012, bmc_id=18))
        w(os.path.join(d, 'ends.with.dot.'), make_pel(0x50000013, bmc_id=19))
        w(os.path.join(d, ' spaced name 50000014 .pel'),
          make_pel(0x50000014, bmc_id=20))
        return
    if name == 'dupes':
        # several files for one id; the walk order decides which is used
        for i in range(6):
            w(os.path.join(d, 'f%d_50000020' % i),
              make_pel(0x50000020, bmc_id=32, extra=[ud(b'copy %d' % i)]))
        w(os.path.join(d, 'g_50000021'), b'\x00' * 100)
        w(os.path.join(d, 'h_50000021'), make_pel(0x50000021, bmc_id=32))
        w(os.path.join(d, 'i_50000022'),
          make_pel(0x50000022, bmc_id=4294967295, sev=0x00, flags=0))
        w(os.path.join(d, 'j_50000023'), make_pel(0x50000023, bmc_id=0))
        os.symlink('h_50000021', os.path.join(d, 'a_link_50000021'))
        os.symlink('nowhere', os.path.join(d, 'b_link_50000024'))
        return
    if name == 'weird':
        # names that are not valid UTF-8 / not printable
        bd = os.fsencode(d)
        w(os.path.join(bd, b'bad_\xff\xfe_50000030.pel'),
          make_pel(0x50000030, bmc_id=48))
        w(os.path.join(bd, b'bad2_\xe9_50000031.pel'), b'junk')
        w(os.path.join(bd, 'uni_\u00e9\u4e2d_50000032.pel'.encode()),
          make_pel(0x50000032, bmc_id=50))
        w(os.path.join(bd, b'nl_\n_50000033.pel'),
          make_pel(0x50000033, bmc_id=51))
        w(os.path.join(d, 'ok_50000034.pel'), make_pel(0x50000034, bmc_id=52))
        return
    raise ValueError(name)


FIXTURES = ['plain', 'mixed', 'dupes', 'weird', 'empty']


def snapshot():
    """The whole fixture tree: path -> what is there."""
    snap = {}
    top = os.fsencode(FIX)
    for root, dirs, files in os.walk(top):
        for n in sorted(dirs + files):
            p = os.path.join(root, n)
            rel = os.path.relpath(p, top).decode('utf-8', 'backslashreplace')
            if os.path.islink(p):
                snap[rel] = 'link:' + os.readlink(p).decode(
                    'utf-8', 'backslashreplace')
            elif os.path.isdir(p):
                snap[rel] = 'dir'
            else:
                with open(p, 'rb') as f:
                    snap[rel] = 'file:' + hashlib.sha1(f.read()).hexdigest()
    return snap


def subst(s):
    if isinstance(s, str):
        return s.replace('{D}', os.path.join(FIX, 'pels')) \
                .replace('{A}', os.path.join(FIX, 'archive')) \
                .replace('{O}', os.path.join(FIX, 'out')) \
                .replace('{F}', FIX)
    return s


# --------------------------------------------------------------------------
# CLI cases
# --------------------------------------------------------------------------

BOOTSTRAP = r'''
import os, runpy, sys
script, bmc, fix = sys.argv[1], sys.argv[2], sys.argv[3]
BMC_PATH = %r
BMC_ARCHIVE = %r
if bmc == '1':
    real_isdir = os.path.isdir
    real_walk = os.walk

    def isdir(p):
        if p == BMC_PATH or p == BMC_ARCHIVE:
            return True
        return real_isdir(p)

    def walk(top, *args, **kwargs):
        if top == BMC_PATH:
            top = os.path.join(fix, 'pels')
        elif top == BMC_ARCHIVE:
            top = os.path.join(fix, 'archive')
        return real_walk(top, *args, **kwargs)

    os.path.isdir = isdir
    os.walk = walk
sys.argv = [script] + sys.argv[4:]
runpy.run_path(script, run_name='__main__')
''' % (BMC_PATH, BMC_ARCHIVE)


def strip_traceback(text):
    """Tracebacks name source files and lines; keep what is around them."""
    lines = text.split('\n')
    out = []
    in_tb = False
    for line in lines:
        if line.startswith('Traceback (most recent call last)'):
            in_tb = True
            out.append('<traceback>')
            continue
        if in_tb:
            if line.startswith(' ') or line == '':
                continue
            in_tb = False
        out.append(line)
    return '\n'.join(out)


def run_cli(modules, case):
    build_fixture(case['fixture'])
    script = os.path.join(modules, 'pel', 'peltool', 'peltool.py')
    args = [subst(x) for x in case['args']]
    cmd = [PY]
    if case.get('opt'):
        cmd.append('-O')
    if case.get('bmc'):
        cmd += [os.path.join(BASE, 'bootstrap.py'), script, '1', FIX]
    else:
        cmd += [script]
    cmd += args
    env = dict(os.environ)
    env['PYTHONPATH'] = modules
    env['PYTHONDONTWRITEBYTECODE'] = '1'
    env.pop('PYTHONOPTIMIZE', None)
    env['COLUMNS'] = '80'
    if case.get('ascii'):
        env['PYTHONIOENCODING'] = 'ascii'
        env['LC_ALL'] = 'C'
    stdout = subprocess.PIPE
    full = None
    if case.get('stdout') == 'full':
        full = open('/dev/full', 'wb')
        stdout = full
    elif case.get('stdout') == 'closed':
        pass
    try:
        p = subprocess.run(cmd, stdout=stdout, stderr=subprocess.PIPE,
                           stdin=subprocess.DEVNULL, env=env,
                           cwd=subst(case.get('cwd', '{F}')), timeout=120)
    finally:
        if full:
            full.close()
    out = (p.stdout or b'').decode('utf-8', 'backslashreplace')
    err = p.stderr.decode('utf-8', 'backslashreplace')
    # argv[0] differs by construction when an uncaught exception is shown
    err = strip_traceback(err).replace(modules, '<modules>')
    out = out.replace(modules, '<modules>')
    return {'rc': p.returncode, 'stdout': out, 'stderr': err,
            'tree': snapshot()}


def cli_cases():
    rnd = random.Random(12)
    cases = []

    def add(fixture, args, **kw):
        c = {'kind': 'cli', 'fixture': fixture, 'args': list(args)}
        c.update(kw)
        cases.append(c)

    modes = [
        ['-l'], ['-a'], ['-n'], ['-j'], ['-j', '-o', '{O}'],
        ['-j', '-o', '{F}/no_such_dir'], ['-j', '-c'],
        ['-j', '-c', '-o', '{O}'], ['-j', '-o', '{F}/exclude.txt'],
        ['-i', '50000001'], ['-i', '0x50000007'], ['-i', '0X5000000a'],
        ['-i', '50000020'], ['-i', '50000021'], ['-i', '5000000B'],
        ['-i', '5000000C'], ['-i', '5000000D'], ['-i', '5000000E'],
        ['-i', '50000030'], ['-i', '50000033'], ['-i', '50000010'],
        ['-i', '5000'], ['-i', '500000011'], ['-i', '0x5000000'],
        ['-i', ''], ['-i', 'DEADBEEF'], ['-i', '500000A1'],
        ['--bmc-id', '1'], ['--bmc-id', '7'], ['--bmc-id', '32'],
        ['--bmc-id', '8'], ['--bmc-id', '9'], ['--bmc-id', '10'],
        ['--bmc-id', '16'], ['--bmc-id', '4294967295'], ['--bmc-id', '0'],
        ['--bmc-id', '48'], ['--bmc-id', '51'], ['--bmc-id', '99'],
        ['--bmc-id', '161'],
        ['--bmc-id', 'junk'], ['--bmc-id', '01'], ['--bmc-id', ' 1'],
        ['--bmc-id', ''], ['--bmc-id', '-1'],
        ['--plid', '50000001'], ['--plid', '0x50000001'],
        ['--plid', '500000A1'],
        ['--plid', '5000'], ['--plid', 'FFFFFFFF'],
        ['--src', 'BD8D1001'], ['--src', 'BD8D'], ['--src', 'x' * 33],
        ['--src', 'x' * 32], ['--src', 'BC8A'],
        ['--src-exclude', '{F}/exclude.txt'],
        ['--src-exclude', '{F}/exclude_none.txt'],
        ['--src-exclude', '{F}/no_such_file'],
        ['--src-exclude', '{D}'],
        ['-d', '50000001'], ['-d', '0x50000007'], ['-d', '50000020'],
        ['-d', '50000021'], ['-d', '5000000b'], ['-d', '5000000C'],
        ['-d', '5000000D'], ['-d', '5000000E'], ['-d', '50000010'],
        ['-d', '50000030'], ['-d', '5000'], ['-d', 'FFFFFFFF'], ['-d', ''],
        ['-d', '500000A1'],
        ['-D'],
        ['-f', '{F}/single.pel'], ['-f', '{F}/single.pel', '-c'],
        ['-f', '{F}/single_hidden.pel'], ['-f', '{F}/single_hidden.pel', '-c'],
        ['-f', '{F}/single_bad.pel', '-c'], ['-f', '{F}/single_nopel.pel'],
        ['-f', '{F}/single_nopel.pel', '-c'],
        ['-f', '{F}/single_empty.pel', '-c'], ['-f', '{F}/no_such.pel', '-c'],
        ['-f', '{D}', '-c'], ['-f', '{F}/single_big.pel', '-c'],
        [],
        # precedence between modes
        ['-l', '-a'], ['-a', '-n'], ['-D', '-l'], ['-d', '50000001', '-D'],
        ['-D', '-d', '5000'], ['-i', '50000001', '--bmc-id', '2'],
        ['--bmc-id', '2', '--plid', '50000001'],
        ['--plid', '50000001', '--src', 'BD8D2002'],
        ['--src', 'BD8D', '--src-exclude', '{F}/exclude.txt'],
        ['--src-exclude', '{F}/exclude.txt', '-l'],
        ['-j', '-D'], ['-j', '-i', '50000001'], ['-f', '{F}/single.pel', '-D'],
        ['-f', '{F}/single.pel', '-j', '-c'], ['-n', '-D'], ['-a', '-D'],
        ['-i', '5000', '-D'], ['-c'], ['-o', '{O}'], ['-c', '-l'],
        ['-c', '-D'],
    ]
    modifiers = [
        [], ['-x'], ['-r'], ['-e', '.pel'], ['-e', '.txt', '-r'], ['-e', ''],
        ['-e', 'pel'], ['-e', '.'], ['-E'], ['-s'], ['-N'], ['-H'], ['-t'],
        ['-O'], ['-S', 'Informational'], ['-S', 'Recovered', 'Critical'],
        ['-H', '-O'], ['-O', '-S', 'Unrecoverable'], ['-E', '-x'], ['-P'],
        ['-P', '-x', '-r'], ['-N', '-O', '-S', 'Informational'],
        ['-s', '-H', '-t', '-r', '-e', '.pel'], ['-E', '-r', '-P'],
        ['-x', '-e', '.pel', '-E'],
    ]
    paths = [['-p', '{D}'], ['-p', '{D}/'], ['-p', 'pels'], ['-p', '{A}']]

    # 1. every mode, plainly, on the most varied fixtures
    for mode in modes:
        for fixture in ('mixed', 'plain'):
            add(fixture, ['-p', '{D}'] + mode)
    # 2. every mode with random modifiers / fixtures / ways to name the path
    n = 0
    for mode in modes:
        for _ in range(3):
            n += 1
            mod = rnd.choice(modifiers)
            fixture = rnd.choice(FIXTURES)
            path = rnd.choice(paths)
            args = [path, mode, mod]
            rnd.shuffle(args)
            add(fixture, sum(args, []), opt=(n % 4 == 0),
                ascii=(n % 7 == 0))
    # 3. every modifier with the listing modes
    for mod in modifiers:
        for mode in (['-l'], ['-a'], ['-n'], ['-j', '-o', '{O}']):
            add('mixed', ['-p', '{D}'] + mod + mode)
    # 4. the path itself
    for mode in (['-l'], ['-D'], ['-j'], ['-i', '50000001'], ['-n'], [],
                 ['-f', '{F}/single.pel'], ['-d', '5000']):
        add('plain', mode)
        add('plain', ['-p', '{F}/no_such_dir'] + mode)
        add('plain', ['-p', '{F}/exclude.txt'] + mode)
        add('plain', ['-p', ''] + mode)
        add('plain', ['-p', '.'] + mode, cwd='{D}')
        add('plain', ['--path', '{D}'] + mode, cwd='{D}')
    # 5. command line errors and help
    for args in (['-h'], ['--help'], ['-p'], ['-Z'], ['-S'], ['-S', 'bogus'],
                 ['-p', '{D}', '-S', 'Critical', 'bogus', '-l'],
                 ['-A'], ['-p', '{D}', '-A', '-l'], ['-i'], ['-l', 'extra'],
                 ['-p', '{D}', '--li'], ['-p', '{D}', '--delete-al'],
                 ['-p', '{D}', '--src'], ['-p', '{D}', '-e'],
                 ['-p', '{D}', '--all'], ['-p', '{D}', '--all-pels'],
                 ['-p', '{D}', '--show-pel-count', '--reverse'],
                 ['-p', '{D}', '--severities', 'Diagnostic', '--list'],
                 ['-p', '{D}', '--termination', '--only', '--list'],
                 ['-p', '{D}', '--skip-parser-plugins', '--all-pels',
                  '--hex']):
        add('plain', args)
        add('plain', args, bmc=True)
    # 6. the simulated BMC environment
    for mode in modes:
        add('mixed', mode, bmc=True)
    for mode in rnd.sample(modes, 40):
        add(rnd.choice(FIXTURES), ['-A'] + mode + rnd.choice(modifiers),
            bmc=True, opt=rnd.random() < 0.3)
    add('plain', ['--archive', '-l'], bmc=True)
    add('plain', ['-p', '{D}', '-l'], bmc=True)
    # 7. stdout that cannot be written
    for args in (['-f', '{F}/single.pel', '-c'], ['-f', '{F}/single.pel'],
                 ['-f', '{F}/single_big.pel', '-c'],
                 ['-f', '{F}/single.pel', '-c', '-x'],
                 ['-f', '{F}/single_hidden.pel', '-c'],
                 ['-p', '{D}', '-l'], ['-p', '{D}', '-a'],
                 ['-p', '{D}', '-i', '50000001'],
                 ['-p', '{D}', '--bmc-id', '2'],
                 ['-p', '{D}', '-d', 'FFFFFFFF'], ['-p', '{D}', '-D'],
                 ['-p', '{D}', '-j', '-c']):
        add('plain', args, stdout='full')
        add('plain', args, stdout='full', opt=True)
    # 8. python -O on the plain runs of every mode
    for mode in modes[::3]:
        add('dupes', ['-p', '{D}'] + mode, opt=True)
    return cases


# --------------------------------------------------------------------------
# function cases (run inside the child below)
# --------------------------------------------------------------------------

def function_cases():
    cases = []

    def add(fixture, func, args, config=None):
        cases.append({'kind': 'func', 'fixture': fixture, 'func': func,
                      'args': args, 'config': config or {}})

    pathvals = ['{D}', '{D}/', '{F}/no_such_dir', '{F}/exclude.txt', '',
                '{D}/sub', '{D}/dirlink_5000000E', '{A}', None, 12345,
                'bytes:{D}', 1.5, ['{D}'], '{F}']
    exts = [None, '', '.pel', '.txt', 'pel', '.', '.json', '.PEL', 0, b'.pel',
            ('.pel',)]
    revs = ['<omit>', False, True, 0, 1, None, 'yes', 2]
    for fixture in ('mixed', 'weird', 'empty'):
        for p in pathvals:
            add(fixture, 'getFileList', [p, None])
            add(fixture, 'getFileList', [p, '.pel', True])
        for e, r in itertools.product(exts, revs):
            if fixture != 'mixed' and (e not in (None, '.pel') or
                                       r not in ('<omit>', True)):
                continue
            args = ['{D}', e] if r == '<omit>' else ['{D}', e, r]
            add(fixture, 'getFileList', args)
    add('mixed', 'getFileList', ['{D}'])
    add('mixed', 'getFileList', [])

    for fixture in FIXTURES:
        for p in pathvals:
            add(fixture, 'deleteAllPELs', [p])
    add('mixed', 'deleteAllPELs', [])

    ids = ['50000001', '0x50000001', '0X50000001', '50000007', '5000000a',
           '5000000B', '5000000C', '5000000D', '5000000E', '50000010',
           '50000020', '50000021', '50000024', '50000030', '50000033',
           'FFFFFFFF', '5000', '', '0x', '0x5000000', '500000011',
           '0x0x500000', None, 50000001, b'50000001', '.0x50000', 'ED_5000',
           '00_50000', ' 5000000', '.pel\x00\x00\x00\x00', '50000\n01']
    for fixture in ('mixed', 'dupes', 'weird', 'plain'):
        for i in ids:
            add(fixture, 'deletePELFromPELId', ['{D}', i])
    for p in pathvals:
        add('mixed', 'deletePELFromPELId', [p, '50000001'])
        add('mixed', 'deletePELFromPELId', [p, '5000'])
    add('mixed', 'deletePELFromPELId', ['{D}'])

    confs = [{}, {'hex': True}, {'every_pel': True}, {'only': True},
             {'hidden': True, 'only': True}, {'allow_plugins': False},
             {'severities': [0], 'only': True, 'hex': True},
             {'extension': '.pel', 'rev': True}]
    for fixture in ('mixed', 'dupes', 'weird', 'plain'):
        for i in ids:
            for conf in (confs if fixture == 'mixed' else confs[:2]):
                c = dict(conf)
                c['pelID'] = i
                add(fixture, 'parsePelFromID', ['{D}'], c)
    for p in pathvals:
        add('mixed', 'parsePelFromID', [p], {'pelID': '50000001'})
        add('mixed', 'parsePelFromID', [p], {'pelID': '5000'})
    add('mixed', 'parsePelFromID', ['{D}'], {})
    add('mixed', 'parsePelFromID', ['{D}', None])
    add('mixed', 'parsePelFromID', ['{D}', 'not a config'])

    bmcids = ['1', '2', '7', '8', '9', '10', '16', '17', '32', '48', '50',
              '51', '52', '0', '4294967295', 'junk', '', '01', ' 1', '-1',
              None, 1, 7, b'1', '1.0', '99']
    for fixture in ('mixed', 'dupes', 'weird', 'plain', 'empty'):
        for i in bmcids:
            for conf in (confs if fixture == 'mixed' else confs[:2]):
                c = dict(conf)
                c['bmcID'] = i
                add(fixture, 'parsePelFromBmcID', ['{D}'], c)
    for p in pathvals:
        add('mixed', 'parsePelFromBmcID', [p], {'bmcID': '1'})
    add('mixed', 'parsePelFromBmcID', ['{D}', None])
    add('mixed', 'parsePelFromBmcID', ['{D}'], {})
    # The same call twice in a row: nothing may be remembered
    for _ in range(2):
        add('dupes', 'parsePelFromBmcID', ['{D}'], {'bmcID': '32'})
        add('dupes', 'parsePelFromID', ['{D}'], {'pelID': '50000020'})
        add('dupes', 'deletePELFromPELId', ['{D}', '50000020'])
        add('dupes', 'getFileList', ['{D}', None, True])
    # main() called as a function
    for argv in (['-p', '{D}'], ['-p', '{D}', '-l'], ['-p', '{D}', '-c'],
                 [], ['-p', '{D}', '-d', '5000'], ['-f', '{F}/single.pel'],
                 ['-p', '{D}', '-S', 'Critical', '-n'],
                 ['-p', '{D}', '-S', 'Critical', '-n'],
                 ['-p', '{D}', '-n'], ['--nonsense']):
        add('plain', 'main', argv)
    return cases


def child(modules, cases_file, out_file):
    """Runs the function cases with the given modules directory."""
    import contextlib
    import io
    sys.path.insert(0, modules)
    from pel.peltool import peltool
    from pel.peltool.config import Config

    def conv(v):
        if isinstance(v, str) and v.startswith('bytes:'):
            return os.fsencode(subst(v[6:]))
        if isinstance(v, dict) and '__bytes__' in v:
            return v['__bytes__'].encode('latin-1')
        if isinstance(v, dict) and '__tuple__' in v:
            return tuple(v['__tuple__'])
        return subst(v)

    def show(v):
        if isinstance(v, (bytes, str, int, float, bool, type(None))):
            return repr(v)
        if isinstance(v, (list, tuple)):
            return type(v).__name__ + '(' + \
                ', '.join(show(x) for x in v) + ')'
        return type(v).__name__

    with open(cases_file) as f:
        cases = json.load(f)
    results = []
    for case in cases:
        build_fixture(case['fixture'])
        args = [conv(a) for a in case['args']]
        func = getattr(peltool, case['func'])
        if case['func'] in ('parsePelFromID', 'parsePelFromBmcID') and \
                len(args) == 1:
            config = Config()
            for k, v in case['config'].items():
                setattr(config, k, conv(v))
            args.append(config)
        old_argv = sys.argv
        if case['func'] == 'main':
            sys.argv = [os.path.join(modules, 'pel', 'peltool', 'peltool.py')]\
                + args
            args = []
        out, err = io.StringIO(), io.StringIO()
        res = {}
        with contextlib.redirect_stdout(out), contextlib.redirect_stderr(err):
            try:
                res['ret'] = show(func(*args))
            except SystemExit as e:
                res['exc'] = 'SystemExit'
                res['code'] = repr(e.code)
            except BaseException as e:
                res['exc'] = type(e).__name__
        sys.argv = old_argv
        res['stdout'] = out.getvalue()
        res['stderr'] = err.getvalue()
        res['tree'] = snapshot()
        # nothing new may be kept at module level between the calls
        res['state'] = sorted(
            k for k, v in vars(peltool).items()
            if isinstance(v, (list, dict, set)) and v and
            not k.startswith('__'))
        results.append(res)
    with open(out_file, 'w') as f:
        json.dump(results, f)


def jsonable(v):
    if isinstance(v, bytes):
        return {'__bytes__': v.decode('latin-1')}
    if isinstance(v, tuple):
        return {'__tuple__': list(v)}
    return v


def run_function_cases(modules, cases, tag):
    cases_file = os.path.join(BASE, 'func_cases.json')
    out_file = os.path.join(BASE, 'func_results_%s.json' % tag)
    enc = []
    for c in cases:
        c = dict(c)
        c['args'] = [jsonable(a) for a in c['args']]
        c['config'] = {k: jsonable(v) for k, v in c['config'].items()}
        enc.append(c)
    with open(cases_file, 'w') as f:
        json.dump(enc, f)
    env = dict(os.environ)
    env['PYTHONDONTWRITEBYTECODE'] = '1'
    env.pop('PYTHONPATH', None)
    subprocess.run([PY, os.path.abspath(__file__), '--child', modules,
                    cases_file, out_file], check=True, env=env, cwd=BASE)
    with open(out_file) as f:
        return json.load(f)


def describe(case):
    d = {k: v for k, v in case.items() if k not in ('kind',)}
    return json.dumps(d, default=repr)


def main():
    if len(sys.argv) >= 2 and sys.argv[1] == '--child':
        child(sys.argv[2], sys.argv[3], sys.argv[4])
        return 0
    if len(sys.argv) != 3:
        sys.exit(__doc__)
    orig = os.path.abspath(sys.argv[1])
    new = os.path.abspath(sys.argv[2])
    shutil.rmtree(BASE, ignore_errors=True)
    os.makedirs(BASE)
    with open(os.path.join(BASE, 'bootstrap.py'), 'w') as f:
        f.write(BOOTSTRAP)

    mismatches = 0
    interesting = {'rc': {}, 'exc': {}}

    ccases = cli_cases()
    for i, case in enumerate(ccases):
        a = run_cli(orig, case)
        b = run_cli(new, case)
        interesting['rc'][a['rc']] = interesting['rc'].get(a['rc'], 0) + 1
        if a != b:
            mismatches += 1
            print('MISMATCH (cli #%d): %s' % (i, describe(case)))
            for k in a:
                if a[k] != b[k]:
                    print('  %s:\n    orig: %r\n    new:  %r' %
                          (k, a[k], b[k]))

    fcases = function_cases()
    ra = run_function_cases(orig, fcases, 'orig')
    rb = run_function_cases(new, fcases, 'new')
    if len(ra) != len(fcases) or len(rb) != len(fcases):
        mismatches += 1
        print('MISMATCH: number of function results')
    for i, (case, a, b) in enumerate(zip(fcases, ra, rb)):
        e = a.get('exc', 'none')
        interesting['exc'][e] = interesting['exc'].get(e, 0) + 1
        if a != b:
            mismatches += 1
            print('MISMATCH (func #%d): %s' % (i, describe(case)))
            for k in set(a) | set(b):
                if a.get(k) != b.get(k):
                    print('  %s:\n    orig: %r\n    new:  %r' %
                          (k, a.get(k), b.get(k)))

    shutil.rmtree(FIX, ignore_errors=True)
    print('cli cases: %d, function cases: %d' % (len(ccases), len(fcases)))
    print('exit statuses seen (orig):', interesting['rc'])
    print('function outcomes seen (orig):', interesting['exc'])
    print('mismatches: %d' % mismatches)
    print('EQUIVALENT' if mismatches == 0 else 'DIFFERENT')
    return 0 if mismatches == 0 else 1


if __name__ == '__main__':
    sys.exit(main())
