#!/usr/bin/env python3
"""
Equivalence check for the io_drawer hlog/utils/drawer_type refactoring.

Usage: equiv.py <original modules dir> <refactored modules dir>

Generates a deterministic set of inputs (header files, history log data,
timestamps, drawer types, ilog/trace/dump data, CLI runs), runs the public
functions of both trees in separate subprocesses (normal and -O, forward and
reversed case order) and exits 0 iff every output / exception type agrees.
"""

import json
import os
import random
import shutil
import subprocess
import sys
import tempfile

PY = sys.executable


# --------------------------------------------------------------------------
# Case generation
# --------------------------------------------------------------------------

START_LINES = [
    'struct mex_hlog_field mex_hlog_fields[MEX_HLOG_FIELD_COUNT] =',
    'static struct mex_hlog_field mex_hlog_fields[MEX_HLOG_FIELD_COUNT] =',
    'struct mex_hlog_field mex_hlog_fields[]={',
    ' struct   mex_hlog_field   mex_hlog_fields [ N ]  = { ',
    'static\tstruct\tmex_hlog_field\tmex_hlog_fields = {',
    'struct mex_hlog_field mex_hlog_fields_v2[3] = {',
    'struct mex_hlog_field mex_hlog_fields = = {',
    'struct mex_hlog_field mex_hlog_fields[] = { };',       # not a start
    'struct mex_hlog_field mex_hlog_fields[] = {{',         # not a start
    'struct mex_hlog_field mex_hlog_fields[];',             # not a start
    'struct nimitz_hlog_field nimitz_hlog_fields[] = {',    # not a start
    'extern struct mex_hlog_field mex_hlog_fields[] =',     # not a start
    'static static struct mex_hlog_field mex_hlog_fields[] =',
    'staticstruct mex_hlog_field mex_hlog_fields[] =',
    'struct mex_hlog_field mex_hlog_fields[] = \x0c{\x0b',
]

END_LINES = ['};', '  }  ;  ', '}', '} ;', '};;', '}; // end', '\t}\t;\t', '{ };']

FIELD_LINES = [
    '  { 1, "hl_isolated_standby" },',
    '  { 2, "hl_power_ups" }',
    '{1,"a"},',
    '{2,"b"}',
    '  { 1 , "hl with spaces" }  , ',
    '  { 2, "hl_éè_unicode" },',
    '  { 1, "x" }, ',
    '  { 0, "zero_size" },',
    '  { 3, "three_size" },',
    '  { 12, "twelve" },',
    '  { 1, "" },',
    '  { 1, "quote"inside" },',
    '  { 1, "two" }, { 2, "on_one_line" },',
    '    1, "no_braces"',
    '  { "no_size" }',
    '  { 2, "trailing" }, // comment',
    '  { 2, "double_comma" },,',
    '  {\t2\t,\t"tabs"\t}\t,\t',
    '  { １, "fullwidth_digit" },',
    '  { 2, \'single\' },',
    '  { 1, "ff\x0cvt\x0b" },\x0c',
    '  { 2, "{ 1, x }" },',
    '  { 1, "};" },',
]

JUNK_LINES = ['', '  ', 'foo bar {', 'baz', '{', '#define X 1', '/* c */',
              'struct mex_hlog_field', 'uint8_t size;', '\x0c', '{ }']

NEWLINES = ['\n', '\n', '\n', '\r\n', '\r']


def gen_header_text(rng):
    lines = []
    for _ in range(rng.randint(0, 4)):
        lines.append(rng.choice(JUNK_LINES + FIELD_LINES))
    for _ in range(rng.randint(0, 3)):
        lines.append(rng.choice(START_LINES))
        for _ in range(rng.randint(0, 8)):
            r = rng.random()
            if r < 0.65:
                lines.append(rng.choice(FIELD_LINES))
            elif r < 0.8:
                lines.append(rng.choice(JUNK_LINES))
            elif r < 0.9:
                lines.append(rng.choice(START_LINES))
            else:
                lines.append(rng.choice(END_LINES))
        if rng.random() < 0.8:
            lines.append(rng.choice(END_LINES))
        for _ in range(rng.randint(0, 3)):
            lines.append(rng.choice(JUNK_LINES + FIELD_LINES))
    nl = rng.choice(NEWLINES)
    text = ''
    for i, line in enumerate(lines):
        text += line
        if i + 1 < len(lines) or rng.random() < 0.7:
            text += nl if rng.random() < 0.9 else rng.choice(NEWLINES)
    return text


def gen_data(rng, n=None):
    if n is None:
        n = rng.choice([0, 1, 2, 3, 4, 5, 7, 16, 17, 31, 45, 46, 47, 48, 64,
                        rng.randint(0, 80)])
    mode = rng.random()
    if mode < 0.3:
        b = bytes(rng.choice([0, 0, 0, rng.randint(0, 255)]) for _ in range(n))
    elif mode < 0.4:
        b = bytes(n)
    elif mode < 0.5:
        b = b'\xff' * n
    else:
        b = bytes(rng.randint(0, 255) for _ in range(n))
    return b


def trace_buffer(rng, good=True):
    comp = rng.choice([b'MAIN', b'PEL', b'FOO', b'\xff\xfeX'])
    body = b''
    for _ in range(rng.randint(0, 6)):
        dlen = rng.choice([0, 4, 8, 5, 20, 3])
        tag = rng.choice([0x4654, 0x4644, 0x1234])
        tbh = rng.choice([0, 1, 59, 60, 3599, 3600, 0xFFFE, 0xFFFF,
                          rng.randint(0, 0xFFFF)])
        e = tbh.to_bytes(2, 'big') + rng.randint(0, 0xFFFF).to_bytes(2, 'big')
        e += dlen.to_bytes(2, 'big') + tag.to_bytes(2, 'big')
        e += rng.randint(0, 2**32 - 1).to_bytes(4, 'big')
        e += rng.randint(0, 99999).to_bytes(4, 'big')
        e += bytes(rng.randint(0, 255) for _ in range(dlen))
        if dlen % 4:
            e += bytes(4 - dlen % 4)
        total = len(e) + 4
        if not good and rng.random() < 0.3:
            total += 1
        e += total.to_bytes(4, 'big')
        body += e
    size = 32 + len(body)
    hdr = b'\x02\x20\x01\x42' + comp.ljust(12, b'\0') + bytes(4)
    hdr += size.to_bytes(4, 'big') + rng.randint(0, 3).to_bytes(4, 'big')
    hdr += size.to_bytes(4, 'big')
    out = hdr + body
    if not good and rng.random() < 0.5:
        out = out[:rng.randint(0, len(out))]
    return out


def ilog_data(rng):
    out = b''
    for _ in range(rng.randint(0, 12)):
        ts = rng.choice([0, 1, 59, 60, 61, 3599, 3600, 3661, 0xFFFE, 0xFFFF,
                         rng.randint(0, 0xFFFF)])
        out += ts.to_bytes(2, 'big') + rng.randint(0, 0xFFFF).to_bytes(2, 'big')
        out += rng.choice([0, 0x02000000 | rng.randint(0, 0xFFFF),
                           rng.randint(0, 2**32 - 1)]).to_bytes(4, 'big')
    out += bytes(rng.randint(0, 255) for _ in range(rng.choice([0, 0, 3, 7])))
    return out


def bmc_hexdump(data):
    lines = []
    for i in range(0, len(data), 16):
        chunk = data[i:i + 16]
        hexs = chunk.hex().upper()
        groups = ' '.join(hexs[j:j + 8] for j in range(0, len(hexs), 8))
        asc = ''.join(chr(b) if 0x20 <= b < 0x7f else '.' for b in chunk)
        lines.append('%04X:  %s  <%s>' % (i, groups.ljust(35), asc.ljust(16)))
    return '\n'.join(lines) + '\n'


def generate(workdir):
    rng = random.Random(0x516)
    hdr_dir = os.path.join(workdir, 'hdr')
    os.makedirs(hdr_dir)
    os.makedirs(os.path.join(workdir, 'adir'))
    cases = []

    # ---- header files -----------------------------------------------------
    header_specs = [{'kind': 'real', 'which': 0}, {'kind': 'real', 'which': 1},
                    {'kind': 'missing'}, {'kind': 'dir'}, {'kind': 'none'},
                    {'kind': 'float'}, {'kind': 'bytespath', 'name': 'hdr/h000.h'},
                    {'kind': 'pathlib', 'name': 'hdr/h001.h'},
                    {'kind': 'file', 'name': 'hdr/empty.h'},
                    {'kind': 'file', 'name': 'hdr/badutf8.h'},
                    {'kind': 'file', 'name': 'hdr/badutf8_late.h'},
                    {'kind': 'file', 'name': 'hdr/nul.h'}]
    with open(os.path.join(hdr_dir, 'empty.h'), 'wb'):
        pass
    with open(os.path.join(hdr_dir, 'badutf8.h'), 'wb') as f:
        f.write(b'\xff\xfe struct\n')
    with open(os.path.join(hdr_dir, 'badutf8_late.h'), 'wb') as f:
        f.write(b'struct mex_hlog_field mex_hlog_fields[] = {\n'
                b'  { 1, "ok" },\n' * 3000 + b'  { 2, "\xff" },\n};\n')
    with open(os.path.join(hdr_dir, 'nul.h'), 'wb') as f:
        f.write(b'struct mex_hlog_field mex_hlog_fields[] =\n{\n'
                b'  { 1, "a\0b" },\n  { 2, "c" }\0,\n  { 2, "d" }\n};')
    for i in range(260):
        name = 'hdr/h%03d.h' % i
        with open(os.path.join(workdir, name), 'w', encoding='utf-8',
                  newline='') as f:
            f.write(gen_header_text(rng))
        header_specs.append({'kind': 'file', 'name': name})

    for spec in header_specs:
        cases.append({'fn': 'get_hlog_fields', 'hdr': spec})

    # ---- parse_hlog_data --------------------------------------------------
    data_kinds = ['mv', 'mv', 'mv', 'mv', 'bytes', 'bytearray']
    for spec in header_specs:
        for _ in range(2):
            cases.append({'fn': 'parse_hlog_data', 'hdr': spec,
                          'data': {'kind': rng.choice(data_kinds),
                                   'hex': gen_data(rng).hex()}})
    for which in (0, 1):
        for n in list(range(0, 50)) + [64, 100, 300]:
            cases.append({'fn': 'parse_hlog_data',
                          'hdr': {'kind': 'real', 'which': which},
                          'data': {'kind': 'mv', 'hex': gen_data(rng, n).hex()}})
    odd = [{'kind': 'none'}, {'kind': 'str'}, {'kind': 'int'}, {'kind': 'list'},
           {'kind': 'mvH', 'hex': gen_data(rng, 12).hex()},
           {'kind': 'mvH', 'hex': 'ffff' * 30},
           {'kind': 'mvb', 'hex': 'ff80017f' * 5}]
    for d in odd:
        for spec in header_specs[:12] + header_specs[20:24]:
            cases.append({'fn': 'parse_hlog_data', 'hdr': spec, 'data': d})

    # ---- format_timestamp -------------------------------------------------
    ints = list(range(-5, 0x10010)) + [2**31, 2**64, -2**64, 10**30]
    cases.append({'fn': 'format_timestamp_ints', 'values': ints})
    for lit in ['True', 'False', '1.5', '0.0', '-0.0', '3600.0', '65534.5',
                '65535.0', '-1.5', 'float("nan")', 'float("inf")',
                'float("-inf")', 'None', '"12"', 'b"12"', '[1]', '(1,)',
                '1+2j', 'Decimal("5")', 'Decimal("70000")', 'Decimal("-1")',
                'Decimal("NaN")', 'Decimal("3661.5")', 'Fraction(5)',
                'Fraction(7323, 2)', 'Fraction(-1, 2)', 'Fraction(10**9)',
                'object()', 'IntSub(3661)', 'IntSub(-3)', 'IntSub(65535)',
                'Loud(3661)', 'Loud(-2)', 'Loud(99999)']:
        cases.append({'fn': 'format_timestamp_lit', 'lit': lit})

    # ---- DrawerType -------------------------------------------------------
    cases.append({'fn': 'drawer_constants'})
    for args in [['foo', 'foo.h', 'fooSF', 5], ['', '', '', 0],
                 ['x', '/abs/path.h', '/abs/sf', -1],
                 ['x', '../up.h', 'sub/dir/sf', 1.5],
                 ['x', None, 'sf', None], ['x', 'h.h', None, None],
                 [None, 3, 4, 'v'], ['x', 'a\0b', 'c\nd', 2],
                 ['x', {'b': 'h.h'}, {'b': 'sf'}, 1]]:
        cases.append({'fn': 'drawer_type', 'args': args})
    cases.append({'fn': 'drawer_mutate'})
    cases.append({'fn': 'public_names'})

    # ---- m2c00 user data parser / ilog / trace / dump ---------------------
    for version in (1, 2, 3, 0):
        for _ in range(12):
            cases.append({'fn': 'parseUD', 'sub_type': 72, 'version': version,
                          'hex': gen_data(rng).hex()})
        for _ in range(8):
            cases.append({'fn': 'parseUD', 'sub_type': 73, 'version': version,
                          'hex': ilog_data(rng).hex()})
        for _ in range(8):
            cases.append({'fn': 'parseUD', 'sub_type': 84, 'version': version,
                          'hex': trace_buffer(rng, rng.random() < 0.7).hex()})
        cases.append({'fn': 'parseUD', 'sub_type': 1, 'version': version,
                      'hex': gen_data(rng).hex()})
    dumps = []
    for i in range(12):
        blob = ilog_data(rng)
        for _ in range(rng.randint(0, 2)):
            blob += trace_buffer(rng, rng.random() < 0.8)
        cases.append({'fn': 'parse_dump_data', 'hex': blob.hex(),
                      'which': i % 2})
        name = 'dump%02d.txt' % i
        with open(os.path.join(workdir, name), 'w') as f:
            f.write(bmc_hexdump(blob) if i != 11 else 'not a dump\n')
        dumps.append(name)

    # ---- CLI runs of io_drawer/dump.py -------------------------------------
    cli = []
    for i, name in enumerate(dumps):
        cli.append([name, '-t', ['mex', 'nimitz'][i % 2]])
    cli.append(['nofile.txt', '-t', 'mex'])
    cli.append([dumps[0], '-t', 'bogus'])
    cli.append([dumps[0]])
    cli.append([dumps[1], '-t', 'mex', '-d', 'hdr/h003.h'])
    cli.append([dumps[1], '-t', 'mex', '-d', 'hdr/missing.h'])
    cli.append([dumps[2], '-t', 'nimitz', '-s', 'hdr/h004.h'])
    cli.append(['--help'])

    with open(os.path.join(workdir, 'cases.json'), 'w') as f:
        json.dump({'cases': cases, 'cli': cli}, f)
    return len(cases), len(cli)


# --------------------------------------------------------------------------
# Worker: runs inside a subprocess with one modules dir first on sys.path
# --------------------------------------------------------------------------

def worker(modules_dir, workdir, order):
    sys.path.insert(0, modules_dir)
    import pathlib
    from decimal import Decimal
    from fractions import Fraction

    import io_drawer.drawer_type as dt_mod
    import io_drawer.hlog as hlog_mod
    import io_drawer.utils as utils_mod
    import io_drawer.dump as dump_mod
    from udparsers.m2c00 import m2c00

    for mod in (dt_mod, hlog_mod, utils_mod, dump_mod, m2c00):
        assert os.path.realpath(mod.__file__).startswith(
            os.path.realpath(modules_dir) + os.sep), mod.__file__

    class IntSub(int):
        pass

    class Loud:
        """Number-like object that records every operation applied to it."""
        log = []

        def __init__(self, v):
            self.v = v

        def _un(self, o):
            return o.v if isinstance(o, Loud) else o

        def __lt__(self, o):
            Loud.log.append('lt'); return self.v < self._un(o)

        def __ge__(self, o):
            Loud.log.append('ge'); return self.v >= self._un(o)

        def __floordiv__(self, o):
            Loud.log.append('floordiv'); return Loud(self.v // self._un(o))

        def __sub__(self, o):
            Loud.log.append('sub'); return Loud(self.v - self._un(o))

        def __mul__(self, o):
            Loud.log.append('mul'); return Loud(self.v * self._un(o))

        def __format__(self, spec):
            Loud.log.append('fmt' + spec); return format(self.v, spec)

    def norm(x):
        if isinstance(x, str):
            return x.replace(modules_dir, '<MODULES>')
        if isinstance(x, (list, tuple)):
            return [norm(i) for i in x]
        if isinstance(x, dict):
            return {str(k): norm(v) for k, v in x.items()}
        if isinstance(x, (int, float, bool)) or x is None:
            return x
        return repr(x)

    def hdr_path(spec):
        k = spec['kind']
        if k == 'real':
            return dt_mod.DRAWER_TYPES[spec['which']].get_header_file_path()
        if k == 'missing':
            return os.path.join(workdir, 'does', 'not', 'exist.h')
        if k == 'dir':
            return os.path.join(workdir, 'adir')
        if k == 'none':
            return None
        if k == 'float':
            return 1.5
        if k == 'bytespath':
            return os.path.join(workdir, spec['name']).encode()
        if k == 'pathlib':
            return pathlib.Path(workdir, spec['name'])
        return os.path.join(workdir, spec['name'])

    def data_obj(spec):
        k = spec['kind']
        if k == 'none':
            return None
        if k == 'str':
            return 'some text data'
        if k == 'int':
            return 7
        if k == 'list':
            return [1, 0, 300, 2]
        b = bytes.fromhex(spec['hex'])
        if k == 'mv':
            return memoryview(b)
        if k == 'bytes':
            return b
        if k == 'bytearray':
            return bytearray(b)
        if k == 'mvH':
            return memoryview(b).cast('H')
        if k == 'mvb':
            return memoryview(b).cast('b')
        raise KeyError(k)

    def run(case):
        fn = case['fn']
        if fn == 'get_hlog_fields':
            fields = hlog_mod.get_hlog_fields(hdr_path(case['hdr']))
            return [type(fields).__name__,
                    [[type(f).__name__, type(f.name).__name__, f.name,
                      type(f.size).__name__, f.size, list(f._fields)]
                     for f in fields]]
        if fn == 'parse_hlog_data':
            lines = hlog_mod.parse_hlog_data(data_obj(case['data']),
                                             hdr_path(case['hdr']))
            return [type(lines).__name__, [type(l).__name__ for l in lines],
                    lines]
        if fn == 'format_timestamp_ints':
            return [utils_mod.format_timestamp(v) for v in case['values']]
        if fn == 'format_timestamp_lit':
            Loud.log = []
            ns = {'Decimal': Decimal, 'Fraction': Fraction, 'IntSub': IntSub,
                  'Loud': Loud}
            value = eval(case['lit'], ns)
            try:
                res = utils_mod.format_timestamp(value)
                return [type(res).__name__, res, list(Loud.log)]
            except BaseException as e:
                return ['EXC', type(e).__name__, list(Loud.log)]
        if fn == 'drawer_constants':
            out = []
            for d in dt_mod.DRAWER_TYPES:
                out.append([d.name, d.header_file_name, d.string_file_name,
                            d.user_data_version, d.get_header_file_path(),
                            d.get_trace_string_file_path(),
                            sorted(vars(d))])
            out.append(dt_mod.DRAWER_TYPES[0] is dt_mod.MEX_DRAWER_TYPE)
            out.append(dt_mod.DRAWER_TYPES[1] is dt_mod.NIMITZ_DRAWER_TYPE)
            out.append(type(dt_mod.DRAWER_TYPES).__name__)
            out.append(len(dt_mod.DRAWER_TYPES))
            return out
        if fn == 'drawer_type':
            d = dt_mod.DrawerType(*case['args'])
            out = [sorted(vars(d).items(), key=lambda kv: kv[0])]
            for meth in ('get_header_file_path', 'get_trace_string_file_path'):
                try:
                    out.append(getattr(d, meth)())
                except BaseException as e:
                    out.append('EXC:' + type(e).__name__)
            return out
        if fn == 'drawer_mutate':
            d = dt_mod.DrawerType('a', 'a.h', 'aSF', 9)
            first = [d.get_header_file_path(), d.get_trace_string_file_path()]
            d.header_file_name = 'b.h'
            d.string_file_name = 'bSF'
            second = [d.get_header_file_path(), d.get_trace_string_file_path()]
            kw = dt_mod.DrawerType(name='k', header_file_name='k.h',
                                   string_file_name='kSF', user_data_version=3)
            return [first, second, kw.get_header_file_path(), kw.name]
        if fn == 'public_names':
            return {m.__name__: sorted(n for n in dir(m)
                                       if not n.startswith('_'))
                    for m in (dt_mod, hlog_mod, utils_mod)} | {
                'patterns': [hlog_mod.HLOG_START_RE.pattern,
                             hlog_mod.HLOG_FIELD_RE.pattern,
                             hlog_mod.HLOG_END_RE.pattern],
                'field': list(hlog_mod.HistoryLogField._fields)}
        if fn == 'parseUD':
            return m2c00.parseUDToJson(case['sub_type'], case['version'],
                                       memoryview(bytes.fromhex(case['hex'])))
        if fn == 'parse_dump_data':
            d = dt_mod.DRAWER_TYPES[case['which']]
            return dump_mod.parse_dump_data(
                memoryview(bytes.fromhex(case['hex'])),
                d.get_header_file_path(), d.get_trace_string_file_path())
        raise KeyError(fn)

    def tree():
        out = []
        for root, dirs, files in os.walk(workdir):
            for n in sorted(files):
                p = os.path.join(root, n)
                if n.startswith('result_'):
                    continue
                out.append([os.path.relpath(p, workdir), os.path.getsize(p)])
        return sorted(out)

    with open(os.path.join(workdir, 'cases.json')) as f:
        cases = json.load(f)['cases']
    idx = list(range(len(cases)))
    if order == 'rev':
        idx.reverse()
    before = tree()
    results = {}
    # Run every case twice: once in the requested order and again right away,
    # so that state carried from one call to the next would show up.
    for i in idx:
        both = []
        for _ in range(2):
            try:
                both.append(norm(run(cases[i])))
            except BaseException as e:
                both.append('EXC:' + type(e).__name__)
        results[str(i)] = both
    results['tree_unchanged'] = (before == tree())
    results['debug'] = __debug__
    json.dump(results, sys.stdout)


# --------------------------------------------------------------------------
# Driver
# --------------------------------------------------------------------------

def run_worker(modules_dir, workdir, order, opt):
    cmd = [PY] + (['-O'] if opt else []) + ['-B', os.path.abspath(__file__),
                                            '--worker', modules_dir, workdir,
                                            order]
    env = dict(os.environ)
    env.pop('PYTHONPATH', None)
    env['PYTHONDONTWRITEBYTECODE'] = '1'
    p = subprocess.run(cmd, capture_output=True, text=True, env=env,
                       cwd=workdir)
    if p.returncode != 0:
        print('worker failed:', cmd, p.stderr[-3000:])
        sys.exit(2)
    return json.loads(p.stdout), p.stderr.replace(modules_dir, '<MODULES>')


def run_cli(modules_dir, workdir, args, opt):
    env = dict(os.environ)
    env['PYTHONPATH'] = modules_dir
    env['PYTHONDONTWRITEBYTECODE'] = '1'
    env['COLUMNS'] = '80'
    cmd = [PY] + (['-O'] if opt else []) + [
        '-B', os.path.join(modules_dir, 'io_drawer', 'dump.py')] + args
    p = subprocess.run(cmd, capture_output=True, text=True, env=env,
                       cwd=workdir)
    return [p.returncode, p.stdout.replace(modules_dir, '<MODULES>'),
            p.stderr.replace(modules_dir, '<MODULES>')]


def main():
    orig = os.path.abspath(sys.argv[1])
    refac = os.path.abspath(sys.argv[2])
    workdir = tempfile.mkdtemp(prefix='equiv_R16_')
    try:
        ncases, ncli = generate(workdir)
        with open(os.path.join(workdir, 'cases.json')) as f:
            spec = json.load(f)
        cases = spec['cases']
        bad = 0
        nexc = 0
        for opt in (False, True):
            for order in ('fwd', 'rev'):
                a, a_err = run_worker(orig, workdir, order, opt)
                b, b_err = run_worker(refac, workdir, order, opt)
                assert a['debug'] == (not opt) and b['debug'] == (not opt)
                if a_err != b_err:
                    bad += 1
                    print('STDERR DIFF', opt, order, a_err[-500:], b_err[-500:])
                for key in a:
                    if a[key] != b.get(key):
                        bad += 1
                        desc = cases[int(key)] if key.isdigit() else key
                        print('DIFF', 'opt' if opt else 'dbg', order, desc,
                              '\n  orig :', str(a[key])[:600],
                              '\n  refac:', str(b.get(key))[:600])
                    if key.isdigit():
                        if a[key][0] != a[key][1]:
                            bad += 1
                            print('STATE (orig run twice differs)', cases[int(key)])
                        if isinstance(a[key][0], str) and \
                                a[key][0].startswith('EXC:'):
                            nexc += 1
                if set(a) != set(b):
                    bad += 1
                    print('KEY DIFF')
                if not (a['tree_unchanged'] and b['tree_unchanged']):
                    bad += 1
                    print('FILES CHANGED', a['tree_unchanged'],
                          b['tree_unchanged'])
            for args in spec['cli']:
                ra = run_cli(orig, workdir, args, opt)
                rb = run_cli(refac, workdir, args, opt)
                if ra != rb:
                    bad += 1
                    print('CLI DIFF', args, ra, rb)
        print('%d function cases (x2 calls, x2 orders, x2 -O modes; %d '
              'exception outcomes seen), %d CLI runs (x2 -O modes): %s'
              % (ncases, nexc, ncli,
                 'ALL AGREE' if not bad else '%d DIFFERENCES' % bad))
        sys.exit(0 if not bad else 1)
    finally:
        shutil.rmtree(workdir, ignore_errors=True)


if __name__ == '__main__':
    if len(sys.argv) >= 2 and sys.argv[1] == '--worker':
        worker(os.path.abspath(sys.argv[2]), sys.argv[3], sys.argv[4])
    else:
        main()
