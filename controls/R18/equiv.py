#!/usr/bin/env python3
"""
Equivalence check for the refactoring of modules/udparsers/m2c00/m2c00.py.

Usage: equiv.py <original modules dir> <refactored modules dir>

Runs the same deterministic set of cases against both module trees, each in its
own subprocess (with and without -O), and also drives the peltool CLI with PEL
files that carry I/O drawer user data sections.  Exits 0 iff everything agrees.
"""

import json
import os
import random
import re
import struct
import subprocess
import sys
import tempfile

HERE = os.path.abspath(__file__)


# --------------------------------------------------------------------------
# Input generation (shared by worker and CLI driver; deterministic)
# --------------------------------------------------------------------------

KNOWN_HASHES = [32403714, 38405017, 41406102, 45603949, 92602121, 25202162,
                33902203]


def trace_entry(rnd, hash_value=None, tag=0x4654, data=None, bad_size=False,
                length=None):
    if hash_value is None:
        hash_value = rnd.choice(KNOWN_HASHES)
    if data is None:
        data = bytes(rnd.randrange(256) for _ in range(4 * rnd.randrange(6)))
    ln = len(data) if length is None else length
    pad = (4 - len(data) % 4) % 4
    body = struct.pack('>HHHHII', rnd.randrange(65536), rnd.randrange(65536),
                       ln, tag, hash_value, rnd.randrange(100000))
    body += data + b'\0' * pad
    size = len(body) + 4 + (3 if bad_size else 0)
    return body + struct.pack('>I', size)


def trace_buffer(rnd, entries, comp=b'IICS', size=None, ver=2):
    body = b''.join(entries)
    total = 32 + len(body)
    hdr = struct.pack('>BBBB12s4xIII', ver, 32, 1, 0x42, comp,
                      total if size is None else size, rnd.randrange(4),
                      total)
    return hdr + body


def gen_data(rnd):
    """Returns a list of byte strings: edge cases, structured and random."""
    out = [b'', b'\x00', b'\x00\xde\xad', b'\xde\xad\xbe\xef', b'\x00' * 8,
           b'\xff' * 7, b'\xff' * 8, b'\xff' * 9, b'\x00' * 31, b'\x00' * 32,
           b'\x00' * 33, bytes(range(256)), b'A' * 16, b'"\\\n\t\x7f\x80' * 3]

    # ilog entries: known / unknown / reported-error PTEs
    ptes = [0x01040000, 0x010000AB, 0x01014142, 0x10010003, 0x02004142,
            0xE2082690, 0xE20C2690, 0xE0040000, 0xE0000000, 0xF0040000,
            0x00000000, 0xFFFFFFFF, 0x13BA0102, 0x0158AA00, 0x0158AA01]
    for pte in ptes:
        out.append(struct.pack('>HHI', 0x8ADF, 0x0F19, pte))
    out.append(b''.join(struct.pack('>HHI', rnd.randrange(65536),
                                    rnd.randrange(65536), p) for p in ptes))
    out.append(struct.pack('>HHI', 0, 0, 0) * 3
               + struct.pack('>HHI', 1, 2, 0x01040000) + b'\x01\x02\x03')
    for _ in range(40):
        n = rnd.randrange(1, 8)
        out.append(b''.join(
            struct.pack('>HHI', rnd.randrange(65536), rnd.randrange(65536),
                        rnd.choice(ptes) ^ (rnd.randrange(256)
                                            << (8 * rnd.randrange(4))))
            for _ in range(n)) + bytes(rnd.randrange(256)
                                       for _ in range(rnd.randrange(8))))

    # trace buffers
    out.append(trace_buffer(rnd, []))
    out.append(trace_buffer(rnd, [], comp=b'\xff\xfeXY\x00 '))
    out.append(trace_buffer(rnd, [trace_entry(rnd)], size=0))
    out.append(trace_buffer(rnd, [trace_entry(rnd)], size=0xFFFFFFFF))
    for _ in range(40):
        entries = []
        for _ in range(rnd.randrange(1, 6)):
            kind = rnd.randrange(8)
            if kind == 0:      # partial match (line number part differs)
                entries.append(trace_entry(
                    rnd, hash_value=rnd.choice(KNOWN_HASHES) + 100000))
            elif kind == 1:    # unknown hash
                entries.append(trace_entry(rnd, hash_value=rnd.randrange(99)))
            elif kind == 2:    # binary entry
                entries.append(trace_entry(
                    rnd, tag=0x4644,
                    data=bytes(rnd.randrange(256)
                               for _ in range(rnd.randrange(1, 40)))))
            elif kind == 3:    # unaligned data
                entries.append(trace_entry(
                    rnd, data=bytes(rnd.randrange(256)
                                    for _ in range(rnd.randrange(1, 23)))))
            elif kind == 4:    # broken entry
                entries.append(trace_entry(rnd, bad_size=rnd.random() < .5,
                                           length=rnd.choice([None, 2000,
                                                              400])))
            else:
                entries.append(trace_entry(rnd))
        buf = trace_buffer(rnd, entries,
                           comp=rnd.choice([b'IICS', b'IICM', b'POWR',
                                            b'FANS', b'INFO', b'ERRL',
                                            b'abc def     ']),
                           ver=rnd.randrange(256))
        if rnd.random() < .2:
            buf = buf[:rnd.randrange(len(buf))]
        out.append(buf)

    # random bytes, many lengths
    for _ in range(120):
        n = rnd.choice([1, 2, 3, 7, 8, 9, 15, 16, 17, 31, 32, 33, 48, 64,
                        rnd.randrange(1, 300)])
        out.append(bytes(rnd.randrange(256) for _ in range(n)))
    return out


# --------------------------------------------------------------------------
# Worker: imports ONE modules tree and prints one JSON line per case
# --------------------------------------------------------------------------

def worker(modules_dir):
    modules_dir = os.path.realpath(modules_dir)
    sys.path.insert(0, modules_dir)
    import importlib
    from unittest import mock
    m = importlib.import_module('udparsers.m2c00.m2c00')
    if not os.path.realpath(m.__file__).startswith(modules_dir + os.sep):
        raise SystemExit('wrong module imported: ' + m.__file__)
    from io_drawer import drawer_type as dt_mod
    from io_drawer.drawer_type import DrawerType
    import pel.hexdump
    if not os.path.realpath(pel.hexdump.__file__).startswith(modules_dir):
        raise SystemExit('wrong pel package imported')

    rnd = random.Random(20180)
    results = []

    def norm(text):
        # tree location and object addresses legitimately differ between runs
        text = text.replace(modules_dir, '<MOD>')
        return re.sub(r' at 0x[0-9a-fA-F]+', ' at 0xADDR', text)

    def describe(value):
        if isinstance(value, str):
            return ['str', norm(value)]
        if isinstance(value, dict):
            return [type(value).__name__,
                    norm(repr(list(value.items())))]
        return [type(value).__name__, norm(repr(value))]

    def run(label, func, *args):
        try:
            res = ['ok'] + describe(func(*args))
        except BaseException as e:      # also KeyboardInterrupt etc.
            res = ['exc', type(e).__name__]
        results.append([label, res])

    datas = gen_data(rnd)
    sub_types = [72, 73, 84, 0, 1, 71, 74, 83, 85, 255, -1, 2 ** 40, 72.0,
                 73.0, 84.5, True, None, 'H', '72', b'H', (72,), [72], {},
                 float('nan')]
    versions = [1, 2, 0, 3, -1, 255, 2 ** 33, 1.0, 2.0, 1.5, True, False,
                None, '1', b'\x01', [1], (2,), {}, float('nan')]

    def mv(b):
        return memoryview(b)

    # 1. every sub type x every version, a few payloads
    few = [b'', b'\x00\xde\xad', struct.pack('>HHI', 0x8ADF, 0x0F19,
                                             0x010000DE), datas[-1]]
    few.append(trace_buffer(rnd, [trace_entry(rnd)]))
    for st in sub_types:
        for ver in versions:
            for i, d in enumerate(few):
                run(f'grid {st!r} {ver!r} {i}', m.parseUDToJson, st, ver,
                    mv(d))

    # 2. supported sub types x drawer versions x all payloads, public and
    #    private entry points
    for i, d in enumerate(datas):
        for st in (72, 73, 84, 85):
            for ver in (1, 2, 3):
                run(f'data{i} {st} {ver}', m.parseUDToJson, st, ver, mv(d))
        for ver in (1, 2, 7):
            run(f'hlog{i} {ver}', m._parse_hlog, ver, mv(d))
            run(f'ilog{i} {ver}', m._parse_ilog, ver, mv(d))
            run(f'trace{i} {ver}', m._parse_trace, ver, mv(d))
        run(f'unsup{i}', m._parse_unsupported, 1, mv(d))

    # 3. payloads that are not memoryviews
    odd = [None, b'', b'\x01\x02', bytearray(b''), bytearray(b'\x01\x02\x03'),
           '', 'abc', [], [1, 2, 3], [300], ['x'], (), (1,), 0, 5, 1.5, {},
           {1: 2}, memoryview(b'\x01\x02\x03\x04').cast('H'),
           memoryview(bytearray(b'\x09' * 40))[::2], object, range(3),
           range(0), mv(b'abcdefgh')[2:2]]
    for i, d in enumerate(odd):
        for st in (72, 73, 84, 85, [1]):
            for ver in (1, 2, 3, None):
                run(f'odd{i} {st} {ver}', m.parseUDToJson, st, ver, d)
        for fn in ('_parse_hlog', '_parse_ilog', '_parse_trace',
                   '_parse_unsupported'):
            for ver in (1, 3, 'x'):
                run(f'odd{i} {fn} {ver}', getattr(m, fn), ver, d)

    class Truthy:
        def __init__(self, exc):
            self.exc = exc

        def __bool__(self):
            if self.exc:
                raise self.exc
            return True
    for exc in (None, RuntimeError('truth'), KeyboardInterrupt()):
        for st in (72, 73, 84, 85):
            for ver in (1, 3):
                run(f'truthy {exc!r} {st} {ver}', m.parseUDToJson, st, ver,
                    Truthy(exc))

    # 4. _get_drawer_type
    class Eq:
        def __init__(self, answers):
            self.answers = list(answers)
            self.seen = []

        def __eq__(self, other):
            self.seen.append(other)
            a = self.answers.pop(0)
            if isinstance(a, BaseException):
                raise a
            return a
        __hash__ = None
    for ver in versions + [Eq([False, True]), Eq([True, True]),
                           Eq([False, False]), Eq([1, 0]),
                           Eq([ZeroDivisionError('eq')])]:
        def call(ver=ver):
            r = m._get_drawer_type(ver)
            return [r.name, r.user_data_version, r is dt_mod.MEX_DRAWER_TYPE,
                    r is dt_mod.NIMITZ_DRAWER_TYPE]
        run(f'drawer {ver!r:.40}', call)
    for answers in ([False, True], [ZeroDivisionError('eq')], [False, False]):
        for st in (72, 73, 84, 85):
            e = Eq(answers)
            run(f'eqver {answers!r} {st}', m.parseUDToJson, st, e,
                mv(b'\x00\x01\x02\x03\x04\x05\x06\x07'))
            results.append([f'eqver seen {answers!r} {st}', len(e.seen)])

    # 5. things looked up at call time: module attributes and drawer types
    payload = mv(b'\x8A\xDF\x0F\x19\x01\x00\x00\xDE' * 5)

    def sweep(label):
        for st in (72, 73, 84, 85, 99):
            for ver in (1, 2, 3, 4):
                run(f'{label} {st} {ver}', m.parseUDToJson, st, ver, payload)
                run(f'{label} {st} {ver} empty', m.parseUDToJson, st, ver,
                    mv(b''))

    calls = []

    def stub(name, ret=None, exc=None):
        def f(*args, **kwargs):
            calls.append([name, len(args), sorted(kwargs),
                          [norm(a) if isinstance(a, str) else
                           type(a).__name__ for a in args]])
            if exc is not None:
                raise exc
            return ret
        return f

    class BadStr(Exception):
        def __str__(self):
            raise OverflowError('no str')

    for name in ('parse_hlog_data', 'parse_ilog_data', 'parse_trace_data',
                 'hexdump'):
        for ret, exc in ((['stub', name], None), (None, None),
                         ({'a': 1}, None), (object(), None),
                         ({1, 2}, None), (float('nan'), None),
                         (None, ValueError('boom "q" é')),
                         (None, KeyError('k')), (None, BadStr()),
                         (None, KeyboardInterrupt()), (None, SystemExit(3)),
                         (None, GeneratorExit()), (None, MemoryError()),
                         (None, OSError(2, 'nope', '/x/y'))):
            with mock.patch.object(m, name, stub(name, ret, exc)):
                sweep(f'patch {name} {type(ret).__name__} '
                      f'{type(exc).__name__}')
    for name in ('_parse_hlog', '_parse_ilog', '_parse_trace',
                 '_parse_unsupported'):
        with mock.patch.object(m, name, stub(name, {'P': [name]})):
            sweep(f'patch {name}')
        with mock.patch.object(m, name, stub(name, exc=LookupError(name))):
            sweep(f'patch {name} raising')
    with mock.patch.object(m, '_get_drawer_type',
                           stub('_get_drawer_type', dt_mod.NIMITZ_DRAWER_TYPE)):
        sweep('patch _get_drawer_type')
    with mock.patch.object(m, '_get_drawer_type',
                           stub('_get_drawer_type', None)):
        sweep('patch _get_drawer_type None')
    with mock.patch.object(m, '_get_drawer_type',
                           stub('_get_drawer_type', exc=KeyError(7))):
        sweep('patch _get_drawer_type raising')
    for const, val in (('SUB_TYPE_HLOG', 99), ('SUB_TYPE_ILOG', 72),
                       ('SUB_TYPE_TRACE', 73), ('SUB_TYPE_HLOG', 84),
                       ('SUB_TYPE_TRACE', [])):
        with mock.patch.object(m, const, val):
            sweep(f'const {const}={val}')
    with mock.patch.object(m, 'OrderedDict', dict):
        sweep('OrderedDict=dict')
    with mock.patch.object(m.json, 'dumps',
                           lambda o, *a, **k: 'DUMPS ' + describe(o)[1]):
        sweep('json.dumps')

    class Odd(DrawerType):
        def get_header_file_path(self):
            calls.append(['Odd.header'])
            return os.path.join(modules_dir, 'io_drawer', 'nimitz_pte.h')

        def get_trace_string_file_path(self):
            calls.append(['Odd.string'])
            raise PermissionError('string file')
    missing = DrawerType('gone', 'no_such.h', 'noSuchStringFile', 3)
    inst = DrawerType('inst', 'mex_pte.h', 'mexStringFile', 4)
    inst.get_header_file_path = stub('inst.header', exc=TimeoutError('t'))
    inst.get_trace_string_file_path = stub(
        'inst.string', os.path.join(modules_dir, 'io_drawer', 'mexStringFile'))
    # rebinding the name in the plug-in module
    with mock.patch.object(m, 'DRAWER_TYPES', [missing, inst]):
        sweep('rebind DRAWER_TYPES')
    with mock.patch.object(m, 'DRAWER_TYPES', []):
        sweep('rebind DRAWER_TYPES empty')
    with mock.patch.object(m, 'DRAWER_TYPES', None):
        sweep('rebind DRAWER_TYPES None')
    # mutating the shared list in place
    saved = list(dt_mod.DRAWER_TYPES)
    try:
        dt_mod.DRAWER_TYPES.extend([missing, inst])
        sweep('extended DRAWER_TYPES')
        dt_mod.DRAWER_TYPES[:] = [Odd('odd', 'x', 'y', 1)] + saved
        sweep('Odd first')
        dt_mod.DRAWER_TYPES[:] = [DrawerType('dup', 'nimitz_pte.h',
                                             'nimitzStringFile', 1)] + saved
        sweep('dup version first')
        dt_mod.DRAWER_TYPES[:] = saved[::-1]
        sweep('reversed')
        dt_mod.DRAWER_TYPES[:] = [object()] + saved
        sweep('junk entry')
    finally:
        dt_mod.DRAWER_TYPES[:] = saved
    for attr in ('header_file_name', 'string_file_name', 'user_data_version'):
        with mock.patch.object(dt_mod.MEX_DRAWER_TYPE, attr,
                               'nimitzStringFile' if 'name' in attr else 2):
            sweep(f'mex {attr} changed')
    with mock.patch.object(DrawerType, 'get_header_file_path',
                           lambda self: os.devnull):
        sweep('class header path')
    with mock.patch.object(DrawerType, 'get_trace_string_file_path',
                           lambda self: modules_dir):
        sweep('class string path is a directory')
    results.append(['stub calls', calls])

    # 6. no state carried from call to call
    before = {k: id(v) for k, v in vars(m).items()}
    seq = [(72, 1, datas[3]), (73, 2, datas[20]), (84, 1, datas[70]),
           (85, 1, datas[3]), (72, 3, datas[3]), (84, 2, datas[70]),
           (73, 1, datas[20]), (72, 1, datas[3]), ([], 1, datas[3]),
           (72, 1, datas[3])] * 3
    for i, (st, ver, d) in enumerate(seq):
        run(f'seq{i}', m.parseUDToJson, st, ver, mv(d))
    first = m._parse_hlog(1, mv(b''))
    first['History Log'].append('poison')
    first['extra'] = 1
    run('fresh result', m._parse_hlog, 1, mv(b''))
    run('fresh result 2', m._parse_hlog, 2, mv(b'\x01'))
    a, b = m._parse_unsupported(1, mv(b'')), m._parse_unsupported(1, mv(b''))
    results.append(['distinct objects',
                    [a is b, a['Data'] is b['Data'], type(a).__name__]])
    after = {k: id(v) for k, v in vars(m).items()}
    results.append(['module globals unchanged', before == after])

    # 7. public surface kept
    results.append(['surface', [
        [n, callable(getattr(m, n, None)), repr(getattr(m, n, None))
         if n.startswith('SUB') else None]
        for n in ('parseUDToJson', '_get_drawer_type', '_parse_hlog',
                  '_parse_ilog', '_parse_trace', '_parse_unsupported',
                  'SUB_TYPE_HLOG', 'SUB_TYPE_ILOG', 'SUB_TYPE_TRACE',
                  'DrawerType', 'DRAWER_TYPES', 'parse_hlog_data',
                  'parse_ilog_data', 'parse_trace_data', 'hexdump', 'json',
                  'OrderedDict')]])
    import inspect
    results.append(['signatures', [
        [n, str(inspect.signature(getattr(m, n)))]
        for n in ('parseUDToJson', '_get_drawer_type', '_parse_hlog',
                  '_parse_ilog', '_parse_trace', '_parse_unsupported')]])
    for n in ('parseUDToJson', '_parse_hlog', '_get_drawer_type'):
        run(f'kw {n}', lambda n=n: getattr(m, n)(
            **({'sub_type': 72} if n == 'parseUDToJson' else {}),
            version=1, **({} if n == '_get_drawer_type'
                          else {'data': mv(b'\x01\x02')})))

    # 8. through the peltool section parser
    from pel.peltool.parse_user_data import ParseUserData
    from pel.peltool.config import Config
    cfg = Config()
    off = Config()
    off.allow_plugins = False
    for i, d in enumerate(datas[:60] + datas[-20:]):
        for st in (72, 73, 84, 1, 85):
            for ver in (1, 2, 3):
                run(f'pud{i} {st} {ver}',
                    ParseUserData('M', 0x2C00, st, ver, d).parse, cfg)
        run(f'pud-off{i}', ParseUserData('M', 0x2C00, 72, 1, d).parse, off)

    for r in results:
        print(json.dumps(r, sort_keys=True, default=repr))
    print('CASES', len(results))


# --------------------------------------------------------------------------
# Driver
# --------------------------------------------------------------------------

def bcd(n):
    return bytes([((n // 10) << 4) | (n % 10)])


def build_pel(sections, creator=b'M'):
    ts = bytes.fromhex('20240102') + bytes.fromhex('03040506')
    ph = (b'PH' + struct.pack('>HBBH', 48, 1, 0, 0x2C00) + ts + ts + creator
          + b'\0\0' + bytes([2 + len(sections)]) + struct.pack('>I', 7)
          + b'\0' * 8 + struct.pack('>II', 0x50001234, 0x50001234))
    uh = (b'UH' + struct.pack('>HBBH', 24, 1, 0, 0x2C00)
          + bytes([0x7A, 0x03, 0x40, 0x00]) + b'\0' * 4 + bytes([0, 0])
          + struct.pack('>HI', 0x8000, 0))
    out = ph + uh
    for st, ver, data, comp in sections:
        out += b'UD' + struct.pack('>HBBH', 8 + len(data), ver, st, comp) \
            + data
    return out


def cli_cases(tmp):
    rnd = random.Random(777)
    datas = gen_data(rnd)
    picks = datas[:45:3] + datas[60:100:4] + datas[-30::5]
    cases = []
    for i, d in enumerate(picks):
        secs = [(st, ver, d, 0x2C00) for st in (72, 73, 84, 85)
                for ver in (1, 2, 3)]
        path = os.path.join(tmp, f'pel{i:03d}')
        with open(path, 'wb') as f:
            f.write(build_pel(secs))
        cases.append(['-f', path])
    cases.append(['-f', cases[0][1], '-P'])
    cases.append(['-f', cases[1][1], '-x'])
    cases.append(['-p', tmp, '-a', '-H', '-E'])
    cases.append(['-p', tmp, '-l', '-H', '-E'])
    return cases


def run_worker(modules_dir, opt):
    env = dict(os.environ)
    env.pop('PYTHONPATH', None)
    env['PYTHONHASHSEED'] = '0'
    cmd = [sys.executable] + (['-O'] if opt else []) + \
        [HERE, '--worker', modules_dir]
    p = subprocess.run(cmd, capture_output=True, env=env, cwd='/')
    return p.returncode, p.stdout.decode(), \
        p.stderr.decode().replace(os.path.realpath(modules_dir), '<MOD>')


def run_cli(modules_dir, args, opt, cwd):
    env = dict(os.environ)
    env['PYTHONPATH'] = modules_dir
    env['PYTHONHASHSEED'] = '0'
    env['PYTHONDONTWRITEBYTECODE'] = '1'
    cmd = [sys.executable] + (['-O'] if opt else []) + \
        [os.path.join(modules_dir, 'pel', 'peltool', 'peltool.py')] + args
    p = subprocess.run(cmd, capture_output=True, env=env, cwd=cwd)
    real = os.path.realpath(modules_dir)
    return (p.returncode, p.stdout.decode(errors='replace'),
            p.stderr.decode(errors='replace').replace(real, '<MOD>')
            .replace(modules_dir, '<MOD>'))


def main():
    orig, new = (os.path.abspath(a) for a in sys.argv[1:3])
    ok = True
    total = 0
    for opt in (False, True):
        a = run_worker(orig, opt)
        b = run_worker(new, opt)
        la, lb = a[1].splitlines(), b[1].splitlines()
        if a[0] != 0 or not la or not la[-1].startswith('CASES'):
            print('worker failed on original tree:', a[0], a[2][-2000:])
            ok = False
        if a != b:
            ok = False
            print(f'MISMATCH in worker (optimised={opt}): rc {a[0]} {b[0]}')
            for x, y in zip(la, lb):
                if x != y:
                    print('  orig:', x[:600])
                    print('  new :', y[:600])
                    break
            if a[2] != b[2]:
                print('  stderr orig:', a[2][-1500:])
                print('  stderr new :', b[2][-1500:])
        else:
            n = int(la[-1].split()[1])
            total += n
            print(f'worker optimised={opt}: {n} result records agree, '
                  f'stderr empty={a[2] == ""}')

    with tempfile.TemporaryDirectory() as tmp:
        cases = cli_cases(tmp)
        seen_keys = set()
        for opt in (False, True):
            for args in cases:
                before = sorted(os.listdir(tmp))
                a = run_cli(orig, args, opt, tmp)
                mid = sorted(os.listdir(tmp))
                b = run_cli(new, args, opt, tmp)
                after = sorted(os.listdir(tmp))
                total += 1
                for key in ('"History Log"', '"ILOG"', '"Trace"', '"Data"',
                            'Unable to format data'):
                    if key in a[1]:
                        seen_keys.add(key)
                if a != b or before != mid or mid != after:
                    ok = False
                    print('MISMATCH in CLI', args, opt, a[0], b[0])
                    print('  orig:', a[1][:300], a[2][:300])
                    print('  new :', b[1][:300], b[2][:300])
        print(f'CLI: {2 * len(cases)} runs compared; plug-in output seen: '
              f'{sorted(seen_keys)}')
        if len(seen_keys) < 5:
            ok = False
            print('CLI runs did not reach the plug-in as expected')

    print(f'total compared: {total}')
    print('EQUIVALENT' if ok else 'DIFFERENT')
    sys.exit(0 if ok else 1)


if __name__ == '__main__':
    if len(sys.argv) == 3 and sys.argv[1] == '--worker':
        worker(sys.argv[2])
    elif len(sys.argv) == 3:
        main()
    else:
        sys.exit(__doc__)
