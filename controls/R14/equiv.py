#!/usr/bin/env python
"""
Equivalence check for the refactoring of extend_user_header.py,
failing_mtms.py and imp_partition.py.

  equiv.py <original modules dir> <refactored modules dir>

Runs the same, deterministically generated inputs through both module trees
(each in its own subprocess, with and without `python -O`) and through the
peltool CLI, and exits 0 iff every observation agrees.
"""
import sys
import os
import io
import json
import random
import shutil
import struct
import subprocess
import tempfile
import contextlib

SEED = 20261003

# ---------------------------------------------------------------- generators

TEXT_ATOMS = [b"\x00", b"\x00\x00", b" ", b"A", b"9406", b"-", b"abc", b"\t",
              b"\n", b"\xc3\xa9", b"\xe2\x82\xac", b"\xf0\x9f\x98\x80",
              b"\xff", b"\x80", b"\xc3", b"\xe2\x82", b"\xed\xa0\x80",
              b"\x7f", b"\x01", b"\xc2\xa0", b"\xe2\x80\x80", b"Z\x00Z"]


def gen_text(rng, width):
    """A field of exactly `width` bytes with assorted padding/junk."""
    mode = rng.randrange(8)
    if mode == 0:
        return b"\x00" * width
    if mode == 1:
        body = bytes(rng.choice(b"ABCDEFGHIJ0123456789-_. ")
                     for _ in range(rng.randrange(width + 1)))
        return body.ljust(width, b"\x00")
    if mode == 2:
        body = bytes(rng.choice(b"ABC012") for _ in range(rng.randrange(width + 1)))
        return body.rjust(width, b"\x00")
    if mode == 3:
        return bytes(rng.randrange(256) for _ in range(width))
    if mode == 4:
        return bytes(rng.randrange(0x20, 0x7f) for _ in range(width))
    out = b""
    while len(out) < width:
        out += rng.choice(TEXT_ATOMS)
    out = out[:width]
    if mode == 5 and width > 2:
        out = b"\x00" + out[1:-1] + b"\x00"
    return out


def gen_timestamp(rng):
    if rng.randrange(3):
        return bytes.fromhex("2022030818402799")
    return bytes(rng.randrange(256) for _ in range(8))


def gen_eh_payload(rng):
    symlen = rng.choice([0, 0, 1, 4, 8, 20, 40, 80, 255, rng.randrange(256)])
    sym = gen_text(rng, symlen)
    if rng.randrange(4) == 0:
        sym = sym[:rng.randrange(len(sym) + 1)]          # shorter than said
    p = (gen_text(rng, 8) + gen_text(rng, 12) + gen_text(rng, 16) +
         gen_text(rng, 16) + bytes(rng.randrange(256) for _ in range(4)) +
         gen_timestamp(rng) + bytes(rng.randrange(256) for _ in range(3)) +
         bytes([symlen]) + sym)
    return p


def gen_mt_payload(rng):
    return gen_text(rng, 8) + gen_text(rng, 12)


def gen_lp_payload(rng):
    """Returns (payload, sectionLen)."""
    namelen = rng.choice([0, 0, 1, 3, 4, 8, 16, 40, 255, rng.randrange(256)])
    count = rng.choice([0, 0, 1, 2, 3, 7, 255, rng.randrange(256)])
    name = gen_text(rng, namelen)
    lps = bytes(rng.randrange(256) for _ in range(2 * count))
    body = (bytes(rng.randrange(256) for _ in range(2)) + bytes([namelen, count]) +
            bytes(rng.randrange(256) for _ in range(4)) + name + lps)
    pad = rng.choice([0, 0, 1, 2, 3, 7])
    seclen = 16 + namelen + 2 * count + pad
    mode = rng.randrange(6)
    if mode == 0:
        seclen = rng.randrange(0, 0x10000)               # lying length
    elif mode == 1:
        seclen = 0
    body += bytes(rng.randrange(256) for _ in range(pad))
    if mode == 2:
        body = body[:rng.randrange(len(body) + 1)]
    return body, seclen


COMP_IDS = [0, 0x4142, 0x4100, 0x0041, 0xFFFF, 0x1000, 0x2000, 0xABCD, 0x3130,
            -1, 0x12345, "x", None, 1.5]
CREATORS = ["O", "H", "B", "P", "", "?", "HH", None, "K", "M", "é"]


def gen_header_args(rng):
    ver = rng.choice([0, 1, 2, 255, rng.randrange(256)])
    sub = rng.choice([0, 1, 255, rng.randrange(256)])
    if rng.randrange(5):
        comp = rng.choice(COMP_IDS[:9] + [rng.randrange(0x10000)])
    else:
        comp = rng.choice(COMP_IDS)
    creator = rng.choice(CREATORS)
    return ver, sub, comp, creator


def gen_class_cases(rng):
    """(kind, payload, sectionLen, ver, sub, comp, creator, container,
        byte_order, is_signed, reset_comp_state, fill_comp_ids)"""
    cases = []

    def add(kind, payload, seclen):
        ver, sub, comp, creator = gen_header_args(rng)
        container = rng.choice(["bytes"] * 6 + ["memoryview", "bytearray"])
        bo = rng.choice(["big"] * 10 + ["little", None])
        sg = rng.choice([False] * 10 + [True, None])
        cases.append((kind, payload.hex(), seclen, ver, sub, comp, creator,
                      container, bo, sg, bool(rng.randrange(2)),
                      rng.randrange(4) == 0))

    for _ in range(260):
        add("EH", gen_eh_payload(rng), rng.randrange(0x10000))
    for _ in range(200):
        add("MT", gen_mt_payload(rng), rng.randrange(0x10000))
    for _ in range(300):
        p, l = gen_lp_payload(rng)
        add("LP", p, l)
    # every truncation of one valid payload of each kind
    eh = (b"9105-22A" + b"SN1234567\x00\x00\x00" + b"fw1020.00\x00".ljust(16, b"\x00") +
          b"sub-1.2".ljust(16, b"\x00") + bytes(4) + bytes.fromhex("2022030818402799") +
          bytes(3) + bytes([12]) + b"BD8D1001_ab\x00")
    for n in range(len(eh) + 1):
        add("EH", eh[:n], 0x60)
    mt = b"9105-22A" + b"SN1234567\x00\x00\x00"
    for n in range(len(mt) + 1):
        add("MT", mt[:n], 0x1c)
    lp = b"\x00\x05\x07\x03\x00\x00\x00\x09" + b"lpar-07" + b"\x00\x01\x00\x02\x00\x03" + b"\x00\x00\x00"
    for n in range(len(lp) + 1):
        add("LP", lp[:n], 32)
        add("LP", lp[:n], 8 + n)
    # empty stream
    for kind in ("EH", "MT", "LP"):
        add(kind, b"", 0)
    return cases


SERVICEABLE_UH = bytes([0x10, 0x03, 0x40, 0x00]) + bytes(4) + bytes([0, 0]) + \
    struct.pack(">H", 0xA800) + bytes(4)


def sec_header(sid, length, ver, sub, comp):
    return sid + struct.pack(">HBBH", length & 0xFFFF, ver, sub, comp & 0xFFFF)


def gen_pel(rng, eid):
    creator = rng.choice(b"OHBPKM?\x00")
    secs = []
    for _ in range(rng.choice([0, 1, 1, 2, 2, 3, 4, 6])):
        kind = rng.choice(["EH", "MT", "LP", "LP", "EH", "MT", "XX"])
        ver = rng.randrange(256)
        sub = rng.randrange(256)
        comp = rng.choice([0x4142, 0x1000, 0x2000, 0, 0xFFFF, rng.randrange(0x10000)])
        if kind == "EH":
            p = gen_eh_payload(rng)
            secs.append(sec_header(b"EH", 8 + len(p), ver, sub, comp) + p)
        elif kind == "MT":
            p = gen_mt_payload(rng)
            secs.append(sec_header(b"MT", 8 + len(p), ver, sub, comp) + p)
        elif kind == "LP":
            p, l = gen_lp_payload(rng)
            secs.append(sec_header(b"LP", l, ver, sub, comp) + p)
        else:
            p = bytes(rng.randrange(256) for _ in range(rng.choice([4, 8, 12])))
            secs.append(sec_header(b"DH", 8 + len(p), ver, sub, comp) + p)
    count = 2 + len(secs)
    if rng.randrange(8) == 0:
        count += rng.choice([-1, 1, 3])
    ph = sec_header(b"PH", 48, 1, 0, 0x2000) + bytes.fromhex("2022030818402799") * 2 + \
        bytes([creator, 0, 0, count & 0xFF]) + struct.pack(">I", eid) + bytes(8) + \
        struct.pack(">II", 0x50000000 + eid, 0x50000000 + eid)
    uh_body = SERVICEABLE_UH
    if rng.randrange(6) == 0:
        uh_body = bytes([0x10, 0x03, 0x00, 0x00]) + bytes(12)       # informational
    uh = sec_header(b"UH", 24, 1, 0, 0x2000) + uh_body
    data = ph + uh + b"".join(secs)
    mode = rng.randrange(10)
    if mode == 0:
        data = data[:rng.randrange(len(data) + 1)]
    elif mode == 1:
        data += bytes(rng.randrange(256) for _ in range(rng.randrange(1, 20)))
    return data


def gen_pels(rng, n):
    return [gen_pel(rng, i + 1) for i in range(n)]


# -------------------------------------------------------------------- driver

def describe_exc(e):
    return [type(e).__name__, str(e)]


def driver(modules_dir):
    sys.path.insert(0, modules_dir)
    from pel.datastream import DataStream
    from pel.peltool import comp_id
    from pel.peltool.extend_user_header import ExtendedUserHeader
    from pel.peltool.failing_mtms import FailingMTMS
    from pel.peltool.imp_partition import ImpactedPartition
    from pel.peltool import peltool
    from pel.peltool.config import Config
    import pel.peltool.extend_user_header as m1
    assert os.path.realpath(m1.__file__).startswith(os.path.realpath(modules_dir))

    classes = {"EH": ExtendedUserHeader, "MT": FailingMTMS,
               "LP": ImpactedPartition}
    rng = random.Random(SEED)
    results = []

    def snapshot(obj):
        return sorted((k, repr(v)) for k, v in vars(obj).items() if k != "stream")

    for case in gen_class_cases(rng):
        (kind, payload, seclen, ver, sub, comp, creator, container, bo, sg,
         reset, fill) = case
        raw = bytes.fromhex(payload)
        # the section is parsed twice from the same stream with the same
        # object, to expose any state kept between calls
        raw = raw + raw
        data = {"bytes": raw, "memoryview": memoryview(raw),
                "bytearray": bytearray(raw)}[container]
        if reset:
            comp_id.attemptedToParseCompIDs = False
            comp_id.componentIDs.clear()
        if fill:
            comp_id.componentIDs.clear()
            comp_id.componentIDs.update(
                {"O": {"1000": "bmc-thing", "2000": "phosphor-logging"},
                 "B": {"ABCD": "hb", "abcd": "lower"}})
        stream = DataStream(data, byte_order=bo, is_signed=sg)
        err = io.StringIO()
        outp = io.StringIO()
        rec = []
        with contextlib.redirect_stdout(outp), contextlib.redirect_stderr(err):
            try:
                obj = classes[kind](stream, 0x1234, seclen, ver, sub, comp, creator)
                rec.append(["init", snapshot(obj)])
                for _ in range(2):
                    try:
                        j = obj.toJSON()
                        rec.append(["ok", type(j).__name__, list(j.items())])
                    except BaseException as e:
                        rec.append(["exc"] + describe_exc(e))
                    rec.append(["index", stream.index])
                    rec.append(["state", snapshot(obj)])
            except BaseException as e:
                rec.append(["ctor-exc"] + describe_exc(e))
        rec.append(["stdout", outp.getvalue()])
        rec.append(["stderr", err.getvalue()])
        rec.append(["compstate", comp_id.attemptedToParseCompIDs,
                    sorted(comp_id.componentIDs)])
        results.append(rec)

    # whole PELs through parsePEL, as the CLI does it
    comp_id.attemptedToParseCompIDs = False
    comp_id.componentIDs.clear()
    for data in gen_pels(rng, 400):
        for exit_on_error in (False, True):
            err = io.StringIO()
            outp = io.StringIO()
            rec = []
            stream = DataStream(data, byte_order='big', is_signed=False)
            with contextlib.redirect_stdout(outp), contextlib.redirect_stderr(err):
                try:
                    config = Config()
                    eid, text = peltool.parsePEL(stream, config, exit_on_error)
                    rec.append(["ok", eid, text])
                except BaseException as e:
                    rec.append(["exc"] + describe_exc(e))
            rec.append(["index", stream.index])
            rec.append(["stdout", outp.getvalue()])
            rec.append(["stderr", err.getvalue()])
            results.append(rec)

    sys.__stdout__.write(json.dumps(results))


# ---------------------------------------------------------------------- main

def run_driver(modules_dir, optimize):
    cmd = [sys.executable] + (["-O"] if optimize else []) + \
        [os.path.abspath(__file__), "--driver", modules_dir]
    env = dict(os.environ)
    env.pop("PYTHONPATH", None)
    env["PYTHONDONTWRITEBYTECODE"] = "1"
    p = subprocess.run(cmd, capture_output=True, env=env)
    if p.returncode != 0:
        print("driver failed for", modules_dir, p.stderr.decode(errors="replace"))
        sys.exit(2)
    return json.loads(p.stdout), p.stderr


def run_cli(modules_dir, cwd, args, optimize=False):
    env = dict(os.environ)
    env["PYTHONPATH"] = modules_dir
    env["PYTHONDONTWRITEBYTECODE"] = "1"
    cmd = [sys.executable] + (["-O"] if optimize else []) + \
        [os.path.join(modules_dir, "pel", "peltool", "peltool.py")] + args
    p = subprocess.run(cmd, capture_output=True, env=env, cwd=cwd)
    # the only place the modules directory may legitimately show up is in a
    # traceback; normalise it so that it does not count as a difference
    norm = lambda b: b.replace(modules_dir.encode(), b"<MODULES>")
    return p.returncode, norm(p.stdout), norm(p.stderr)


def tree(path):
    out = {}
    for root, _, files in os.walk(path):
        for f in files:
            full = os.path.join(root, f)
            with open(full, "rb") as fd:
                out[os.path.relpath(full, path)] = fd.read()
    return out


def cli_checks(orig, refac):
    bad = 0
    n = 0
    rng = random.Random(SEED + 1)
    pels = gen_pels(rng, 60)
    tmp = tempfile.mkdtemp(prefix="equiv_R14_")
    try:
        src = os.path.join(tmp, "src_pels")
        os.mkdir(src)
        for i, data in enumerate(pels):
            with open(os.path.join(src, "pel%03d" % i), "wb") as fd:
                fd.write(data)

        def fresh(side):
            d = os.path.join(tmp, side)
            shutil.rmtree(d, ignore_errors=True)
            os.mkdir(d)
            shutil.copytree(src, os.path.join(d, "pels"))
            os.mkdir(os.path.join(d, "out"))
            return d

        runs = []
        for i in range(0, 60, 3):
            runs.append((["-f", "pels/pel%03d" % i], False))
        runs.append((["-f", "pels/pel001", "-x"], False))
        runs.append((["-f", "pels/pel002"], True))
        runs.append((["-f", "pels/pel004", "-c"], False))
        runs.append((["-p", "pels", "-l"], False))
        runs.append((["-p", "pels", "-l", "-E"], True))
        runs.append((["-p", "pels", "-n", "-E"], False))
        runs.append((["-p", "pels", "-a"], False))
        runs.append((["-p", "pels", "-a", "-E", "-r"], False))
        runs.append((["-p", "pels", "-a", "-E"], True))
        runs.append((["-p", "pels", "-j", "-o", "out"], False))
        runs.append((["-p", "pels", "-j", "-o", "out", "-E"], False))
        runs.append((["-p", "pels", "-j", "-E", "-c"], False))
        runs.append((["-p", "pels", "-i", "50000003"], False))
        runs.append((["-p", "pels", "--bmc-id", "5"], False))
        runs.append((["-p", "pels", "--plid", "0x50000007"], False))

        for args, opt in runs:
            obs = []
            for side, mods in (("a", orig), ("b", refac)):
                d = fresh(side)
                rc, so, se = run_cli(mods, d, args, opt)
                obs.append((rc, so, se, tree(d)))
            n += 1
            if obs[0] != obs[1]:
                bad += 1
                print("CLI MISMATCH", args, "-O" if opt else "")
                for k, name in enumerate(("rc", "stdout", "stderr", "files")):
                    if obs[0][k] != obs[1][k]:
                        print("  differs in", name)
    finally:
        shutil.rmtree(tmp, ignore_errors=True)
    return n, bad


def main():
    if len(sys.argv) >= 3 and sys.argv[1] == "--driver":
        driver(sys.argv[2])
        return
    orig = os.path.abspath(sys.argv[1])
    refac = os.path.abspath(sys.argv[2])
    total = 0
    bad = 0
    for optimize in (False, True):
        a, ea = run_driver(orig, optimize)
        b, eb = run_driver(refac, optimize)
        if len(a) != len(b):
            print("different number of results", len(a), len(b))
            bad += 1
        if ea != eb:
            print("driver stderr differs")
            bad += 1
        for i, (x, y) in enumerate(zip(a, b)):
            total += 1
            if x != y:
                bad += 1
                if bad < 10:
                    print("MISMATCH case", i, "-O" if optimize else "")
                    print("  orig :", json.dumps(x)[:600])
                    print("  refac:", json.dumps(y)[:600])
        # sanity: make sure the corpus exercises success and failure paths
        kinds = {}
        for rec in a:
            for item in rec:
                if item[0] in ("ok", "exc"):
                    key = item[0] if item[0] == "ok" else "exc:" + item[1]
                    kinds[key] = kinds.get(key, 0) + 1
        print("python%s: %d in-process cases; outcomes %s"
              % (" -O" if optimize else "", len(a), kinds))
    n, cbad = cli_checks(orig, refac)
    total += n
    bad += cbad
    print("CLI runs compared:", n)
    print("total comparisons: %d, mismatches: %d" % (total, bad))
    print("EQUIVALENT" if bad == 0 else "NOT EQUIVALENT")
    sys.exit(0 if bad == 0 else 1)


if __name__ == "__main__":
    main()
