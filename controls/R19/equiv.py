#!/usr/bin/env python3
"""
Equivalence check for the refactoring of pel/peltool/{user_data,ext_user_data,
default}.py.

  equiv.py <original modules dir> <refactored modules dir>

Runs the same, deterministically generated, set of cases against both modules
directories, each in its own subprocess (once normally and once under
`python -O`), plus a number of runs of the peltool CLI itself, and compares
everything that can be observed: returned documents (with key order), the
exception types, how far the stream was consumed, the attributes of the
section objects, stdout, stderr, exit status and the files left behind.

Exit status 0 iff everything agrees.
"""
import sys
import os
import json
import random
import struct
import subprocess
import tempfile
import shutil
import io
import contextlib

PY = sys.executable


# ---------------------------------------------------------------------------
# Input generation (shared by the in-process cases and the CLI cases)
# ---------------------------------------------------------------------------

def payloads(rng):
    """A broad set of payloads: (label, bytes)."""
    out = []
    out.append(("empty", b""))
    out.append(("one", b"\x00"))
    out.append(("nul4", b"\x00" * 4))
    out.append(("json_obj", b'{"a": 1, "b": [1, 2, {"c": null}]}'))
    out.append(("json_obj_pad", b'{"a": 1, "Section Version": "x"}\x00\x00\x00'))
    out.append(("json_keys_clash",
                b'{"Created by": "me", "Sub-section type": 9, "Data": [1]}'))
    out.append(("json_list", b'[1, 2, 3]'))
    out.append(("json_str", b'"hello"'))
    out.append(("json_num", b'12'))
    out.append(("json_null", b'null'))
    out.append(("json_true", b' true '))
    out.append(("json_nan", b'{"x": NaN}'))
    out.append(("json_inf", b'[Infinity, -Infinity]'))
    out.append(("json_bigexp", b'[1e999]'))
    out.append(("json_bigint", b'{"n": ' + b'9' * 400 + b'}'))
    out.append(("json_dupkeys", b'{"a": 1, "a": 2, "b": {"a": 3}}'))
    out.append(("json_unicode", '{"kéy": "v☃ \\ud83d\\ude00"}'.encode()))
    out.append(("json_lone_surrogate", b'{"k": "\\ud800"}'))
    out.append(("json_trailing", b'{"a": 1} junk'))
    out.append(("json_bad", b'{"a": '))
    out.append(("json_bom", b'\xef\xbb\xbf{"a": 1}'))
    out.append(("not_utf8", b'\xff\xfe\x80\x81{"a": 1}'))
    out.append(("text", b'line one\nline two\x01\x7f\n\nlast\x00\x00'))
    out.append(("text_utf8", 'café\nnaïve\n'.encode()))
    out.append(("text_bad", b'ab\xc3\ncd\xff\xfe\n'))
    out.append(("binary_256", bytes(range(256))))
    for depth in (10, 200, 900, 5000):
        out.append(("deep_list_%d" % depth, b'[' * depth + b']' * depth))
        out.append(("deep_dict_%d" % depth,
                    b'{"a":' * depth + b'1' + b'}' * depth))
    for n in (1, 3, 15, 16, 17, 33, 255):
        out.append(("rand_%d" % n, bytes(rng.randrange(256) for _ in range(n))))
    for n in (5, 40):
        out.append(("ascii_%d" % n,
                    bytes(rng.randrange(0x20, 0x7f) for _ in range(n))))
    return out


CREATORS = ['O', 'B', 'H', 'M', 'T', 'Z', '\x00', '\xe9', 'o', '']
COMPIDS = [0x2000, 0xE500, 0x2C00, 0x0000, 0x4142, 0x4100, 0xFFFF, 0x1000]


def section_header(sid, length, ver, sub, comp):
    return struct.pack(">HHBBH", sid & 0xFFFF, length & 0xFFFF, ver & 0xFF,
                       sub & 0xFF, comp & 0xFFFF)


def bcd(n):
    return ((n // 10) << 4) | (n % 10)


def build_pel(sections, creator=b'O', count=None, sev=0x40, flags=0xA000,
              eid=0x50000001, plid=0x50000001, bmcid=7):
    """sections: list of raw section bytes (header included)."""
    if count is None:
        count = 2 + len(sections)
    ts = bytes([0x20, 0x24, bcd(3), bcd(8), bcd(18), bcd(40), bcd(27), 0])
    ph = section_header(0x5048, 48, 1, 0, 0x2000) + ts + ts + creator + \
        b'\x00\x00' + bytes([count & 0xFF]) + struct.pack(">I", bmcid) + \
        b'\x00' * 8 + struct.pack(">II", plid, eid)
    uh = section_header(0x5548, 24, 1, 0, 0x2000) + \
        bytes([0x10, 0x03, sev, 0x00]) + b'\x00' * 4 + b'\x00\x00' + \
        struct.pack(">H", flags) + b'\x00' * 4
    return ph + uh + b''.join(sections)


def ud_section(payload, ver=1, sub=1, comp=0x2000, length=None):
    if length is None:
        length = 8 + len(payload)
    return section_header(0x5544, length, ver, sub, comp) + payload


def ed_section(payload, creator=b'O', ver=1, sub=1, comp=0x2000, length=None,
               reserved=b'\x00\x00\x00'):
    body = creator + reserved + payload
    if length is None:
        length = 8 + len(body)
    return section_header(0x4544, length, ver, sub, comp) + body


def other_section(payload, sid=0x4548 + 0x0101, ver=1, sub=0, comp=0x1234,
                  length=None):
    if length is None:
        length = 8 + len(payload)
    return section_header(sid, length, ver, sub, comp) + payload


def pel_corpus(rng):
    """(label, bytes) of whole PEL files, well-formed and broken."""
    pls = payloads(rng)
    pels = []
    # one UD/ED/unknown section per payload, with assorted sub-types
    for i, (label, p) in enumerate(pls):
        if len(p) > 60000:
            continue
        sub = (1, 2, 3, 4, 0, 0x7F)[i % 6]
        comp = COMPIDS[i % len(COMPIDS)]
        cr = CREATORS[i % 6].encode('latin-1') or b'O'
        pels.append(("ud_" + label, build_pel(
            [ud_section(p, sub=sub, comp=comp)], creator=cr)))
        pels.append(("ed_" + label, build_pel(
            [ed_section(p, creator=cr, sub=sub, comp=comp)])))
        pels.append(("bmcjson_" + label, build_pel(
            [ud_section(p, sub=1, comp=0x2000),
             ed_section(p, creator=b'O', sub=1, comp=0x2000),
             ed_section(p, creator=b'O', sub=3, comp=0x2000)])))
        pels.append(("dflt_" + label, build_pel(
            [other_section(p, sid=(0x4448, 0x5357, 0x4C52, 0x5A5A, 0x0000,
                                   0xFFFF)[i % 6], comp=comp)])))
    # several sections of the same kind, mixed
    mix = [ud_section(b'{"a": 1}'), ud_section(b'{"b": 2}', comp=0xE500),
           ed_section(b'[1]', creator=b'B'), other_section(b'\x01\x02'),
           ed_section(b'x\ny', creator=b'O', sub=3), other_section(b''),
           ud_section(b''), ed_section(b'')]
    pels.append(("mix", build_pel(mix)))
    pels.append(("mix_rev", build_pel(mix[::-1], creator=b'H')))
    # broken lengths
    p = b'{"a": 1}'
    for ln in (0, 1, 7, 8, 9, 11, 12, 13, 15, 17, 100, 0xFFFF):
        pels.append(("ud_len_%d" % ln, build_pel(
            [ud_section(p, length=ln), other_section(b'zz')])))
        pels.append(("ed_len_%d" % ln, build_pel(
            [ed_section(p, length=ln), other_section(b'zz')])))
        pels.append(("dflt_len_%d" % ln, build_pel(
            [other_section(p, length=ln), ud_section(b'[]')])))
    # truncated files
    whole = build_pel(mix)
    for cut in (0, 3, 8, 47, 48, 60, 72, 73, 79, 80, 81, 83, 84, 85, 90,
                len(whole) - 1):
        pels.append(("cut_%d" % cut, whole[:cut]))
    # section count larger / smaller than the sections present
    pels.append(("count_big", build_pel(mix, count=40)))
    pels.append(("count_small", build_pel(mix, count=3)))
    pels.append(("count_2", build_pel(mix, count=2)))
    # hidden / informational
    pels.append(("hidden", build_pel(mix, flags=0x4000)))
    pels.append(("info", build_pel(mix, sev=0x00, flags=0)))
    # ED with odd creator bytes / reserved bytes
    for cr in (b'\x00', b'\xff', b'o', b'H', b'M'):
        pels.append(("ed_creator_%02x" % cr[0], build_pel(
            [ed_section(b'{"a": 1}', creator=cr, comp=0x4142,
                        reserved=b'\xaa\xbb\xcc')])))
    # real plug-ins
    pels.append(("oe500", build_pel(
        [ud_section(bytes(rng.randrange(256) for _ in range(64)), sub=1,
                    comp=0xE500),
         ed_section(bytes(rng.randrange(256) for _ in range(64)), sub=2,
                    comp=0xE500)])))
    pels.append(("m2c00", build_pel(
        [ud_section(bytes(rng.randrange(256) for _ in range(128)), sub=1,
                    comp=0x2C00, ver=1)], creator=b'M')))
    return pels


# ---------------------------------------------------------------------------
# Worker: runs all in-process cases against ONE modules directory
# ---------------------------------------------------------------------------

class StubParser:
    """Stands in for a udparsers plug-in module."""

    def __init__(self, fn):
        self.fn = fn

    def parseUDToJson(self, subType, version, mv):
        return self.fn(subType, version, mv)


def describe(v):
    """
    Stable, type-aware, flat description of a value (keeps dict key order).
    Iterative, so that it copes with any depth of nesting.
    """
    toks = []
    stack = [v]
    while stack:
        x = stack.pop()
        if isinstance(x, _Close):
            toks.append(x.text)
        elif isinstance(x, dict):
            toks.append(type(x).__name__ + "{")
            stack.append(_Close("}"))
            for k, y in reversed(list(x.items())):
                stack.append(y)
                stack.append(k)
        elif isinstance(x, (list, tuple)):
            toks.append(type(x).__name__ + "[")
            stack.append(_Close("]"))
            stack.extend(reversed(x))
        elif isinstance(x, (bytes, bytearray, memoryview)):
            toks.append(type(x).__name__ + ":" + bytes(x).hex())
        elif isinstance(x, (int, str, bool, float)) or x is None:
            toks.append(type(x).__name__ + ":" + repr(x))
        else:
            toks.append("obj:" + type(x).__name__)
    return " ".join(toks)


class _Close:
    def __init__(self, text):
        self.text = text


describe_deep = describe


def attrs(obj):
    d = {}
    order = []
    for k, v in vars(obj).items():
        order.append(k)
        if k == 'stream':
            d[k] = "stream" if v is not None else "None"
        else:
            d[k] = describe(v)
    return [order, d]


def worker(moddir):
    sys.path.insert(0, moddir)
    from pel.datastream import DataStream
    from pel.peltool.config import Config
    from pel.peltool import parse_user_data
    from pel.peltool.user_data import UserData
    from pel.peltool.ext_user_data import ExtUserData
    from pel.peltool.default import Default
    from pel.peltool import peltool

    for m in (UserData, ExtUserData, Default, peltool):
        f = sys.modules[m.__module__ if hasattr(m, '__module__')
                        else m.__name__].__file__
        assert os.path.abspath(f).startswith(os.path.abspath(moddir) + os.sep), f

    rng = random.Random(20261003)
    results = []

    def run(label, fn):
        so, se = io.StringIO(), io.StringIO()
        try:
            with contextlib.redirect_stdout(so), contextlib.redirect_stderr(se):
                r = ["ok", fn()]
        except SystemExit as e:
            r = ["exit", repr(e.code)]
        except BaseException as e:
            r = ["exc", type(e).__name__]
        results.append([label, r, so.getvalue(), se.getvalue()])

    def mkstream(data, **kw):
        kw.setdefault('byte_order', 'big')
        kw.setdefault('is_signed', False)
        return DataStream(memoryview(data), **kw)

    def cfg(plugins, every=False):
        c = Config()
        c.allow_plugins = plugins
        c.every_pel = every
        return c

    # --- A. the classes themselves ------------------------------------------
    def case_class(cls, data, offset, args, plugins, as_memoryview=True):
        def fn():
            st = mkstream(data)
            if offset:
                st.inc_index(offset)
            try:
                obj = cls(st, *args)
            except BaseException as e:
                return ["ctor", type(e).__name__, st.index]
            out = [st.index, attrs(obj)]
            for _ in range(2):      # twice: no state carried over
                try:
                    if cls is Default:
                        j = obj.toJSON()
                    else:
                        j = obj.toJSON(cfg(plugins))
                    out.append(["json", type(j).__name__, describe_deep(j)])
                except BaseException as e:
                    out.append(["toJSON", type(e).__name__])
                out.append(st.index)
                out.append(attrs(obj))
            return out
        return fn

    pls = payloads(rng)
    n = 0
    for i, (label, p) in enumerate(pls):
        for k in range(4):
            creator = CREATORS[(i + k) % len(CREATORS)]
            comp = COMPIDS[(i * 3 + k) % len(COMPIDS)]
            if k == 0:
                creator, comp = 'O', 0x2000
            sub = (1, 2, 3, 4, 0, 0x7F, 0xFF)[(i + 2 * k) % 7]
            ver = (1, 0, 2, 0xFF)[k]
            plugins = (k % 2 == 0)
            lead = bytes(rng.randrange(256) for _ in range(k))
            tail = bytes(rng.randrange(256) for _ in range(k * 2))
            run("A.ud.%s.%d" % (label, k), case_class(
                UserData, lead + p + tail, k,
                (0x5544, 8 + len(p), ver, sub, comp, creator), plugins))
            edc = creator.encode('latin-1') if len(creator) == 1 else b'O'
            run("A.ed.%s.%d" % (label, k), case_class(
                ExtUserData, lead + edc + b'\x01\x02\x03' + p + tail, k,
                (0x4544, 12 + len(p), ver, sub, comp), plugins))
            run("A.df.%s.%d" % (label, k), case_class(
                Default, lead + p + tail, k,
                (0x4448, 8 + len(p), ver, sub, comp), plugins))
            n += 3

    # lengths that do not fit the stream / are not sensible
    p = b'{"a": [1, 2]}' + b'\x00' * 3
    for ln in (-5, 0, 1, 7, 8, 9, 10, 11, 12, 13, 14, 8 + len(p), 9 + len(p),
               12 + len(p), 13 + len(p), 1000, 0xFFFF, 8.0, 12.0, 10.5, None,
               "12", True):
        for cls, extra in ((UserData, ('O',)), (ExtUserData, ()), (Default, ())):
            for data in (p, b'O\x00\x00\x00' + p, b'', b'O', b'O\x00\x00',
                         b'O\x00\x00\x00'):
                run("A.len.%s.%r.%d" % (cls.__name__, ln, len(data)),
                    case_class(cls, data, 0,
                               (0x5544, ln, 1, 1, 0x2000) + extra, True))

    # odd argument values: must give the same exceptions / fall-backs
    odd = [
        (0x5544, 20, None, None, None),
        (None, 20, 1, 1, 0x2000),
        (0x5544, 20, "v", "s", 0x2000),
        (0x5544, 20, 1, 1, "2000"),
        (0x5544, 20, 1, 1, -1),
        (0x5544, 20, 1, 1, 1 << 40),
        (0x5544, 20, 1, 1, 2.5),
        (0x5544, 20, 1.5, [1], 0x2000),
        (0x5544, 20, 1, 1, True),
    ]
    for a in odd:
        for cr in ('O', 'H', None, 5, 'OO', b'O'):
            for plugins in (True, False):
                run("A.odd.ud.%r.%r.%r" % (a, cr, plugins), case_class(
                    UserData, b'O\x00\x00\x00' + b'x' * 20, 0, a + (cr,),
                    plugins))
        for plugins in (True, False):
            for first in (b'O', b'H', b'Q'):
                run("A.odd.ed.%r.%r.%r" % (a, first, plugins), case_class(
                    ExtUserData, first + b'\x00\x00\x00' + b'x' * 20, 0, a,
                    plugins))
        run("A.odd.df.%r" % (a,), case_class(
            Default, b'O\x00\x00\x00' + b'x' * 20, 0, a, True))

    # streams that are not usable as given
    for cls, extra in ((UserData, ('O',)), (ExtUserData, ()), (Default, ())):
        for ln in (8, 12, 20):
            def fn(cls=cls, extra=extra, ln=ln):
                out = []
                for st in (None, DataStream(memoryview(b'O' * 40)),
                           DataStream(memoryview(b'O' * 40), 'little', True),
                           DataStream(b'O' * 40, 'big', False),
                           DataStream(bytearray(b'O' * 40), 'big', False)):
                    try:
                        o = cls(st, 1, ln, 1, 1, 0x2000, *extra)
                        j = o.toJSON() if cls is Default else o.toJSON(Config())
                        out.append([attrs(o), describe(j),
                                    getattr(st, 'index', None)])
                    except BaseException as e:
                        out.append([type(e).__name__,
                                    getattr(st, 'index', None)])
                return out
            run("A.stream.%s.%d" % (cls.__name__, ln), fn)

    # --- B. what a plug-in may hand back (stubbed plug-in modules) -----------
    def deep(n, kind):
        if kind == 'list':
            return '[' * n + ']' * n
        return '{"a":' * n + '1' + '}' * n

    stub_values = [
        ("none", lambda s, v, m: None),
        ("empty", lambda s, v, m: ''),
        ("spaces", lambda s, v, m: '  \n'),
        ("null", lambda s, v, m: ' null '),
        ("dict", lambda s, v, m: '{"z": 1, "a": {"y": [1, 2]}}'),
        ("clash", lambda s, v, m: '{"Created by": 1, "Section Version": 2}'),
        ("list", lambda s, v, m: '[1, "two", null]'),
        ("str", lambda s, v, m: '"text"'),
        ("num", lambda s, v, m: '3.5'),
        ("false", lambda s, v, m: 'false'),
        ("nan", lambda s, v, m: '{"x": NaN}'),
        ("inf", lambda s, v, m: '-Infinity'),
        ("bigexp", lambda s, v, m: '{"x": 1e400}'),
        ("notjson", lambda s, v, m: 'not json at all ☃'),
        ("notjson_long", lambda s, v, m: 'x' * 100 + '\n\t\x00' + 'y' * 30),
        ("surrogate_raw", lambda s, v, m: 'bad \ud800 text'),
        ("surrogate_json", lambda s, v, m: '{"k": "\\udc00"}'),
        ("bytes", lambda s, v, m: b'{"a": 1}'),
        ("bytes_bad", lambda s, v, m: b'\xff\xfe'),
        ("bytearray", lambda s, v, m: bytearray(b'[1]')),
        ("int", lambda s, v, m: 5),
        ("dictobj", lambda s, v, m: {"a": 1}),
        ("listobj", lambda s, v, m: [1]),
        ("raises", lambda s, v, m: 1 // 0),
        ("raises_key", lambda s, v, m: {}["k"]),
        ("sysexit", lambda s, v, m: sys.exit(3)),
        ("kbdint", lambda s, v, m: (_ for _ in ()).throw(KeyboardInterrupt())),
        ("prints", lambda s, v, m: (print("to stdout"),
                                    print("to stderr", file=sys.stderr),
                                    '{"p": 1}')[2]),
        ("echo", lambda s, v, m: json.dumps(
            {"sub": s, "ver": v, "len": len(m), "hex": bytes(m).hex()})),
    ]
    # nesting right around what the interpreter can print: every depth in the
    # range, because the outcome depends on the exact depth of the call stack
    for d in list(range(930, 1010)) + [100, 500, 2000, 20000, 200000]:
        stub_values.append(("deep_list_%d" % d,
                            lambda s, v, m, d=d: deep(d, 'list')))
    for d in list(range(940, 1005, 1)) + [100, 3000]:
        stub_values.append(("deep_dict_%d" % d,
                            lambda s, v, m, d=d: deep(d, 'dict')))

    def case_stub(kind, fn_stub, data, plugins):
        def fn():
            name = "udparsers.q1234.q1234"
            parse_user_data.userDataParsers[name] = StubParser(fn_stub)
            try:
                st = mkstream(data)
                out = OrderedDictProbe()
                if kind == 'ud':
                    r = peltool.generateUD(st, out, 0x5544, 8 + len(data), 1,
                                           7, 0x1234, 'Q', cfg(plugins))
                else:
                    r = peltool.generateED(st, out, 0x4544, 8 + len(data), 1,
                                           7, 0x1234, cfg(plugins))
                return [r[0], type(r[1]).__name__, attrs(r[1]), st.index,
                        describe_deep(dict(out))]
            finally:
                parse_user_data.userDataParsers.pop(name, None)
        return fn

    from collections import OrderedDict as OrderedDictProbe
    for label, f in stub_values:
        for kind, data in (('ud', b'payload!'), ('ed', b'Q\x00\x00\x00payload!')):
            run("B.stub.%s.%s" % (kind, label), case_stub(kind, f, data, True))
    for label, f in stub_values[:8]:
        run("B.stub.noplug.%s" % label,
            case_stub('ud', f, b'payload!', False))
        run("B.stub.nodata.%s" % label,
            case_stub('ud', f, b'', True))
        run("B.stub.ed.nodata.%s" % label,
            case_stub('ed', f, b'Q\x00\x00\x00', True))

    # a plug-in module that is missing or broken (real import machinery)
    for cr, comp in (('Q', 0x9999), ('O', 0xE500), ('M', 0x2C00), ('.', 0),
                     ('/', 1), ('\x00', 2), ('O.', 3)):
        for sub in (0, 1, 2, 0x20, 0xFF):
            def fn(cr=cr, comp=comp, sub=sub):
                st = mkstream(bytes(range(48)))
                out = OrderedDictProbe()
                r = peltool.generateUD(st, out, 0x5544, 56, 1, sub, comp, cr,
                                       cfg(True))
                return [attrs(r[1]), st.index, describe(dict(out))]
            run("B.realplug.%r.%x.%x" % (cr, comp, sub), fn)

    # --- C. sectionFun / generateDefault dispatch ------------------------------
    for sid in (0x5544, 0x4544, 0x4448, 0x0000, 0xFFFF, 0x4C52, 0x5357,
                0x4548 + 1):
        for label, p in pls[:20]:
            for plugins in (True, False):
                def fn(sid=sid, p=p, plugins=plugins):
                    st = mkstream(b'B\x00\x00\x00' + p)
                    out = OrderedDictProbe()
                    r = peltool.sectionFun(st, out, sid, 8 + 4 + len(p), 2, 1,
                                           0x2000, 'O', cfg(plugins))
                    return [repr(r), st.index, describe_deep(dict(out))]
                run("C.sf.%x.%s.%r" % (sid, label, plugins), fn)

    # --- D. whole PELs through parsePEL / parsePELSummary ----------------------
    for label, pel in pel_corpus(rng):
        for plugins in (True, False):
            for eoe in (False, True):
                def fn(pel=pel, plugins=plugins, eoe=eoe):
                    st = DataStream(pel, byte_order='big', is_signed=False)
                    r = peltool.parsePEL(st, cfg(plugins, eoe), eoe)
                    return [describe(r), st.index]
                run("D.pel.%s.%r.%r" % (label, plugins, eoe), fn)
        def fn2(pel=pel):
            st = DataStream(pel, byte_order='big', is_signed=False)
            r = peltool.parsePELSummary(st, cfg(True, True))
            return [describe(r), st.index]
        run("D.sum.%s" % label, fn2)

    # --- E. parseAndWriteOutput (files created / deleted) ----------------------
    tmp = tempfile.mkdtemp(prefix="equiv_w_")
    try:
        corpus = pel_corpus(random.Random(7))
        for i, (label, pel) in enumerate(corpus[::5]):
            def fn(label=label, pel=pel, i=i):
                d = os.path.join(tmp, "c%d" % i)
                os.makedirs(os.path.join(d, "in"))
                os.makedirs(os.path.join(d, "out"))
                f = os.path.join(d, "in", "pelfile")
                with open(f, "wb") as fd:
                    fd.write(pel)
                cwd = os.getcwd()
                os.chdir(d)
                try:
                    peltool.parseAndWriteOutput(os.path.join("in", "pelfile"),
                                                "out", cfg(i % 2 == 0),
                                                i % 3 == 0)
                finally:
                    os.chdir(cwd)
                listing = []
                for root, dirs, files in sorted(os.walk(d)):
                    for name in sorted(files):
                        with open(os.path.join(root, name), "rb") as fd:
                            listing.append([os.path.relpath(
                                os.path.join(root, name), d), fd.read().hex()])
                return listing
            run("E.write.%s" % label, fn)
    finally:
        shutil.rmtree(tmp, ignore_errors=True)

    # module level state that might have been left behind
    results.append(["Z.state", sorted(parse_user_data.userDataParsers.keys()),
                    "", ""])
    json.dump(results, sys.stdout)


# ---------------------------------------------------------------------------
# Driver
# ---------------------------------------------------------------------------

def run_worker(moddir, opt):
    cmd = [PY] + (["-O"] if opt else []) + [os.path.abspath(__file__),
                                             "--worker", moddir]
    env = dict(os.environ)
    env.pop("PYTHONPATH", None)
    env["PYTHONHASHSEED"] = "0"
    env["PYTHONDONTWRITEBYTECODE"] = "1"
    p = subprocess.run(cmd, stdout=subprocess.PIPE, stderr=subprocess.PIPE,
                       env=env, cwd=tempfile.gettempdir())
    if p.returncode != 0:
        print("worker failed for", moddir, "opt" if opt else "")
        print(p.stderr.decode(errors='replace')[-3000:])
        sys.exit(2)
    return json.loads(p.stdout.decode())


def norm(text, moddir):
    return text.replace(os.path.abspath(moddir), "<MOD>")


def run_cli(moddir, workdir, args, opt):
    tool = os.path.join(moddir, "pel", "peltool", "peltool.py")
    env = dict(os.environ)
    env["PYTHONPATH"] = moddir
    env["PYTHONHASHSEED"] = "0"
    env["PYTHONDONTWRITEBYTECODE"] = "1"
    cmd = [PY] + (["-O"] if opt else []) + [tool] + args
    p = subprocess.run(cmd, stdout=subprocess.PIPE, stderr=subprocess.PIPE,
                       env=env, cwd=workdir)
    listing = []
    for root, dirs, files in sorted(os.walk(workdir)):
        for name in sorted(files):
            with open(os.path.join(root, name), "rb") as fd:
                listing.append((os.path.relpath(os.path.join(root, name),
                                                workdir), fd.read()))
    return (p.returncode, norm(p.stdout.decode(errors='replace'), moddir),
            norm(p.stderr.decode(errors='replace'), moddir), listing)


def cli_cases():
    rng = random.Random(99)
    corpus = pel_corpus(rng)
    # a directory of PELs with a broad, but bounded, selection
    chosen = corpus[::9] + [c for c in corpus if c[0] in (
        "mix", "mix_rev", "oe500", "m2c00", "ud_json_nan", "ed_json_nan",
        "ud_len_9", "ed_len_13", "dflt_len_100", "cut_81", "count_big",
        "hidden", "info")]
    seen = set()
    files = []
    for i, (label, pel) in enumerate(chosen):
        if label in seen:
            continue
        seen.add(label)
        # distinct entry ids so that the -i / -d look-ups are unambiguous
        files.append(("%03d_%s" % (i, label), pel))
    cases = [
        (["-p", "pels", "-a"], False),
        (["-p", "pels", "-a", "-E"], False),
        (["-p", "pels", "-a", "-E", "-P"], False),
        (["-p", "pels", "-a", "-E", "-r"], True),
        (["-p", "pels", "-a", "-E", "-x"], False),
        (["-p", "pels", "-a", "-H", "-O"], False),
        (["-p", "pels", "-l", "-E"], False),
        (["-p", "pels", "-n", "-E"], False),
        (["-p", "pels", "-i", "0x50000001"], False),
        (["-p", "pels", "-i", "50000001", "-P"], True),
        (["-p", "pels", "--bmc-id", "7"], False),
        (["-p", "pels", "--plid", "0x50000001"], False),
        (["-p", "pels", "-j", "-o", "outdir", "-E"], False),
        (["-p", "pels", "-j", "-o", "outdir", "-E", "-P", "-c"], False),
        (["-p", "pels", "-j", "-E", "-c"], True),
        (["-p", "pels", "-j", "-o", "missing_dir", "-E"], False),
        (["-p", "pels", "-d", "0x50000001"], False),
        (["-p", "pels", "-D"], False),
    ]
    for name, _ in files[:25]:
        cases.append((["-f", os.path.join("pels", name)], False))
        cases.append((["-f", os.path.join("pels", name), "-P"], True))
    return files, cases


def driver(orig, refac):
    orig, refac = os.path.abspath(orig), os.path.abspath(refac)
    bad = 0
    total = 0
    for opt in (False, True):
        a = run_worker(orig, opt)
        b = run_worker(refac, opt)
        if len(a) != len(b):
            print("different number of results", len(a), len(b))
            bad += 1
        for ra, rb in zip(a, b):
            total += 1
            ra = json.loads(norm(json.dumps(ra), orig))
            rb = json.loads(norm(json.dumps(rb), refac))
            if ra != rb:
                bad += 1
                if bad <= 10:
                    print("MISMATCH%s %s" % (" (-O)" if opt else "", ra[0]))
                    print("   orig :", json.dumps(ra)[:600])
                    print("   refac:", json.dumps(rb)[:600])
        print("in-process cases%s: %d compared" % (" (-O)" if opt else "",
                                                    len(a)))

    files, cases = cli_cases()
    tmp = tempfile.mkdtemp(prefix="equiv_cli_")
    try:
        for n, (args, opt) in enumerate(cases):
            res = []
            for side, moddir in (("o", orig), ("r", refac)):
                wd = os.path.join(tmp, "%s%d" % (side, n))
                os.makedirs(os.path.join(wd, "pels"))
                os.makedirs(os.path.join(wd, "outdir"))
                for name, pel in files:
                    with open(os.path.join(wd, "pels", name), "wb") as fd:
                        fd.write(pel)
                r = run_cli(moddir, wd, args, opt)
                res.append((r[0], r[1].replace(wd, "<WD>"),
                            r[2].replace(wd, "<WD>"), r[3]))
                shutil.rmtree(wd, ignore_errors=True)
            total += 1
            if res[0] != res[1]:
                bad += 1
                print("CLI MISMATCH", args, "-O" if opt else "")
                for i, what in enumerate(("status", "stdout", "stderr",
                                          "files")):
                    if res[0][i] != res[1][i]:
                        print("   differs in", what)
        print("CLI cases: %d compared" % len(cases))
    finally:
        shutil.rmtree(tmp, ignore_errors=True)

    print("total %d comparisons, %d mismatches" % (total, bad))
    return 0 if bad == 0 else 1


if __name__ == "__main__":
    if len(sys.argv) == 3 and sys.argv[1] == "--worker":
        sys.setrecursionlimit(1000)
        worker(sys.argv[2])
    elif len(sys.argv) == 3:
        sys.exit(driver(sys.argv[1], sys.argv[2]))
    else:
        print(__doc__)
        sys.exit(2)
