#!/usr/bin/env python
"""
Equivalence check for the peltool.py refactoring (section dispatch / naming,
generate* helpers, the walk shared by parsePEL() and parsePELSummary()).

  equiv.py <original modules dir> <refactored modules dir>

A corpus of PELs (well formed, odd and malformed) is generated once; a worker
subprocess per modules directory (and per interpreter mode: normal and -O)
runs the public functions of pel.peltool.peltool over it and records results,
exceptions, stdout, stderr and the exact sequence of stream reads.  The CLI is
run too, on copies of a PEL directory, recording stdout, stderr, exit status
and the files left behind.  Exit status 0 iff every record agrees.
"""

import sys
import os
import io
import json
import random
import struct
import shutil
import hashlib
import tempfile
import subprocess
import contextlib

HERE = os.path.dirname(os.path.abspath(__file__))
PYTHON = sys.executable

# ---------------------------------------------------------------------------
# corpus
# ---------------------------------------------------------------------------

PH, UH, PS, SS, EH, MT, DH, SW, LP, LR, HM, EP, IE, MI, CH, UD, EI, ED = (
    0x5048, 0x5548, 0x5053, 0x5353, 0x4548, 0x4D54, 0x4448, 0x5357, 0x4C50,
    0x4C52, 0x484D, 0x4550, 0x4945, 0x4D49, 0x4348, 0x5544, 0x4549, 0x4544)
ALL_IDS = [PH, UH, PS, SS, EH, MT, DH, SW, LP, LR, HM, EP, IE, MI, CH, UD,
           EI, ED]


def hdr(sid, length, ver=1, sub=0, comp=0x2000):
    return struct.pack('>HHBBH', sid & 0xFFFF, length & 0xFFFF, ver & 0xFF,
                       sub & 0xFF, comp & 0xFFFF)


def ts(r):
    return bytes([0x20, 0x23, r.choice([1, 0x12]), r.choice([1, 0x28]),
                  r.choice([0, 0x23]), r.choice([0, 0x59]), 0x30, 0x11])


def sec_ph(r, count, creator=b'O', obmc=1, plid=0x50000001, eid=0x50000001,
           sid=PH, comp=0x2000):
    body = ts(r) + ts(r) + creator + b'\0\0' + bytes([count & 0xFF]) + \
        struct.pack('>IQII', obmc, r.choice([0, 0x1122334455667788]),
                    plid, eid)
    return hdr(sid, 48, 1, 0, comp) + body


def sec_uh(r, sev=0x40, action=0xA000, sid=UH, subsys=0x10, scope=0x03,
           etype=0, states=0, comp=0x2000):
    body = bytes([subsys, scope, sev, etype]) + b'\0\0\0\0' + \
        bytes([r.choice([0, 1]), r.choice([0, 2])]) + \
        struct.pack('>HI', action, states)
    return hdr(sid, 24, 1, 0, comp) + body


def callout(r):
    loc = r.choice([b'', b'U78DA.ND1-P0', b'Ufcs-P0-C5\0\0'])
    fru = b''
    kind = r.randrange(5)
    if kind in (0, 1, 2):
        flags = r.choice([0x08, 0x02, 0x0C, 0x0D, 0x22, 0x03, 0x00])
        fru = b''
        if flags & 0x0A:
            fru += r.choice([b'BMC0001\0', b'01AB123\0', b'PROC\0\0\0\0'])
        if flags & 0x04:
            fru += b'CCIN'
        if flags & 0x01:
            fru += b'SN1234567890'
        fru = struct.pack('>HBB', 0x4944, 4 + len(fru), flags) + fru
    if kind == 1:
        name = r.choice([b'', b'pce0'])
        fru += struct.pack('>HBB', 0x5045, 24 + len(name), 0) + \
            b'9105-22A' + b'SERIAL123456' + name
    if kind == 2:
        n = r.randrange(3)
        fru += struct.pack('>HBBI', 0x4D52, 8 + 8 * n, n, 0) + \
            b''.join(struct.pack('>II', 0x48, 0x10000 + i) for i in range(n))
    if kind == 4:
        fru = b'\x12\x34junk'
    body = loc + fru
    return bytes([4 + len(body), 0x20 + r.randrange(4),
                  r.choice([0x48, 0x4D, 0x4C, 0x00]), len(loc)]) + body


def sec_src(r, sid=PS, ascii=None, callouts=None, wordcount=9, sub=0,
            comp=0x2000):
    if ascii is None:
        ascii = r.choice(['BD8D1234', 'BD8D2222', '11002222', 'BC8A3333',
                          'BC8A1234', 'B7001111', 'BD8D9999', '        ',
                          'BD20E500'])
    ascii = ascii.encode() if isinstance(ascii, str) else ascii
    ascii = ascii.ljust(32, b' ')[:32]
    flags = r.choice([0, 0x80, 0x14, 0x02])
    extra = b''
    if callouts is None:
        callouts = r.choice([0, 0, 1, 2, 3])
    if callouts:
        cs = b''.join(callout(r) for _ in range(callouts))
        while len(cs) % 4:
            cs += b'\0'
        extra = struct.pack('>BBH', 0xC0, 0, (4 + len(cs)) // 4) + cs
        flags |= 0x01
    words = [r.choice([0x55, 0x02, 0xF0]), r.choice([0, 0x2B080000])] + \
        [r.getrandbits(32) for _ in range(6)]
    body = bytes([2, flags, 0, wordcount]) + struct.pack('>HH', 0, 72) + \
        b''.join(struct.pack('>I', w) for w in words) + ascii + extra
    return hdr(sid, 8 + len(body), 1, sub, comp) + body


def sec_eh(r, comp=0x2000):
    sym = r.choice([b'', b'BD8D1234_2B080000\0\0\0', b'\xff\xfe'])
    body = b'9105-22A' + b'SERIAL123456' + b'fw1030.00-1'.ljust(16, b'\0') + \
        b'subsys-1'.ljust(16, b'\0') + b'\0\0\0\0' + ts(r) + b'\0\0\0' + \
        bytes([len(sym)]) + sym
    return hdr(EH, 8 + len(body), 1, 0, comp) + body


def sec_mt(r, comp=0x2000):
    body = r.choice([b'9105-22A', b'\0\0\0\0\0\0\0\0', b'\xc3\x28abcdef']) + \
        b'SERIAL123456'
    return hdr(MT, 28, 1, 0, comp) + body


def ud_payload(r):
    kind = r.randrange(8)
    if kind == 0:
        return b''
    if kind == 1:
        return json.dumps({"k%d" % i: r.randrange(100)
                           for i in range(r.randrange(4))}).encode()
    if kind == 2:
        return b'[1, 2, {"a": "b\\": c"}]\0\0'
    if kind == 3:
        return b'line one\nline two\x01\xff\n\0\0'
    if kind == 4:
        return b'{"broken": '
    if kind == 5:
        return b'NaN'
    return bytes(r.getrandbits(8) for _ in range(r.randrange(1, 40)))


def sec_ud(r, sid=UD, comp=None, sub=None, ver=None, data=None):
    if comp is None:
        comp = r.choice([0x2000, 0x2000, 0x1234, 0x1235, 0x1236, 0x1237,
                         0x1238, 0x1239, 0xE500, 0x2C00, 0x3100])
    if sub is None:
        sub = r.choice([1, 2, 3, 4, 0, 0x10])
    if ver is None:
        ver = r.choice([1, 2])
    if data is None:
        data = ud_payload(r)
    return hdr(sid, 8 + len(data), ver, sub, comp) + data


def sec_ed(r, comp=None, sub=None):
    data = ud_payload(r)
    creator = r.choice([b'O', b'B', b'H', b'M', b'\xff', b'Z'])
    if comp is None:
        comp = r.choice([0x2000, 0x1234, 0x1236, 0xE500, 0x4142])
    if sub is None:
        sub = r.choice([1, 3, 4, 0])
    return hdr(ED, 12 + len(data), 1, sub, comp) + creator + b'\0\0\0' + data


def sec_lp(r):
    name = r.choice([b'', b'lpar1\0\0\0', b'\xff\xff'])
    lps = r.randrange(3)
    body = struct.pack('>HBBI', 0x0001, len(name), lps, 0x90000001) + name + \
        b''.join(struct.pack('>H', 2 + i) for i in range(lps))
    pad = r.choice([0, 0, 2, 4])
    body += b'\0' * pad
    return hdr(LP, 8 + len(body), 1, 0, 0x4142) + body


def sec_other(r, sid=None):
    if sid is None:
        sid = r.choice([DH, SW, LR, HM, EP, IE, MI, CH, EI, 0x0000, 0xFFFF,
                        0x5A5A, 0x5054, 0x5048, 0x5548, 0x2222])
    data = bytes(r.getrandbits(8) for _ in range(r.choice([0, 1, 4, 16, 33])))
    return hdr(sid, 8 + len(data), r.randrange(3), r.randrange(3),
               r.choice([0x2000, 0x4142, 0])) + data


SECTION_MAKERS = [sec_src, sec_eh, sec_mt, sec_ud, sec_ud, sec_ed, sec_lp,
                  sec_other, sec_other,
                  lambda r: sec_src(r, sid=SS)]


def make_pel(r, n=None, creator=None, primary=None, **uhargs):
    if creator is None:
        creator = r.choice([b'O', b'O', b'O', b'B', b'H', b'M', b'T', b'Z',
                            b'\xe9'])
    if n is None:
        n = r.choice([0, 1, 2, 3, 4, 5, 6, 8])
    secs = []
    if primary is None:
        primary = r.random() < 0.7
    if primary and n:
        secs.append(sec_src(r))
    while len(secs) < n:
        secs.append(r.choice(SECTION_MAKERS)(r))
    if r.random() < 0.15:
        r.shuffle(secs)
    if 'sev' not in uhargs:
        uhargs['sev'] = r.choice([0x00, 0x10, 0x20, 0x40, 0x51, 0x61, 0x71])
    if 'action' not in uhargs:
        uhargs['action'] = r.choice([0x0000, 0x8000, 0x4000, 0x2000, 0xA000,
                                     0x6000, 0xE000])
    eid = r.choice([0x50000001, 0x5000ABCD, 0x90001234, 0x00000000])
    plid = r.choice([eid, 0x50000001])
    head = sec_ph(r, 2 + len(secs), creator=creator, eid=eid, plid=plid,
                  obmc=r.choice([1, 2, 77, 0])) + sec_uh(r, **uhargs)
    return head + b''.join(secs)


def make_corpus(seed=20261003):
    r = random.Random(seed)
    corpus = []
    # well formed / odd but complete
    for _ in range(170):
        corpus.append(make_pel(r))
    # one of each optional section alone and doubled, per creator
    for creator in (b'O', b'B', b'H'):
        for mk in SECTION_MAKERS:
            corpus.append(make_pel(r, n=0, creator=creator)[:72])
            one = mk(r)
            base = sec_ph(r, 3, creator=creator) + sec_uh(r)
            corpus.append(base + one)
            two = sec_ph(r, 5, creator=creator) + sec_uh(r)
            corpus.append(two + one + mk(r) + mk(r))
    # every known section id as a plain blob, incl. the decoded ones
    for sid in ALL_IDS + [0x15053 & 0xFFFF, 0x0001, 0x5000]:
        corpus.append(sec_ph(r, 3) + sec_uh(r) + sec_other(r, sid=sid))
    # section count lies
    for _ in range(30):
        pel = bytearray(make_pel(r))
        pel[27] = r.choice([0, 1, 2, 3, pel[27] + 1, pel[27] + 5, 255,
                            max(0, pel[27] - 1)])
        corpus.append(bytes(pel))
    # wrong first / second section
    for _ in range(12):
        pel = bytearray(make_pel(r))
        off = r.choice([0, 48])
        pel[off:off + 2] = struct.pack('>H', r.choice([UH, PH, PS, 0, 0xFFFF,
                                                       UD]))
        corpus.append(bytes(pel))
    # truncations
    for _ in range(70):
        pel = make_pel(r)
        corpus.append(pel[:r.randrange(len(pel))])
    for cut in (0, 1, 2, 7, 8, 47, 48, 49, 55, 56, 71, 72, 73, 79, 80):
        corpus.append(make_pel(r, n=3)[:cut])
    # corruptions
    for _ in range(80):
        pel = bytearray(make_pel(r))
        for _ in range(r.choice([1, 1, 2, 5])):
            pel[r.randrange(len(pel))] = r.getrandbits(8)
        corpus.append(bytes(pel))
    # broken section lengths
    for _ in range(30):
        pel = bytearray(make_pel(r, n=r.choice([1, 2, 3])))
        pel[74:76] = struct.pack('>H', r.choice([0, 4, 7, 8, 9, 11, 12, 13,
                                                 0xFFFF, 80, 20]))
        corpus.append(bytes(pel))
    # trailing garbage, random bytes
    for _ in range(10):
        corpus.append(make_pel(r) + bytes(r.getrandbits(8)
                                          for _ in range(r.randrange(1, 30))))
    for _ in range(15):
        corpus.append(bytes(r.getrandbits(8)
                            for _ in range(r.choice([3, 8, 48, 72, 100, 300]))))
    # severities / action flags sweep for the selection options
    for sev in (0x00, 0x10, 0x20, 0x40, 0x51, 0x71):
        for action in (0x0000, 0x8000, 0x4000, 0x2000, 0x6000):
            corpus.append(make_pel(r, n=2, creator=b'O', primary=True,
                                   sev=sev, action=action))
    return corpus


# ---------------------------------------------------------------------------
# extra importable things shared by both sides (registry, component ids)
# ---------------------------------------------------------------------------

REGISTRY = {"PELs": [
    {"Name": "a", "SRC": {"ReasonCode": "0x1234", "Words6To9": {
        "6": {"Description": "six", "AdditionalDataPropSource": "PROP6"},
        "7": {"AdditionalDataPropSource": "PROP7"}}},
     "Documentation": {"Message": "Error %1 with %2 and %3",
                       "MessageArgSources": ["SRCWord6", "SRCWord7"]}},
    {"Name": "b", "SRC": {"ReasonCode": "0x2222", "Type": "11",
                          "Words6To9": {}},
     "Documentation": {"Message": "power fault"}},
    {"Name": "c", "SRC": {"ReasonCode": "0x3333", "Type": "BC"},
     "Documentation": {"Description": "no message here"}},
    {"Name": "d", "SRC": {"Type": "BC"}, "Documentation": {"Message": "x"}},
    {"Name": "e", "SRC": {"ReasonCode": "0x1234", "Type": "BC"},
     "Documentation": {"Message": ""}},
]}


def make_extra(path):
    pkg = os.path.join(path, 'pel_registry')
    os.makedirs(pkg)
    with open(os.path.join(pkg, '__init__.py'), 'w') as f:
        f.write("import os\n"
                "def get_registry_path():\n"
                "    return os.path.join(os.path.dirname(__file__),"
                " 'message_registry.json')\n")
    with open(os.path.join(pkg, 'message_registry.json'), 'w') as f:
        json.dump(REGISTRY, f)
    with open(os.path.join(pkg, 'O_component_ids.json'), 'w') as f:
        json.dump({"2000": "bmc error logging", "E500": "hw diags"}, f)


# ---------------------------------------------------------------------------
# worker: runs inside a subprocess with one modules dir on sys.path
# ---------------------------------------------------------------------------

class Equalizer:
    """Compares equal to everything, hashes like nothing in particular."""

    def __eq__(self, other):
        return True

    def __ne__(self, other):
        return False

    def __hash__(self):
        return 12345

    def __repr__(self):
        return 'Equalizer()'


def worker(modules_dir, extra_dir, corpus_file, out_file):
    sys.path.insert(0, extra_dir)
    sys.path.insert(0, modules_dir)
    import inspect
    import decimal
    import fractions
    from collections import OrderedDict
    import pel.datastream as dsmod
    import pel.peltool.peltool as pt
    import pel.peltool.parse_user_data as pud
    import pel.peltool.src as srcmod
    from pel.peltool.config import Config
    assert os.path.abspath(pt.__file__).startswith(
        os.path.abspath(modules_dir) + os.sep), pt.__file__

    with open(corpus_file) as f:
        corpus = [bytes.fromhex(h) for h in json.load(f)]

    reads = []

    class RecStream(dsmod.DataStream):
        def get_mem(self, num_bytes):
            reads.append((self.index, num_bytes))
            return super().get_mem(num_bytes)

    # file level functions build their own streams: record those too
    pt.DataStream = RecStream

    # stand-ins for parser plug-ins that are not shipped (same on both sides)
    class FakeUD:
        def __init__(self, how):
            self.how = how

        def parseUDToJson(self, subType, version, mv):
            how = self.how
            if how == 'dict':
                return json.dumps({"Sub": subType, "Ver": version,
                                   "Len": len(mv), "Created by": "plugin"})
            if how == 'list':
                return json.dumps([bytes(mv).hex(), 'x": y'])
            if how == 'none':
                return None
            if how == 'stop':
                raise StopIteration('exhausted')
            if how == 'value':
                raise ValueError('bad data')
            if how == 'junk':
                return '{"not json": '
            raise KeyboardInterrupt('by the plug-in')

    for comp, how in ((0x1234, 'dict'), (0x1235, 'list'), (0x1236, 'none'),
                      (0x1237, 'stop'), (0x1238, 'value'), (0x1239, 'junk'),
                      (0x3100, 'interrupt')):
        for creator in 'bhmtz':
            name = creator + "%04x" % comp
            pud.userDataParsers["udparsers." + name + "." + name] = \
                FakeUD(how)

    class FakeSRC:
        def parseSRCToJson(self, ascii, *words):
            if words[2].endswith('0'):
                raise IndexError('srcparser')
            if words[2].endswith('1'):
                return 'null'
            if words[2].endswith('2'):
                return '{"oops'
            return json.dumps({"Ref": ascii.strip(), "W": list(words[:2])})

    srcmod.srcParsers["srcparsers.bsrc.bsrc"] = FakeSRC()

    records = []

    def show(value):
        if isinstance(value, tuple):
            return '(' + ', '.join(show(v) for v in value) + ')'
        if isinstance(value, (str, bytes, int, float, bool, type(None),
                              list, dict)):
            return type(value).__name__ + ':' + repr(value)
        return '<' + type(value).__name__ + '>'

    def run(label, fn, *extra_state):
        """Runs fn(), records everything observable about it."""
        del reads[:]
        so, se = io.StringIO(), io.StringIO()
        rec = {'label': label}
        try:
            with contextlib.redirect_stdout(so), \
                    contextlib.redirect_stderr(se):
                rec['result'] = show(fn())
        except BaseException as e:
            rec['exc'] = type(e).__name__
            rec['msg'] = str(e)
            if isinstance(e, SystemExit):
                rec['code'] = repr(e.code)
        # the only thing allowed to differ: where the modules live (it shows
        # up in compile warnings of plug-ins that get imported on the way)
        rec['stdout'] = so.getvalue().replace(modules_dir, '<MODULES>')
        rec['stderr'] = se.getvalue().replace(modules_dir, '<MODULES>')
        rec['reads'] = list(reads)
        rec['state'] = [show(s() if callable(s) else s) for s in extra_state]
        records.append(rec)
        return rec

    def configs():
        out = []
        c = Config()
        out.append(('default', c))
        c = Config()
        c.every_pel = True
        out.append(('every', c))
        c = Config()
        c.every_pel = True
        c.allow_plugins = False
        out.append(('every-noplug', c))
        c = Config()
        c.hidden = True
        c.only = True
        out.append(('hidden-only', c))
        c = Config()
        c.severities = [0x0, 0x1]
        out.append(('sev', c))
        c = Config()
        c.non_serviceable = True
        c.only = True
        c.severities = [0x4]
        out.append(('nonserv-only-sev', c))
        c = Config()
        c.critSysTerm = True
        c.plid = '50000001'
        out.append(('term-plid', c))
        return out

    # ---- 1. signatures of everything the module defines ------------------
    names = {}
    for name, obj in sorted(vars(pt).items()):
        if inspect.isfunction(obj) and obj.__module__ == pt.__name__:
            names[name] = str(inspect.signature(obj))
        elif inspect.isclass(obj) and obj.__module__ == pt.__name__:
            names[name] = 'class'
    records.append({'label': 'signatures', 'names': names})

    # ---- 2. getSectionName ------------------------------------------------
    for sid in list(range(0, 0x10000, 257)) + ALL_IDS + \
            [0x15053, 0x5053 << 8, -1, -0xAFB0, 2 ** 70 + 0x5544, True, False]:
        run('name %r' % (sid,), lambda: pt.getSectionName(sid))
    for sid in (None, 'PS', b'PS', 20563.0, [0x5053], (0x50, 0x53),
                decimal.Decimal(0x5053), fractions.Fraction(0x5053),
                Equalizer()):
        run('name %r' % (sid,), lambda: pt.getSectionName(sid))
    run('name noarg', lambda: pt.getSectionName())
    run('name kw', lambda: pt.getSectionName(sectionID=0x5544))

    # ---- 3. buildOutput ---------------------------------------------------
    r = random.Random(7)
    pool = ['User Data', 'Primary SRC', 'Unknown', 'Extended User Data',
            'User Data 0', '', 'Secondary SRC']
    lists = [[], [OrderedDict()], [{'A': 1}, {}], [{}, {'A': 1}],
             [{1: 'a'}, {1: 'b'}], [{1: 'a'}, {2: 'b'}],
             [{'A': 1, 'B': 2}, {'B': 3, 'A': 4}, {'A': 5}],
             [{('t', 1): 1}, {('t', 1): 2}], [{None: 1}, {None: 2}],
             ({'A': 1}, {'A': 2}), {0: {'A': 1}, 1: {'A': 2}},
             {1: {'A': 1}}, 'ab', None, 5, [None], [[1, 2]], [{'A': 1}, 'x']]
    for _ in range(120):
        lists.append([OrderedDict([(r.choice(pool), r.randrange(1000))])
                      for _ in range(r.randrange(9))])
    for i, secs in enumerate(lists):
        for mk in (OrderedDict, dict, lambda: None, list,
                   lambda: OrderedDict([('User Data', 'pre'),
                                        ('User Data 1', 'pre')])):
            out = mk()
            run('build %d' % i, lambda: pt.buildOutput(secs, out),
                lambda: repr(out))
    run('build kw', lambda: pt.buildOutput(sections=[{'A': 1}], out={}))

    # ---- 4. parseHeader / generatePH / generateUH ------------------------
    cfgs = configs()
    for i, data in enumerate(corpus):
        out = OrderedDict()
        st = RecStream(data, byte_order='big', is_signed=False)
        rec = run('PH %d' % i, lambda: pt.generatePH(st, out),
                  lambda: repr(out), lambda: st.index)
        out2 = OrderedDict()
        st2 = RecStream(data[48:], byte_order='big', is_signed=False)
        run('UH %d' % i, lambda: pt.generateUH(st2, 'O', out2),
            lambda: repr(out2), lambda: st2.index)
        if i % 10 == 0:
            st3 = RecStream(data, byte_order='big', is_signed=False)
            run('parseHeader %d' % i, lambda: pt.parseHeader(st3),
                lambda: st3.index)
            st4 = RecStream(data, byte_order='big', is_signed=False)
            run('PH none %d' % i, lambda: pt.generatePH(st4, None),
                lambda: st4.index)
            st5 = RecStream(data[48:], byte_order='big', is_signed=False)
            run('UH kw %d' % i,
                lambda: pt.generateUH(stream=st5, creatorID='H', out=out2),
                lambda: repr(out2), lambda: st5.index)
            st6 = dsmod.DataStream(data)     # no byte order: get_int asserts
            run('PH unordered %d' % i, lambda: pt.generatePH(st6, out),
                lambda: st6.index)
    run('PH nostream', lambda: pt.generatePH(None, OrderedDict()))
    run('UH nostream', lambda: pt.generateUH(None, 'O', OrderedDict()))

    # ---- 5. sectionFun and the generate* helpers, called directly --------
    r = random.Random(11)
    bodies = []
    for mk in (sec_src, sec_eh, sec_mt, sec_ud, sec_ed, sec_lp, sec_other,
               lambda rr: sec_src(rr, sid=SS)):
        for _ in range(6):
            bodies.append(mk(r))
    odd_ids = [0, 0xFFFF, 0x15053, 0x15544, -1, True, 20563.0, 0x5544 + 0.5,
               None, 'PS', 'UD', [0x5053], (0x5544,), decimal.Decimal(0x4544),
               fractions.Fraction(0x4C50), Equalizer(), 2 ** 64 + 0x5053]
    for bi, sec in enumerate(bodies):
        sid, slen, ver, sub, comp = struct.unpack('>HHBBH', sec[:8])
        ids = [sid] + ALL_IDS + odd_ids if bi % 6 == 0 else \
            [sid, r.choice(ALL_IDS), r.choice(odd_ids)]
        for use in ids:
            for cname, cfg in (cfgs[1], cfgs[2]):
                for creator in ('O', 'B'):
                    st = RecStream(sec[8:], byte_order='big', is_signed=False)
                    out = OrderedDict()
                    run('sectionFun %d %r %s %s' % (bi, use, cname, creator),
                        lambda: pt.sectionFun(st, out, use, slen, ver, sub,
                                              comp, creator, cfg),
                        lambda: repr(out), lambda: st.index)
        # short / odd lengths, missing out, missing config
        for use_len in (0, 7, 8, 12, slen + 4, -3, None):
            st = RecStream(sec[8:], byte_order='big', is_signed=False)
            out = OrderedDict()
            run('sectionFun len %d %r' % (bi, use_len),
                lambda: pt.sectionFun(st, out, sid, use_len, ver, sub, comp,
                                      'O', cfgs[1][1]),
                lambda: repr(out), lambda: st.index)
        st = RecStream(sec[8:], byte_order='big', is_signed=False)
        run('sectionFun noout %d' % bi,
            lambda: pt.sectionFun(st, None, sid, slen, ver, sub, comp, 'O',
                                  cfgs[1][1]), lambda: st.index)
        st = RecStream(sec[8:], byte_order='big', is_signed=False)
        out = OrderedDict()
        run('sectionFun nocfg %d' % bi,
            lambda: pt.sectionFun(st, out, sid, slen, ver, sub, comp, 'O',
                                  None), lambda: repr(out), lambda: st.index)
        st = RecStream(sec[8:], byte_order='big', is_signed=False)
        out = OrderedDict()
        run('sectionFun kw %d' % bi,
            lambda: pt.sectionFun(stream=st, out=out, sectionID=sid,
                                  sectionLen=slen, versionID=ver,
                                  subType=sub, componentID=comp,
                                  creatorID='O', config=cfgs[1][1]),
            lambda: repr(out), lambda: st.index)
        run('sectionFun short %d' % bi,
            lambda: pt.sectionFun(st, out, sid, slen, ver, sub, comp, 'O'))

        cfg = cfgs[1][1]
        gens = (
            ('generateSRC', ('creatorID', 'config')),
            ('generateEH', ('creatorID',)),
            ('generateMT', ('creatorID',)),
            ('generateED', ('config',)),
            ('generateUD', ('creatorID', 'config')),
            ('generateIP', ('creatorID',)),
            ('generateDefault', ()),
        )
        for gname, tail in gens:
            for use in (sid, 0x1234, 'zz', None):
                vals = {'creatorID': 'O', 'config': cfg}
                st = RecStream(sec[8:], byte_order='big', is_signed=False)
                out = OrderedDict()
                run('%s %d %r' % (gname, bi, use),
                    lambda: getattr(pt, gname)(
                        st, out, use, slen, ver, sub, comp,
                        *[vals[t] for t in tail]),
                    lambda: repr(out), lambda: st.index)
            st = RecStream(sec[8:], byte_order='big', is_signed=False)
            out = OrderedDict()
            kw = dict(stream=st, out=out, sectionID=sid, sectionLen=slen,
                      versionID=ver, subType=sub, componentID=comp)
            for t in tail:
                kw[t] = {'creatorID': 'B', 'config': cfg}[t]
            run('%s kw %d' % (gname, bi),
                lambda: getattr(pt, gname)(**kw),
                lambda: repr(out), lambda: st.index)
            run('%s noout %d' % (gname, bi),
                lambda: getattr(pt, gname)(
                    RecStream(sec[8:], byte_order='big', is_signed=False),
                    None, sid, slen, ver, sub, comp,
                    *[{'creatorID': 'O', 'config': cfg}[t] for t in tail]))
            run('%s extra %d' % (gname, bi),
                lambda: getattr(pt, gname)(st, out, sid, slen, ver, sub, comp,
                                           'O', cfg, 1, 2))

    # ---- 6. parsePEL / parsePELSummary over the corpus -------------------
    for i, data in enumerate(corpus):
        for cname, cfg in cfgs:
            if cname not in ('default', 'every') and i % 3:
                continue
            st = RecStream(data, byte_order='big', is_signed=False)
            run('parsePEL %d %s' % (i, cname),
                lambda: pt.parsePEL(st, cfg, False), lambda: st.index)
            st = RecStream(data, byte_order='big', is_signed=False)
            run('parsePEL exit %d %s' % (i, cname),
                lambda: pt.parsePEL(st, cfg, True), lambda: st.index)
            st = RecStream(data, byte_order='big', is_signed=False)
            run('summary %d %s' % (i, cname),
                lambda: pt.parsePELSummary(st, cfg), lambda: st.index)
        if i % 7 == 0:
            # again, on a stream that has been read already / other kinds
            st = RecStream(data, byte_order='big', is_signed=False)
            run('parsePEL first %d' % i,
                lambda: pt.parsePEL(st, cfgs[1][1], False), lambda: st.index)
            run('parsePEL again %d' % i,
                lambda: pt.parsePEL(st, cfgs[1][1], False), lambda: st.index)
            run('summary again %d' % i,
                lambda: pt.parsePELSummary(st, cfgs[1][1]), lambda: st.index)
            st = RecStream(memoryview(data), byte_order='big',
                           is_signed=False)
            run('parsePEL mv %d' % i,
                lambda: pt.parsePEL(st, cfgs[1][1], 'yes'), lambda: st.index)
            st = RecStream(bytearray(data), byte_order='little',
                           is_signed=True)
            run('summary little %d' % i,
                lambda: pt.parsePELSummary(st, cfgs[1][1]), lambda: st.index)
            st = dsmod.DataStream(data)
            run('parsePEL unordered %d' % i,
                lambda: pt.parsePEL(st, cfgs[1][1], False), lambda: st.index)
            st = RecStream(data, byte_order='big', is_signed=False)
            run('parsePEL nocfg %d' % i,
                lambda: pt.parsePEL(st, None, False), lambda: st.index)
            st = RecStream(data, byte_order='big', is_signed=False)
            run('summary nocfg %d' % i,
                lambda: pt.parsePELSummary(st, None), lambda: st.index)
    run('parsePEL nostream', lambda: pt.parsePEL(None, cfgs[0][1], False))
    run('summary nostream', lambda: pt.parsePELSummary(None, cfgs[0][1]))
    run('parsePEL kw', lambda: pt.parsePEL(
        stream=RecStream(corpus[0], byte_order='big', is_signed=False),
        config=cfgs[1][1], exit_on_error=False))
    run('summary kw', lambda: pt.parsePELSummary(
        stream=RecStream(corpus[0], byte_order='big', is_signed=False),
        config=cfgs[1][1]))

    # ---- 7. directory level functions ------------------------------------
    work = tempfile.mkdtemp(prefix='equiv_w_')
    old = os.getcwd()
    try:
        os.chdir(work)
        os.mkdir('pels')
        for i, data in enumerate(corpus):
            if i % 4 == 0:
                with open('pels/%04d_%s%s' % (
                        i, data[44:48].hex().upper() or 'NONE',
                        '.pel' if i % 8 == 0 else ''), 'wb') as f:
                    f.write(data)
        os.symlink('nowhere', 'pels/0000_dangling')
        os.mkdir('pels/sub')
        with open('pels/sub/inner', 'wb') as f:
            f.write(corpus[0])
        with open('exclude.txt', 'w') as f:
            f.write('BD8D1234\nBC8A3333\n')

        def tree():
            found = []
            for root, dirs, files in os.walk('.'):
                dirs.sort()
                for name in sorted(files):
                    p = os.path.join(root, name)
                    if os.path.islink(p):
                        found.append((p, 'link'))
                    else:
                        with open(p, 'rb') as f:
                            found.append(
                                (p, hashlib.sha1(f.read()).hexdigest()))
            return repr(found)

        for cname, cfg in cfgs[:5]:
            for hexmode in (False, True):
                cfg.hex = hexmode
                for rev in (False, True):
                    cfg.rev = rev
                    run('list %s %s %s' % (cname, hexmode, rev),
                        lambda: pt.listOption('pels', cfg))
                cfg.rev = False
                run('all %s %s' % (cname, hexmode),
                    lambda: pt.extractAllPELsData('pels', cfg))
                run('count %s %s' % (cname, hexmode),
                    lambda: pt.printPELCount('pels', cfg))
                cfg.extension = '.pel'
                run('list ext %s %s' % (cname, hexmode),
                    lambda: pt.listOption('pels', cfg))
                cfg.extension = None
                for pid in ('50000001', '0x5000abcd', '90001234', 'NONE',
                            '00000000', '123'):
                    cfg.pelID = pid
                    run('id %s %s %s' % (cname, hexmode, pid),
                        lambda: pt.parsePelFromID('pels', cfg))
                    cfg.pelID = None
                    cfg.plid = pid
                    run('plid %s %s %s' % (cname, hexmode, pid),
                        lambda: pt.parsePelFromPLID('pels', cfg))
                    cfg.plid = None
                for bid in ('1', '77', '0', 'x'):
                    cfg.bmcID = bid
                    run('bmcid %s %s %s' % (cname, hexmode, bid),
                        lambda: pt.parsePelFromBmcID('pels', cfg))
                    cfg.bmcID = None
                for s in ('BD8D', 'BD8D1234', 'B7', 'x' * 33, ' '):
                    cfg.src = s
                    run('src %s %s %s' % (cname, hexmode, s),
                        lambda: pt.parsePelFromSRCID('pels', cfg))
                    cfg.src = None
                cfg.srcExcludeFile = 'exclude.txt'
                run('srcx %s %s' % (cname, hexmode),
                    lambda: pt.parsePelFromSRCID('pels', cfg))
                cfg.srcExcludeFile = None
            cfg.hex = False
        names = sorted(os.listdir('pels'))
        for cname, cfg in cfgs[:3]:
            for name in names:
                p = os.path.join('pels', name)
                run('print %s %s' % (cname, name),
                    lambda: pt.parseAndPrintPELFile(p, cfg, False))
                run('print exit %s %s' % (cname, name),
                    lambda: pt.parseAndPrintPELFile(p, cfg, True))
                run('extract %s %s' % (cname, name),
                    lambda: pt.extractAndSummarizePEL(p, cfg))
        os.mkdir('out')
        for name in names:
            p = os.path.join('pels', name)
            run('write %s' % name,
                lambda: pt.parseAndWriteOutput(p, 'out', cfgs[0][1], False),
                tree)
        for name in names:
            p = os.path.join('pels', name)
            run('write clean %s' % name,
                lambda: pt.parseAndWriteOutput(p, 'out', cfgs[1][1], True),
                tree)
        run('write nodir', lambda: pt.parseAndWriteOutput(
            'out/' + sorted(os.listdir('out'))[0], 'missing', cfgs[1][1],
            True), tree)
    finally:
        os.chdir(old)
        shutil.rmtree(work, ignore_errors=True)

    with open(out_file, 'w') as f:
        json.dump(records, f)


# ---------------------------------------------------------------------------
# CLI runs
# ---------------------------------------------------------------------------

CLI_CASES = [
    ['-l'], ['-l', '-E'], ['-l', '-r', '-E'], ['-l', '-H', '-O'],
    ['-l', '-S', 'Informational', 'Recovered'], ['-l', '-e', '.pel', '-E'],
    ['-l', '-x', '-E'], ['-l', '-N'], ['-l', '-s', '-O', '-S', 'Critical'],
    ['-a'], ['-a', '-E'], ['-a', '-E', '-P'], ['-a', '-x'], ['-a', '-t'],
    ['-n'], ['-n', '-E'], ['-n', '-H', '-O'],
    ['-i', '50000001'], ['-i', '0x5000ABCD', '-x'], ['-i', '123'],
    ['-i', '90001234'], ['--bmc-id', '77'], ['--bmc-id', '1', '-x'],
    ['--bmc-id', 'nope'], ['--plid', '50000001'], ['--plid', '5000ABCD', '-x'],
    ['--src', 'BD8D'], ['--src', 'BC8A', '-x'], ['--src', 'y' * 40],
    ['--src-exclude', 'exclude.txt'], ['--src-exclude', 'missing.txt'],
    ['-j'], ['-j', '-o', 'out'], ['-j', '-o', 'out', '-c'],
    ['-j', '-o', 'missing'], ['-j', '-c', '-E', '-e', '.pel'],
    ['-d', '50000001'], ['-d', 'FFFFFFFF'], ['-D'], [],
    ['-f', 'pels/@FIRST@'], ['-f', 'pels/@FIRST@', '-x'],
    ['-f', 'pels/@FIRST@', '-c'], ['-f', 'pels/@BAD@'],
    ['-f', 'pels/@BAD@', '-c'], ['-f', 'pels/@TRUNC@'],
    ['-f', 'pels/@HIDDEN@'], ['-f', 'pels/@HIDDEN@', '-c', '-E'],
    ['-f', 'pels/absent'], ['-f', 'pels/0000_dangling'],
]


def tree(top):
    found = []
    for root, dirs, files in os.walk(top):
        dirs.sort()
        for name in sorted(files):
            p = os.path.join(root, name)
            rel = os.path.relpath(p, top)
            if os.path.islink(p):
                found.append((rel, 'link'))
            else:
                with open(p, 'rb') as f:
                    found.append((rel, hashlib.sha1(f.read()).hexdigest()))
    return found


def cli_runs(modules_dir, extra_dir, corpus, optimize):
    r = random.Random(3)
    results = []
    first = bad = trunc = hidden = None
    files = {}
    for i, data in enumerate(corpus):
        if i % 5:
            continue
        name = '%04d_%s%s' % (i, data[44:48].hex().upper() or 'NONE',
                              '.pel' if i % 10 == 0 else '')
        files[name] = data
    files['9000_first_50000001'] = make_pel(
        random.Random(1), n=4, creator=b'O', primary=True, sev=0x40,
        action=0xA000)
    files['9001_bad'] = b'\x55\x48' + files['9000_first_50000001'][2:]
    files['9002_trunc'] = files['9000_first_50000001'][:90]
    files['9003_hidden'] = make_pel(
        random.Random(2), n=3, creator=b'O', primary=True, sev=0x00,
        action=0x4000)
    for case in CLI_CASES:
        top = tempfile.mkdtemp(prefix='equiv_c_')
        try:
            os.mkdir(os.path.join(top, 'pels'))
            os.mkdir(os.path.join(top, 'out'))
            for name, data in files.items():
                with open(os.path.join(top, 'pels', name), 'wb') as f:
                    f.write(data)
            os.symlink('nowhere', os.path.join(top, 'pels', '0000_dangling'))
            with open(os.path.join(top, 'exclude.txt'), 'w') as f:
                f.write('BD8D1234\n')
            args = [a.replace('@FIRST@', '9000_first_50000001')
                     .replace('@BAD@', '9001_bad')
                     .replace('@TRUNC@', '9002_trunc')
                     .replace('@HIDDEN@', '9003_hidden') for a in case]
            cmd = [PYTHON] + (['-O'] if optimize else []) + \
                [os.path.join(modules_dir, 'pel', 'peltool', 'peltool.py')]
            if not (args and args[0] == '-f') and args != []:
                cmd += ['-p', 'pels']
            cmd += args
            env = {'PATH': os.environ.get('PATH', ''),
                   'PYTHONPATH': modules_dir + os.pathsep + extra_dir,
                   'PYTHONDONTWRITEBYTECODE': '1',
                   'PYTHONHASHSEED': '0'}
            p = subprocess.run(cmd, cwd=top, env=env, capture_output=True,
                               timeout=300)
            results.append({
                'label': 'cli %s%s' % ('-O ' if optimize else '',
                                       ' '.join(args)),
                'rc': p.returncode,
                'stdout': p.stdout.decode('utf-8', 'replace').replace(
                    modules_dir, '<MODULES>'),
                'stderr': p.stderr.decode('utf-8', 'replace').replace(
                    modules_dir, '<MODULES>'),
                'tree': tree(top)})
        finally:
            shutil.rmtree(top, ignore_errors=True)
    return results


# ---------------------------------------------------------------------------
# driver
# ---------------------------------------------------------------------------

def run_worker(modules_dir, extra_dir, corpus_file, optimize, tmp):
    out_file = os.path.join(tmp, 'rec_%s_%d.json' % (
        hashlib.sha1(modules_dir.encode()).hexdigest()[:8], optimize))
    cmd = [PYTHON] + (['-O'] if optimize else []) + \
        [os.path.abspath(__file__), '--worker', modules_dir, extra_dir,
         corpus_file, out_file]
    env = {'PATH': os.environ.get('PATH', ''), 'PYTHONHASHSEED': '0',
           'PYTHONDONTWRITEBYTECODE': '1'}
    p = subprocess.run(cmd, env=env, capture_output=True, timeout=3600)
    if p.returncode != 0:
        sys.stdout.write(p.stdout.decode('utf-8', 'replace'))
        sys.stdout.write(p.stderr.decode('utf-8', 'replace'))
        raise SystemExit('worker failed for %s' % modules_dir)
    with open(out_file) as f:
        return json.load(f)


def compare(what, a, b):
    bad = 0
    if len(a) != len(b):
        print('%s: %d records vs %d' % (what, len(a), len(b)))
        bad += 1
    for ra, rb in zip(a, b):
        if ra.get('label') == 'signatures':
            # new private helpers are fine; nothing that was there may go
            # away or change its signature
            rb = dict(rb, names={k: v for k, v in rb['names'].items()
                                 if k in ra['names']})
        if ra != rb:
            bad += 1
            if bad <= 15:
                print('%s: DIFFERENCE at %s' % (what, ra.get('label')))
                for k in sorted(set(ra) | set(rb)):
                    if ra.get(k) != rb.get(k):
                        print('   %s:\n     orig : %.600r\n     refac: %.600r'
                              % (k, ra.get(k), rb.get(k)))
    return bad


def main():
    if len(sys.argv) >= 2 and sys.argv[1] == '--worker':
        worker(*sys.argv[2:6])
        return 0
    if len(sys.argv) != 3:
        sys.exit('usage: equiv.py <original modules> <refactored modules>')
    orig = os.path.abspath(sys.argv[1])
    refac = os.path.abspath(sys.argv[2])
    corpus = make_corpus()
    tmp = tempfile.mkdtemp(prefix='equiv_')
    bad = 0
    try:
        extra = os.path.join(tmp, 'extra')
        make_extra(extra)
        corpus_file = os.path.join(tmp, 'corpus.json')
        with open(corpus_file, 'w') as f:
            json.dump([c.hex() for c in corpus], f)
        print('corpus: %d PELs' % len(corpus))
        for optimize in (0, 1):
            a = run_worker(orig, extra, corpus_file, optimize, tmp)
            b = run_worker(refac, extra, corpus_file, optimize, tmp)
            excs = {}
            for rec in a:
                excs[rec.get('exc', 'ok')] = excs.get(rec.get('exc', 'ok'),
                                                      0) + 1
            print('functions%s: %d records compared; outcomes on the '
                  'original: %s' % (' (-O)' if optimize else '', len(a),
                                    sorted(excs.items())))
            bad += compare('functions%s' % (' -O' if optimize else ''), a, b)
            a = cli_runs(orig, extra, corpus, optimize)
            b = cli_runs(refac, extra, corpus, optimize)
            rcs = {}
            for rec in a:
                rcs[rec['rc']] = rcs.get(rec['rc'], 0) + 1
            print('cli%s: %d runs compared; exit statuses on the original: %s'
                  % (' (-O)' if optimize else '', len(a), sorted(rcs.items())))
            bad += compare('cli%s' % (' -O' if optimize else ''), a, b)
    finally:
        shutil.rmtree(tmp, ignore_errors=True)
    if bad:
        print('NOT EQUIVALENT: %d differing records' % bad)
        return 1
    print('EQUIVALENT: all records agree')
    return 0


if __name__ == '__main__':
    sys.exit(main())
