#!/usr/bin/env python3
"""
Differential check of the hardware-diagnostics parsers and the BMC SRC
dispatcher:

    equiv.py <original modules dir> <refactored modules dir>

Both trees are exercised in separate subprocesses (normal and `python -O`)
over the same deterministic set of inputs:

  * udparsers.oe500.oe500.parseUDToJson (and the per sub-type parsers),
  * srcparsers.oe500.oe500.parseSRCToJson,
  * srcparsers.osrc.osrc.parseSRCToJson, including the content of the
    `osrcParsers` cache and the set of imported parser modules after each call,
  * the peltool CLI on generated PEL files (stdout, stderr, exit status).

Each tree is used twice: as it is ("plain") and as a copy to which hardware
diagnostics data files and a few extra SRC parser plug-ins are added ("data").

Exit status 0 iff every result (value, exception type and message, number of
ParserData/DataStream constructions, cache content, output) agrees.
"""

import json
import os
import shutil
import subprocess
import sys
import tempfile

HERE = os.path.abspath(__file__)


###############################################################################
# Worker: runs inside a subprocess with one modules directory on the path.
###############################################################################

def _buffers():
    """Deterministic list of (label, bytes) payloads."""
    import random
    import struct
    rnd = random.Random(0x0E500)
    out = []

    def sig(model=None):
        a = bytes.fromhex(model) if model else rnd.randbytes(4)
        return a + rnd.randbytes(4) + rnd.choice(
            [b'\x00\x01', b'\xab\xcd', rnd.randbytes(2)]) + rnd.randbytes(2)

    # Signature lists.
    for n in (0, 1, 2, 5):
        body = b''.join(sig(rnd.choice([None, '20da0020', '60d20010']))
                        for _ in range(n))
        out.append(('siglist%d' % n, struct.pack('>I', n) + body))
    full = struct.pack('>I', 3) + sig('20da0020') + sig() + sig('60d20010')
    for cut in range(len(full) + 1):
        out.append(('siglist_cut%d' % cut, full[:cut]))
    out.append(('siglist_extra', full + b'\x01\x02\x03'))
    out.append(('siglist_count_big', struct.pack('>I', 0xFFFFFFFF) + full[4:]))
    out.append(('siglist_count_more', struct.pack('>I', 4) + full[4:]))
    out.append(('siglist_count_less', struct.pack('>I', 2) + full[4:]))

    # Register dumps.
    def reg(reg_id=None, inst=None, size=None):
        reg_id = bytes.fromhex(reg_id) if reg_id else rnd.randbytes(3)
        inst = rnd.randrange(256) if inst is None else inst
        size = rnd.choice([1, 2, 3, 4, 8, 9, 16, 255]) if size is None else size
        return reg_id + bytes([inst, size]) + rnd.randbytes(size)

    def chip(model, regs):
        model = bytes.fromhex(model) if model else rnd.randbytes(4)
        return (model + rnd.randbytes(2) + rnd.randbytes(1) +
                struct.pack('>I', len(regs)) + b''.join(regs))

    dump = struct.pack('>I', 3) + \
        chip('20da0020', [reg('abcdef', 0, 8), reg('abcdef', 7, 3),
                          reg('123456', 1, 16), reg()]) + \
        chip(None, []) + \
        chip('60d20010', [reg('00ff00', 2, 1), reg(), reg()])
    out.append(('regdump', dump))
    for cut in range(len(dump) + 1):
        out.append(('regdump_cut%d' % cut, dump[:cut]))
    out.append(('regdump_extra', dump + b'\xff'))
    out.append(('regdump_nochips', struct.pack('>I', 0)))
    out.append(('regdump_chips_big', struct.pack('>I', 0xFFFFFFFF) + dump[4:]))
    out.append(('regdump_zero_size',
                struct.pack('>I', 1) + chip('20da0020', [reg('abcdef', 0, 0)])))
    out.append(('regdump_regs_big',
                struct.pack('>I', 1) + bytes.fromhex('20da0020') + b'\0\1\2' +
                struct.pack('>I', 0xFFFFFFFF) + reg() + reg()))
    for _ in range(25):
        chips = [chip(rnd.choice([None, '20da0020', '60d20010']),
                      [reg(rnd.choice([None, 'abcdef', '123456', '00ff00']))
                       for _ in range(rnd.randrange(4))])
                 for _ in range(rnd.randrange(4))]
        blob = struct.pack('>I', len(chips)) + b''.join(chips)
        if rnd.random() < 0.4:
            blob = blob[:rnd.randrange(len(blob) + 1)]
        out.append(('regdump_rnd', blob))

    # Callout list FFDC.
    texts = [
        b'[{"Callout Type": "Hardware", "Priority": "high"}]\0',
        b'{"a": 1, "a": 2, "b": [1, 2.5, null, true]}\0\0\0\0',
        b'{"a": 1}', b'"text"\0', b'12\0', b'null\0', b'null', b'', b'\0',
        b'\0\0\0\0', b'\0{"a": 1}\0', b'{"a": 1}\0x', b'{"a": 1} \0',
        b' \n\t{"a": 1}\n\0', b'{"a": NaN, "b": Infinity, "c": -Infinity}\0',
        b'{"a": 1e999}\0', b'{"a": 123456789012345678901234567890}\0',
        b'{"a": 1,}\0', b'{a: 1}\0', b"{'a': 1}\0", b'{"a": 1\0', b'[1, 2\0',
        b'\xff\xfe{"a": 1}\0', b'{"a": "\xc3\xa9\xe2\x82\xac"}\0',
        b'{"a": "\xc3"}\0', b'{"a": "\\u00e9\\ud83d\\ude00\\ud800"}\0',
        b'\xef\xbb\xbf{"a": 1}\0', b'{"Callout List FFDC": {"x": 1}}\0',
        b'{"\\u0000": "\\u0000"}\0', b'{"a": "b\0c"}\0',
        b'[' * 50 + b']' * 50 + b'\0', b'[' * 100000 + b']' * 100000 + b'\0',
        b'{"a":' * 5000 + b'1' + b'}' * 5000 + b'\0',
        b'[' * 100000, b'1' * 5000 + b'\0', b'"' + b'x' * 70000 + b'"\0',
        b'{"Data": ["a", "b"], "Error": "e"}\0', b'true\0false\0',
    ]
    for i, text in enumerate(texts):
        out.append(('callout%d' % i, text))

    # Scratch registers / scratch register signature.
    scratch = rnd.randbytes(24)
    for cut in range(len(scratch) + 1):
        out.append(('scratch_cut%d' % cut, scratch[:cut]))
    out.append(('scratch_extra', scratch + b'\0\0'))
    out.append(('scratch_same', b'\0' * 24))
    out.append(('scratch_ff', b'\xff' * 64))

    # Random noise.
    for _ in range(60):
        out.append(('rnd', rnd.randbytes(rnd.choice(
            [1, 2, 3, 4, 5, 7, 8, 11, 12, 15, 16, 17, 23, 24, 25, 40, 100]))))
    return out


def _ud_cases():
    """Yields (label, subtype, version, data)."""
    import array
    bufs = _buffers()
    for label, raw in bufs:
        for subtype in (1, 2, 3, 4, 5):
            yield label, subtype, 1, memoryview(raw)
    some = [b for b in bufs if b[0] in ('siglist2', 'regdump', 'callout0',
                                        'scratch_cut24', 'scratch_cut8')]
    odd_subtypes = [0, 6, 7, 255, 256, -1, 2 ** 40, True, False, 1.0, 2.0, 2.5,
                    '1', b'1', None, (1,), [1], {}, {1}, float('nan')]
    for label, raw in some:
        for subtype in odd_subtypes:
            yield label, subtype, 1, memoryview(raw)
        for version in (0, 2, 255, -1, None, 'x'):
            for subtype in (1, 2, 3, 4, 5, 9):
                yield label, subtype, version, memoryview(raw)
        for subtype in (1, 2, 3, 4, 5, 9):
            yield label + ':bytes', subtype, 1, raw
            yield label + ':bytearray', subtype, 1, bytearray(raw)
            yield label + ':str', subtype, 1, raw.decode('latin1')
            yield label + ':list', subtype, 1, list(raw)
            yield label + ':stride', subtype, 1, memoryview(raw + raw)[::2]
            yield label + ':ro-cast', subtype, 1, \
                memoryview(raw + b'\0' * (-len(raw) % 4)).cast('I')
            yield label + ':array', subtype, 1, \
                memoryview(array.array('H', raw + b'\0' * (len(raw) % 2)))
    for subtype in (1, 2, 3, 4, 5, 9, [1]):
        for data in (None, 0, 12, 1.5, object, (), {}):
            yield 'junk:%r' % (data,), subtype, 1, data


_PRIVATE = ['_parse_signature_list', '_parse_register_dump',
            '_parse_callout_ffdc', '_parse_hb_scratch_regs',
            '_parse_scratch_reg_sig', '_parse_default']


def _src_cases():
    """Yields (refcode, words[8])."""
    import random
    rnd = random.Random(0x5C)
    refcodes = ['BD70E510', 'BD70E500', 'BD70E511', 'BD70E501', 'BD70E51',
                'BD70E5', 'BD70', '', 'BD70E510' + ' ' * 24, 'bd70e510',
                'BD70E510XYZ', 'BD70E5 10', '10101010', 'BC70E510', None, 7,
                b'BD70E510', list('BD70E510'), tuple('BD70E510'),
                ['B', 'D', '7', '0', 'E', '5', '10'], {'a': 1}, 1.5]
    words = ['20DA0020', '20da0020', '60D20010', '00000000', 'FFFFFFFF',
             '0001AB01', 'ABCD0307', 'abcd0307', '12345678', '1234567',
             '123456789', 'zzzzzzzz', '0x123456', ' 2345678', '1234 678',
             '+1234567', '١٢٣٤٥٦٧٨', '', None, 5, b'20DA0020', '1234567\n']
    base = ['00000055', '00000000', '00000000', '00000000',
            '20DA0020', '0001AB01', 'ABCD0307', '00000000']
    for refcode in refcodes:
        yield refcode, list(base)
        yield refcode, ['0'] * 8
    for pos in (4, 5, 6):
        for word in words:
            w = list(base)
            w[pos] = word
            yield 'BD70E510', w
            yield 'BD70E500', w
    for pos in (0, 1, 2, 3, 7):
        for word in ('zz', None, 5):
            w = list(base)
            w[pos] = word
            yield 'BD70E510', w
    for _ in range(120):
        w = ['%08X' % rnd.getrandbits(32) for _ in range(8)]
        if rnd.random() < 0.5:
            w[4] = rnd.choice(['20DA0020', '60D20010', '20da0020'])
        if rnd.random() < 0.5:
            w[6] = rnd.choice(['ABCD', 'abcd', '0001', 'FFFF']) + w[6][4:]
        yield rnd.choice(['BD70E510', 'BD70E5%02X' % rnd.getrandbits(8),
                          'BD70E5' + rnd.choice(['1', '10 ', ' 10', '1O'])]), w


def _osrc_refcodes():
    import random
    rnd = random.Random(0x05C)
    fixed = ['BD70E510', 'BD70E510', 'bd70e510', 'BD70e510', 'BD70E500',
             'BD70E5', 'BD70E', 'BD70', 'BD', '', 'BC8A1234', 'BC', 'BC8A1234',
             'BCE51010', 'bc8A1234', 'Bc8A1234', 'BD70XX10', 'BD70XX10',
             'BD70..10', 'BD70/.10', 'BD70 .10', 'BD70  10', 'BD70\x0010',
             'BD70\u00c9\u00e910', 'BD70\u0130I10', 'BD70SRC1', 'BD70sr10',
             '1100AA10', '1100AA10', '1100BB10', '1100BB10', '1100CC10',
             '1100CC10', '1100DD10', '1100DD10', '1100EE10', '1100EE10',
             'BD70E510' + ' ' * 24, 'BD8D3601' + ' ' * 24,
             None, 5, 1.5, b'BD70E510', list('BD70E510'), tuple('BD70E510'),
             ['BC', 'x'], ('B', 'C'), {'a': 1}, 'BD70E510']
    for refcode in fixed:
        yield refcode
    comps = ['E5', 'e5', 'AA', 'BB', 'CC', 'DD', 'EE', '36', '00', 'ZZ', '..']
    for _ in range(150):
        yield rnd.choice(['BD', 'BC', '11', 'bd']) + \
            '%02X' % rnd.getrandbits(8) + rnd.choice(comps) + \
            rnd.choice(['10', '00', '1', ''])


def worker():
    import contextlib
    import importlib
    import io
    import types

    modules_dir = sys.argv[2]
    sys.path.insert(0, modules_dir)
    sys.dont_write_bytecode = True

    import pel.datastream
    import pel.hwdiags.parserdata
    from udparsers.oe500 import oe500 as ud
    from srcparsers.oe500 import oe500 as src
    from srcparsers.osrc import osrc

    for mod in (pel.datastream, ud, src, osrc):
        assert os.path.abspath(mod.__file__).startswith(
            os.path.abspath(modules_dir) + os.sep), mod.__file__

    # Count the constructions of the helper objects; optionally make the
    # construction of ParserData fail.
    counts = {'ParserData': 0, 'DataStream': 0}
    fail = {'ParserData': False}
    pd_init = pel.hwdiags.parserdata.ParserData.__init__
    ds_init = pel.datastream.DataStream.__init__

    def counting_pd_init(self, *args, **kwargs):
        counts['ParserData'] += 1
        if fail['ParserData']:
            raise RuntimeError('injected ParserData failure')
        return pd_init(self, *args, **kwargs)

    def counting_ds_init(self, *args, **kwargs):
        counts['DataStream'] += 1
        return ds_init(self, *args, **kwargs)

    pel.hwdiags.parserdata.ParserData.__init__ = counting_pd_init
    pel.datastream.DataStream.__init__ = counting_ds_init

    def cache_view():
        view = {}
        for key, value in osrc.osrcParsers.items():
            view[repr(key)] = None if value is None else \
                getattr(value, '__name__', repr(type(value)))
        return view

    def plugins():
        return sorted(name for name in sys.modules
                      if name.split('.')[0] in ('srcparsers', 'udparsers'))

    results = []

    def run(kind, label, func, *args):
        counts['ParserData'] = counts['DataStream'] = 0
        stdout, stderr = io.StringIO(), io.StringIO()
        try:
            with contextlib.redirect_stdout(stdout), \
                    contextlib.redirect_stderr(stderr):
                value = func(*args)
            outcome = ['ok', type(value).__name__, repr(value)]
        except RecursionError as e:
            outcome = ['exc', type(e).__name__, '']
        except BaseException as e:
            outcome = ['exc', type(e).__name__, str(e)]
        results.append([kind, label, outcome, dict(counts), stdout.getvalue(),
                        stderr.getvalue(), cache_view(), plugins()])

    # User data parser.
    for label, subtype, version, data in _ud_cases():
        run('ud', '%s subtype=%r version=%r' % (label, subtype, version),
            ud.parseUDToJson, subtype, version, data)
    some = [b for b in _buffers()
            if b[0] in ('siglist2', 'siglist_cut17', 'regdump', 'regdump_cut40',
                        'callout0', 'callout9', 'scratch_cut24',
                        'scratch_cut8', 'scratch_cut7')]
    for name in _PRIVATE:
        func = getattr(ud, name)
        for label, raw in some:
            run('ud-private', '%s %s' % (name, label), func, 1,
                memoryview(raw))
    fail['ParserData'] = True
    for label, raw in some:
        for subtype in (1, 2, 3, 4, 5, 9):
            run('ud-pdfail', '%s subtype=%r' % (label, subtype),
                ud.parseUDToJson, subtype, 1, memoryview(raw))
    for subtype in (1, 2, 3, 4, 5, 9):
        run('ud-pdfail', 'None subtype=%r' % subtype,
            ud.parseUDToJson, subtype, 1, None)
    fail['ParserData'] = False

    # Hardware diagnostics SRC parser.
    for refcode, words in _src_cases():
        run('src', '%r %r' % (refcode, words), src.parseSRCToJson, refcode,
            *words)
    fail['ParserData'] = True
    for refcode in ('BD70E510', None, 5, ''):
        for word in ('20DA0020', None, 'zz'):
            run('src-pdfail', '%r %r' % (refcode, word), src.parseSRCToJson,
                refcode, '0', '0', '0', '0', word, '0001AB01', 'ABCD0307', '0')
    fail['ParserData'] = False

    # BMC SRC dispatcher: one long sequence so that the cache is exercised.
    good = ['00000055', '00000000', '00000000', '00000000',
            '20DA0020', '0001AB01', 'ABCD0307', '00000000']
    bad = ['0', '0', '0', '0', 'zz', None, '0', '0']
    for i, refcode in enumerate(_osrc_refcodes()):
        run('osrc', '%d %r' % (i, refcode), osrc.parseSRCToJson, refcode,
            *(bad if i % 5 == 4 else good))

    # Pre-seeded / tampered cache entries.
    def raising(exc):
        def parse(*args):
            raise exc
        return parse

    name = 'srcparsers.oe500.oe500'
    seeded = [
        ('none', None),
        ('no-func', types.ModuleType('fake_nofunc')),
        ('namespace', types.SimpleNamespace(
            parseSRCToJson=lambda *args: json.dumps(args))),
        ('returns-none', types.SimpleNamespace(
            parseSRCToJson=lambda *args: None)),
        ('raises-mnfe', types.SimpleNamespace(
            parseSRCToJson=raising(ModuleNotFoundError('late')))),
        ('raises-key', types.SimpleNamespace(
            parseSRCToJson=raising(KeyError('k')))),
        ('false-ish', 0),
        ('false-str', ''),
    ]
    for label, entry in seeded:
        osrc.osrcParsers[name] = entry
        run('osrc-seeded', label, osrc.parseSRCToJson, 'BD70E510', *good)
        run('osrc-seeded', label + ' again', osrc.parseSRCToJson, 'BD70E510',
            *good)
    del osrc.osrcParsers[name]
    run('osrc-seeded', 'deleted', osrc.parseSRCToJson, 'BD70E510', *good)
    osrc.osrcParsers.clear()
    sys.modules.pop(name, None)
    run('osrc-seeded', 'cleared', osrc.parseSRCToJson, 'BD70E510', *good)
    run('osrc-seeded', 'cleared BC', osrc.parseSRCToJson, 'BC8A1234', *good)

    # Failing / odd import machinery.
    real_import = importlib.import_module
    calls = []
    for label, behaviour in [
            ('ImportError', ImportError('injected')),
            ('ModuleNotFoundError', ModuleNotFoundError('injected')),
            ('ValueError', ValueError('injected')),
            ('KeyError', KeyError('injected')),
            ('OSError', OSError('injected')),
            ('returns-none', None),
            ('returns-namespace', types.SimpleNamespace(
                parseSRCToJson=lambda *args: 'X%r' % (args,)))]:
        def fake_import(module_name, package=None, behaviour=behaviour):
            calls.append(module_name)
            if isinstance(behaviour, BaseException):
                raise behaviour
            return behaviour
        importlib.import_module = fake_import
        try:
            for refcode in ('BD70F110', 'BD70F110', 'BD70E510', 'BC001122',
                            'BD70%s10' % label[:2]):
                run('osrc-import', '%s %r' % (label, refcode),
                    osrc.parseSRCToJson, refcode, *good)
        finally:
            importlib.import_module = real_import
        osrc.osrcParsers.pop('srcparsers.of100.of100', None)
    results.append(['import-calls', calls])

    json.dump(results, sys.stdout)


###############################################################################
# Driver
###############################################################################

DATA_FILES = {
    'p10_20.json': {
        "model_ec": {"id": "20da0020", "type": "proc", "desc": "P10 2.0"},
        "attn_types": {"1": "CHIP_CS", "2": "UNIT_CS", "3": "RECOVERABLE"},
        "signatures": {
            "abcd": ["EQ_CORE_FIR", {"7": "core checkstop", "1": "one"}],
            "0001": ["TP_LOCAL_FIR", {"0": "zero"}],
            "ffff": ["NAME_ONLY"],
        },
        "registers": {
            "abcdef": ["A_VERY_LONG_REGISTER_NAME_THAT_IS_CROPPED",
                       {"0": "0x0000000020018640", "7": "20018647"}],
            "123456": ["SHORT", {"1": "0xFFFFFFFFFFFFFFFF", "2": "zz"}],
            "00ff00": ["NOADDR"],
        },
    },
    'explorer_20.json': {
        "model_ec": {"id": "60d20010", "type": "ocmb"},
        "attn_types": [],
        "signatures": {"abcd": "str", "0001": [5, []]},
        "registers": {"00ff00": ["OCMB_REG", {"2": "0x08010870", "3": 5}],
                      "abcdef": None, "123456": [7, {"1": 5}]},
    },
}

PLUGINS = {
    'srcparsers/bsrc/bsrc.py':
        'import json\n'
        'def parseSRCToJson(*args):\n'
        '    return json.dumps({"bsrc": args})\n',
    # Exists, but one of its own imports does not.
    'srcparsers/oaa00/oaa00.py':
        'import no_such_module_for_equiv_check\n'
        'def parseSRCToJson(*args):\n'
        '    return "{}"\n',
    'srcparsers/obb00/obb00.py':
        'raise ImportError("boom")\n',
    'srcparsers/occ00/occ00.py':
        'x = 1\n',
    'srcparsers/odd00/odd00.py':
        'def parseSRCToJson(*args):\n'
        '    raise ModuleNotFoundError("raised by the parser")\n',
    'srcparsers/oee00/oee00.py':
        'calls = []\n'
        'def parseSRCToJson(*args):\n'
        '    calls.append(args)\n'
        '    return "[%d]" % len(calls)\n',
}


def make_data_variant(src_dir: str, dst_dir: str) -> None:
    shutil.copytree(src_dir, dst_dir,
                    ignore=shutil.ignore_patterns('__pycache__'))
    data_dir = os.path.join(dst_dir, 'pel', 'hwdiags', 'data')
    for name, content in DATA_FILES.items():
        with open(os.path.join(data_dir, name), 'w') as fp:
            json.dump(content, fp)
    for path, text in PLUGINS.items():
        path = os.path.join(dst_dir, path)
        os.makedirs(os.path.dirname(path), exist_ok=True)
        with open(os.path.join(os.path.dirname(path), '__init__.py'), 'w'):
            pass
        with open(path, 'w') as fp:
            fp.write(text)


def section(ident: bytes, version: int, subtype: int, comp: int,
            body: bytes, length=None) -> bytes:
    import struct
    length = 8 + len(body) if length is None else length
    return ident + struct.pack('>HBBH', length & 0xFFFF, version, subtype,
                               comp) + body


def make_pel(eid: int, refcode: str, words, uds, creator=b'O',
             word_count=9) -> bytes:
    import struct
    stamp = bytes.fromhex('2026100312000000')
    count = 3 + len(uds)
    ph = section(b'PH', 1, 0, 0xE500, stamp + stamp + creator + b'\0\0' +
                 bytes([count]) + struct.pack('>IQII', eid, 1, 0x50000000 + eid,
                                              0x50000000 + eid))
    uh = section(b'UH', 1, 0, 0xE500,
                 bytes([0x10, 0x03, 0x40, 0x00]) + b'\0' * 4 + b'\0\0' +
                 struct.pack('>HI', 0xA800, 0))
    ps = section(b'PS', 1, 1, 0xE500,
                 bytes([2, 0, 0, word_count]) + struct.pack('>HH', 0, 72) +
                 b''.join(struct.pack('>I', w) for w in words) +
                 refcode.encode('latin1').ljust(32)[:32])
    body = b''.join(section(b'UD', version, subtype, comp, data)
                    for (comp, subtype, version, data) in uds)
    return ph + uh + ps + body


def make_pels(directory: str) -> list:
    """Writes the PEL files and returns their names."""
    bufs = dict(_buffers())
    words = [0x55, 0, 0, 0, 0x20DA0020, 0x0001AB01, 0xABCD0307, 0]
    pels = []

    def add(name, *args, **kwargs):
        with open(os.path.join(directory, name), 'wb') as fp:
            fp.write(make_pel(len(pels) + 1, *args, **kwargs))
        pels.append(name)

    typical = [(0xE500, 1, 1, bufs['siglist2']), (0xE500, 2, 1, bufs['regdump']),
               (0xE500, 3, 1, bufs['callout0']),
               (0xE500, 4, 1, bufs['scratch_cut24']),
               (0xE500, 5, 1, bufs['scratch_cut8']),
               (0xE500, 6, 1, bufs['scratch_cut8']),
               (0xE500, 1, 1, b'')]
    add('typical.pel', 'BD70E510', words, typical)
    add('secondary.pel', 'BD70E500', words[:4] + [0x60D20010, 0x22223344,
                                                  0x00010000, 0], typical[:2])
    add('hostboot_ti.pel', 'BC8A1234', words, typical[2:4])
    add('other_comp.pel', 'BD8D3601', words, typical[:1])
    add('unknown_comp.pel', 'BD70XX10', words, [])
    add('plugin_aa.pel', '1100AA10', words, [])
    add('plugin_bb.pel', '1100BB10', words, [])
    add('plugin_cc.pel', '1100CC10', words, [])
    add('plugin_dd.pel', '1100DD10', words, [])
    add('plugin_ee.pel', '1100EE10', words, [])
    add('few_words.pel', 'BD70E510', words, [], word_count=4)
    add('creator_b.pel', 'BD70E510', words, typical[:3], creator=b'B')
    broken = ['siglist_cut17', 'siglist_count_big', 'regdump_cut40',
              'regdump_zero_size', 'regdump_chips_big', 'scratch_cut7',
              'scratch_cut23', 'scratch_extra']
    add('truncated.pel', 'BD70E510', words,
        [(0xE500, subtype, 1, bufs[label]) for label in broken
         for subtype in (1, 2, 4, 5)])
    callouts = [label for label in bufs if label.startswith('callout')
                and len(bufs[label]) < 60000]
    for start in range(0, len(callouts), 12):
        add('callouts%d.pel' % start, 'BD70E510', words,
            [(0xE500, 3, 1, bufs[label])
             for label in callouts[start:start + 12]])
    return pels


def run_cli(python_args, modules_dir, args, cwd):
    env = dict(os.environ, PYTHONPATH=modules_dir, PYTHONDONTWRITEBYTECODE='1',
               PYTHONHASHSEED='0')
    peltool = os.path.join(modules_dir, 'pel', 'peltool', 'peltool.py')
    proc = subprocess.run([sys.executable] + python_args + [peltool] + args,
                          cwd=cwd, env=env, capture_output=True)
    return proc.returncode, proc.stdout, proc.stderr


def run_worker(python_args, modules_dir):
    env = dict(os.environ, PYTHONDONTWRITEBYTECODE='1', PYTHONHASHSEED='0')
    env.pop('PYTHONPATH', None)
    proc = subprocess.run([sys.executable] + python_args +
                          [HERE, '--worker', modules_dir],
                          env=env, capture_output=True)
    if proc.returncode != 0:
        sys.stderr.write(proc.stderr.decode(errors='replace'))
        raise SystemExit('worker failed for %s' % modules_dir)
    return json.loads(proc.stdout)


def listing(directory):
    found = []
    for root, dirs, files in os.walk(directory):
        for name in sorted(files):
            path = os.path.join(root, name)
            with open(path, 'rb') as fp:
                found.append((os.path.relpath(path, directory), fp.read()))
    return sorted(found)


def main() -> int:
    orig, new = os.path.abspath(sys.argv[1]), os.path.abspath(sys.argv[2])
    mismatches = 0
    compared = 0
    tmp = tempfile.mkdtemp(prefix='equiv_R17_')
    try:
        variants = {'plain': (orig, new)}
        make_data_variant(orig, os.path.join(tmp, 'orig_data'))
        make_data_variant(new, os.path.join(tmp, 'new_data'))
        variants['data'] = (os.path.join(tmp, 'orig_data'),
                            os.path.join(tmp, 'new_data'))

        pel_dir = os.path.join(tmp, 'pels')
        os.mkdir(pel_dir)
        pels = make_pels(pel_dir)

        for variant, (a_dir, b_dir) in variants.items():
            for python_args in ([], ['-O']):
                tag = '%s%s' % (variant, ' -O' if python_args else '')

                # Function level.
                a = run_worker(python_args, a_dir)
                b = run_worker(python_args, b_dir)
                if len(a) != len(b):
                    print('[%s] different number of results' % tag)
                    mismatches += 1
                outcomes = {}
                for ra, rb in zip(a, b):
                    compared += 1
                    if ra[0] != 'import-calls':
                        key = (ra[0], ra[2][0], ra[2][1])
                        outcomes[key] = outcomes.get(key, 0) + 1
                    if ra != rb:
                        mismatches += 1
                        if mismatches <= 20:
                            print('[%s] MISMATCH\n  orig: %s\n  new:  %s' % (
                                tag, str(ra)[:1500], str(rb)[:1500]))
                print('[%s] %d function results compared' % (tag, len(a)))
                for key in sorted(outcomes):
                    print('    %-12s %-4s %-22s %d' % (key + (outcomes[key],)))

                # Command line.
                cli_runs = [['-f', os.path.join(pel_dir, name)]
                            for name in pels]
                cli_runs += [['-f', os.path.join(pel_dir, name), '-P']
                             for name in pels[:3]]
                cli_runs += [['-p', pel_dir, '-a'], ['-p', pel_dir, '-l'],
                             ['-p', pel_dir, '-a', '-r'],
                             ['-p', pel_dir, '-l', '-H', '-N'],
                             ['-p', pel_dir, '-n'],
                             ['-p', pel_dir, '--src', 'BD70E510'],
                             ['-p', pel_dir, '-i', '0x50000001'],
                             ['-p', pel_dir, '--bmc-id', '3'],
                             ['-p', pel_dir, '-a', '-o', 'OUT']]
                for args in cli_runs:
                    compared += 1
                    cwd_a = tempfile.mkdtemp(dir=tmp)
                    cwd_b = tempfile.mkdtemp(dir=tmp)
                    res_a = run_cli(python_args, a_dir, args, cwd_a) + \
                        (listing(cwd_a),)
                    res_b = run_cli(python_args, b_dir, args, cwd_b) + \
                        (listing(cwd_b),)
                    # The only allowed difference is the path of the tree in
                    # tracebacks; there should be none, so compare verbatim
                    # after mapping the tree names.
                    norm_a = repr(res_a).replace(a_dir, '<modules>')
                    norm_b = repr(res_b).replace(b_dir, '<modules>')
                    if norm_a != norm_b:
                        mismatches += 1
                        if mismatches <= 20:
                            print('[%s] CLI MISMATCH %s\n  orig: %s\n  new:  %s'
                                  % (tag, args, norm_a[:3000], norm_b[:3000]))
                print('[%s] %d command lines compared' % (tag, len(cli_runs)))
    finally:
        shutil.rmtree(tmp, ignore_errors=True)

    print('%d comparisons, %d mismatches' % (compared, mismatches))
    print('EQUIVALENT' if mismatches == 0 else 'NOT EQUIVALENT')
    return 0 if mismatches == 0 else 1


if __name__ == '__main__':
    if len(sys.argv) >= 3 and sys.argv[1] == '--worker':
        worker()
    elif len(sys.argv) == 3:
        sys.exit(main())
    else:
        sys.exit(__doc__)
