#!/usr/bin/env python3
"""
Equivalence check for the refactoring of pel/peltool/registry.py and
pel/peltool/comp_id.py.

    equiv.py <original modules dir> <refactored modules dir>

Both implementations are exercised in separate subprocesses (a worker mode of
this same script, plus runs of the peltool CLI), with and without -O, over the
same generated fixtures and inputs.  Exits 0 iff everything observed agrees.
"""
import json
import os
import random
import shutil
import struct
import subprocess
import sys

PY = sys.executable
HERE = os.path.dirname(os.path.abspath(__file__))
FIX = os.path.join(HERE, "equiv_fixtures")
BMC_REG = '/usr/share/phosphor-logging/pels/message_registry.json'


# --------------------------------------------------------------------------
# fixtures
# --------------------------------------------------------------------------
def write(path, data):
    os.makedirs(os.path.dirname(path), exist_ok=True)
    mode = "wb" if isinstance(data, bytes) else "w"
    with open(path, mode) as f:
        f.write(data)


GOOD_REGISTRY = {"PELs": [
    {"Name": "no.reason.code", "SRC": {"Type": "BD"},
     "Documentation": {"Message": "never"}},
    {"Name": "a", "SRC": {"ReasonCode": "0x2030",
                          "Words6To9": {"6": {"Description": "first word",
                                              "AdditionalDataPropSource": "W6"},
                                        "7": {"AdditionalDataPropSource": "W7"}}},
     "Documentation": {"Message": "msg %1 and %2 and %3",
                       "MessageArgSources": ["SRCWord6", "SRCWord9"]}},
    {"Name": "b", "SRC": {"ReasonCode": "0x1234", "Type": "BC",
                          "Words6To9": {}},
     "Documentation": {"Message": "hostboot thing"}},
    {"Name": "c", "SRC": {"ReasonCode": "0x2031", "Type": "11"},
     "Documentation": {"Message": "power thing", "MessageArgSources": []}},
    {"Name": "broken", "SRC": {"ReasonCode": "0x2040"},
     "Documentation": {"Description": "no message here"}},
]}

GOOD_COMP_IDS = {
    "O": {"1000": "bmc-common", "2000": "bmc-state", "abcd": "lower",
          "ABCD": "upper", "FFFF": "all-ones", "0000": "zero",
          "3000": 17, "3100": None, "3200": ["a", "b"], "3300": {"k": "v"},
          "-001": "minus one", "10000": "five digits"},
    "B": {"0100": "hb-one", "1000": "hb-common"},
    "H": {"4142": "must not be used for PHYP", "4100": "nor this"},
    "": {"1000": "empty creator"},
}


def comp_dir(name, files):
    d = os.path.join(FIX, "comp", name)
    os.makedirs(d, exist_ok=True)
    for fname, content in files.items():
        if content is DIR:
            os.makedirs(os.path.join(d, fname), exist_ok=True)
        elif isinstance(content, tuple) and content[0] == "link":
            os.symlink(content[1], os.path.join(d, fname))
        else:
            if not isinstance(content, (str, bytes)):
                content = json.dumps(content)
            write(os.path.join(d, fname), content)
    return d


DIR = object()


def section_header(sid, length, version, subtype, comp):
    return sid + struct.pack(">HBBH", length, version, subtype, comp)


def build_pel(creator, comp_ph, comp_uh, comp_src, ascii_src, eid,
              words=(0x000000E0, 0xCC110000, 3, 0x23000000, 5, 0x66, 0x77,
                     0x88, 0x99), sev=0x40, flags=0xA000, nsec=3,
              src_wordcount=9):
    ts = bytes.fromhex("2024031518402755")
    ph = section_header(b"PH", 48, 1, 0, comp_ph) + ts + ts + \
        creator + b"\0\0" + bytes([nsec]) + struct.pack(">I", eid & 0xFFFF) + \
        struct.pack(">Q", 0x0102) + struct.pack(">II", eid, eid)
    uh = section_header(b"UH", 24, 1, 0, comp_uh) + \
        bytes([0x8D, 0x03, sev, 0x00]) + b"\0\0\0\0" + bytes([0x10, 0x20]) + \
        struct.pack(">HI", flags, 0x0201)
    src = section_header(b"PS", 80, 1, 1, comp_src) + \
        bytes([2, 0, 0, src_wordcount]) + struct.pack(">HH", 0, 72) + \
        b"".join(struct.pack(">I", w) for w in words[:8]) + \
        ascii_src.ljust(32).encode()
    return ph + uh + src


def make_fixtures():
    shutil.rmtree(FIX, ignore_errors=True)
    os.makedirs(FIX)

    # ---- message registries -------------------------------------------
    reg = os.path.join(FIX, "reg")
    write(os.path.join(reg, "good.json"), json.dumps(GOOD_REGISTRY))
    write(os.path.join(reg, "nopels.json"), json.dumps({"pels": []}))
    write(os.path.join(reg, "toplist.json"), json.dumps([{"PELs": []}]))
    write(os.path.join(reg, "topstr.json"), json.dumps("PELs"))
    write(os.path.join(reg, "topnull.json"), "null")
    write(os.path.join(reg, "pelsnull.json"), json.dumps({"PELs": None}))
    write(os.path.join(reg, "pelsdict.json"),
          json.dumps({"PELs": {"SRC": {"ReasonCode": "0x2030"}}}))
    write(os.path.join(reg, "pelsstr.json"), json.dumps({"PELs": "abc"}))
    write(os.path.join(reg, "bad.json"), '{"PELs": [')
    write(os.path.join(reg, "empty.json"), "")
    write(os.path.join(reg, "notutf8.json"), b'{"PELs": ["\xff\xfe"]}')
    write(os.path.join(reg, "dupkeys.json"),
          '{"PELs": [1], "PELs": [2]}')
    os.makedirs(os.path.join(reg, "adir.json"))

    # ---- component id directories ---------------------------------------
    files = {c + "_component_ids.json": v for c, v in GOOD_COMP_IDS.items()}
    files["message_registry.json"] = GOOD_REGISTRY
    files["README"] = "nothing"
    files["O_component_ids.txt"] = "{ not json"
    comp_dir("good", files)
    comp_dir("empty", {})
    comp_dir("badjson", dict(files, **{"K_component_ids.json": "{oops"}))
    comp_dir("onlybad", {"K_component_ids.json": ""})
    comp_dir("shapes", {
        "O_component_ids.json": ["1000", "2000"],
        "B_component_ids.json": None,
        "M_component_ids.json": 4096,
        "T_component_ids.json": "1000 2000 ABCD",
        "K_component_ids.json": {"1000": {"nested": 1}},
        "S_component_ids.json": True,
        "C_component_ids.json": {},
    })
    comp_dir("names", {
        "O_component_ids.json_component_ids.json": {"1000": "double"},
        "B_component_ids.json.bak": {"1000": "backup wins?"},
        "_component_ids.json": {"1000": "no creator"},
        "xx_component_ids.jsonT_component_ids.json": {"1000": "xx"},
        "M_COMPONENT_IDS.JSON": {"1000": "wrong case"},
        "T_component_ids.jso": {"1000": "short"},
        "OO_component_ids.json": {"1000": "two letters"},
    })
    comp_dir("samekey", {
        "O_component_ids.json": {"1000": "plain"},
        "O_component_ids.json~": {"1000": "tilde", "2000": "only tilde"},
    })
    comp_dir("hasdir", dict(files, **{"Z_component_ids.json": DIR}))
    comp_dir("dangling", {"O_component_ids.json": {"1000": "x"},
                          "Q_component_ids.json": ("link", "/nonexistent/q")})
    comp_dir("notutf8", {"O_component_ids.json": b'{"1000": "\xff"}'})
    comp_dir("bigone", {"O_component_ids.json":
                        {"%04X" % i: "c%d" % i for i in range(0, 0x10000, 97)}})
    write(os.path.join(FIX, "comp", "afile"), "i am a file")

    # ---- a pel_registry package for the CLI -----------------------------
    for name, registry in (("pkg_good", GOOD_REGISTRY), ("pkg_badreg", None)):
        pkg = os.path.join(FIX, name, "pel_registry")
        write(os.path.join(pkg, "__init__.py"),
              "import os\n"
              "def get_registry_path():\n"
              "    return os.path.join(os.path.dirname(__file__), "
              "'message_registry.json')\n")
        write(os.path.join(pkg, "message_registry.json"),
              json.dumps(registry) if registry else "{ nope")
        for c, v in GOOD_COMP_IDS.items():
            write(os.path.join(pkg, c + "_component_ids.json"), json.dumps(v))
    pkg = os.path.join(FIX, "pkg_badcomp", "pel_registry")
    shutil.copytree(os.path.join(FIX, "pkg_good", "pel_registry"), pkg)
    write(os.path.join(pkg, "A_component_ids.json"), "[1,")
    write(os.path.join(pkg, "Z_component_ids.json"), "[1,")
    pkg = os.path.join(FIX, "pkg_nopath", "pel_registry")
    write(os.path.join(pkg, "__init__.py"), "x = 1\n")

    # ---- PELs -------------------------------------------------------------
    pels = os.path.join(FIX, "pels")
    specs = [
        ("2024031500000001", b"O", 0x1000, 0x2000, 0x1000, "BD8D2030", 0x50000001),
        ("2024031500000002", b"O", 0xABCD, 0x1234, 0xFFFF, "BD8D2040", 0x50000002),
        ("2024031500000003", b"B", 0x0100, 0x1000, 0x0200, "BC8A1234", 0x90000003),
        ("2024031500000004", b"H", 0x4142, 0x4100, 0x0041, "B7001111", 0x50000004),
        ("2024031500000005", b"O", 0x3000, 0x3100, 0x3200, "110A2031", 0x50000005),
        ("2024031500000006", b"?", 0x1000, 0x1000, 0x1000, "BD8D9999", 0x50000006),
        ("2024031500000007", b"O", 0x3300, 0x1000, 0x1000, "BD8D2030", 0x50000007),
        ("2024031500000008", b"M", 0x0000, 0x0001, 0x1000, "BD8D0x20", 0x50000008),
    ]
    for name, creator, c1, c2, c3, asc, eid in specs:
        write(os.path.join(pels, name), build_pel(creator, c1, c2, c3, asc, eid))
    write(os.path.join(pels, "2024031500000009"),
          build_pel(b"O", 0x1000, 0x1000, 0x1000, "BD8D2030", 0x50000009)[:100])
    write(os.path.join(pels, "2024031500000010"), b"not a pel at all")


# --------------------------------------------------------------------------
# worker (runs in a subprocess with one implementation on sys.path)
# --------------------------------------------------------------------------
def exc_name(e):
    return "EXC:" + type(e).__name__


def worker(moddir):
    sys.path.insert(0, moddir)
    import builtins
    import contextlib
    import copy
    import importlib
    import io
    import pathlib
    import types

    results = []

    def rec(tag, value):
        results.append([tag, value])

    def fake_pel_registry(**attrs):
        m = types.ModuleType("pel_registry")
        for k, v in attrs.items():
            setattr(m, k, v)
        sys.modules["pel_registry"] = m
        return m

    def no_pel_registry():
        sys.modules.pop("pel_registry", None)

    def raiser(exc):
        def f():
            raise exc
        return f

    # ===================== registry.Registry() ===========================
    import pel.peltool.registry as registry_mod
    rec("registry public names", sorted(
        n for n in dir(registry_mod) if not n.startswith("_")))

    def try_registry(tag, cls=None):
        cls = cls or registry_mod.Registry
        try:
            r = cls()
            rec(tag, ["pels", repr(r.pels), sorted(vars(r))])
        except BaseException as e:
            rec(tag, exc_name(e))

    no_pel_registry()
    try_registry("init: pel_registry not installed")
    sys.modules["pel_registry"] = None
    try_registry("init: pel_registry blocked")
    no_pel_registry()

    regdir = os.path.join(FIX, "reg")
    for fname in sorted(os.listdir(regdir)) + ["missing.json"]:
        p = os.path.join(regdir, fname)
        fake_pel_registry(get_registry_path=lambda p=p: p)
        try_registry("init: file " + fname)
    good = os.path.join(regdir, "good.json")
    for label, value in [("empty str", ""), ("None", None), ("zero", 0),
                         ("False", False), ("empty bytes", b""),
                         ("Path", pathlib.Path(good)),
                         ("bytes", good.encode()), ("int 99999", 99999),
                         ("list", [good]), ("empty list", []),
                         ("float", 1.5), ("nul in path", "a\0b")]:
        fake_pel_registry(get_registry_path=lambda v=value: v)
        try_registry("init: path " + label)
    for exc in [ModuleNotFoundError("inner"), ImportError("x"),
                RuntimeError("x"), KeyError("x"), OSError("x"),
                KeyboardInterrupt(), SystemExit(3)]:
        fake_pel_registry(get_registry_path=raiser(exc))
        try_registry("init: get_registry_path raises " + type(exc).__name__)
    fake_pel_registry()
    try_registry("init: no get_registry_path")
    fake_pel_registry(get_registry_path="not callable")
    try_registry("init: get_registry_path not callable")

    # the BMC location, simulated
    real_exists, real_open = os.path.exists, builtins.open
    for label, target in [("good", good),
                          ("bad", os.path.join(regdir, "bad.json")),
                          ("gone", os.path.join(regdir, "missing.json"))]:
        seen = []

        def exists(p, _t=target):
            seen.append(("exists", p))
            return True if p == BMC_REG else real_exists(p)

        def opener(p, *a, _t=target, **k):
            seen.append(("open", p, a, sorted(k)))
            return real_open(_t if p == BMC_REG else p, *a, **k)
        for blocked in (False, True):
            no_pel_registry()
            if blocked:
                sys.modules["pel_registry"] = None
            os.path.exists, builtins.open = exists, opener
            try:
                try_registry("init: on the BMC (%s, %s)" % (label, blocked))
            finally:
                os.path.exists, builtins.open = real_exists, real_open
            rec("init: on the BMC calls (%s, %s)" % (label, blocked),
                repr(seen))
            del seen[:]
    no_pel_registry()

    # loadJson is looked up on the instance
    class Sub(registry_mod.Registry):
        def loadJson(self, path):
            return ["sub", path]
    fake_pel_registry(get_registry_path=lambda: good)
    try_registry("init: subclass loadJson", Sub)
    fake_pel_registry(get_registry_path=lambda: "")
    try_registry("init: subclass loadJson, no path", Sub)
    no_pel_registry()

    r = registry_mod.Registry()
    for p in sorted(os.listdir(regdir)) + ["missing.json"]:
        try:
            rec("loadJson " + p, repr(r.loadJson(os.path.join(regdir, p))))
        except BaseException as e:
            rec("loadJson " + p, exc_name(e))
    for label, value in [("None", None), ("int", 12345), ("empty", "")]:
        try:
            rec("loadJson " + label, repr(r.loadJson(value)))
        except BaseException as e:
            rec("loadJson " + label, exc_name(e))

    # ===================== Registry.getErrorMessage ========================
    rng = random.Random(20261003)
    srcs = [
        {"ReasonCode": "0x2030"},
        {"ReasonCode": "0x2030", "Type": "BD"},
        {"ReasonCode": "0x2030", "Type": "11"},
        {"ReasonCode": "0x2030", "Type": "BC", "Words6To9": {}},
        {"ReasonCode": "0x2030", "Words6To9": {"6": {"Description": "d"}}},
        {"ReasonCode": "0x2030", "Words6To9": None},
        {"ReasonCode": "0x2030", "Words6To9": []},
        {"ReasonCode": "0x2030", "Words6To9": ["x"]},
        {"ReasonCode": "0x2030", "Words6To9": 0},
        {"ReasonCode": "0x2030", "Words6To9": "w"},
        {"ReasonCode": ["0x2030", "0x2031"]},
        {"ReasonCode": {"0x2030": 1}, "Type": "BD"},
        {"ReasonCode": 0x2030},
        {"ReasonCode": None},
        {"ReasonCode": ""},
        {"ReasonCode": "0x20300x2031", "Type": "BD"},
        {"ReasonCode": "0x2030", "Type": None},
        {"ReasonCode": "0x2030", "Type": 0xBD},
        {"ReasonCode": "0x2030", "Type": ["BD"]},
        {"ReasonCode": "0x2030", "Type": ""},
        {"Type": "BD"},
        {},
        "ReasonCode",
        "0x2030",
        ["ReasonCode"],
        ["ReasonCode", "0x2030"],
        None,
        7,
        True,
    ]
    docs = [
        {"Message": "m"},
        {"Message": "m %1", "MessageArgSources": ["SRCWord6"]},
        {"Message": "m", "MessageArgSources": None},
        {"Message": None},
        {"Message": ["l"]},
        {"MessageArgSources": ["SRCWord6"]},
        {},
        "Message",
        "a string",
        ["Message"],
        ["Message", "MessageArgSources"],
        None,
        3,
    ]
    MISSING = object()

    def make_entry(src, doc):
        e = {"Name": "n"}
        if src is not MISSING:
            e["SRC"] = copy.deepcopy(src)
        if doc is not MISSING:
            e["Documentation"] = copy.deepcopy(doc)
        return e

    registries = []
    # every SRC shape alone with a good doc, every doc shape with a good src
    for s in srcs + [MISSING]:
        registries.append([make_entry(s, docs[1])])
    for d in docs + [MISSING]:
        registries.append([make_entry(srcs[0], d)])
        registries.append([make_entry(srcs[4], d)])
    # odd entries / odd registries
    for odd in ["SRC", "x", ["SRC"], None, 5, {"SRC": None}, []]:
        registries.append([odd])
        registries.append([make_entry(srcs[2], docs[0]), odd,
                           make_entry(srcs[0], docs[0])])
    registries += [[], (), {}, "", "SRC", None, 0,
                   {"SRC": {"ReasonCode": "0x2030"}},
                   iter([make_entry(srcs[0], docs[0])])]
    # random mixtures: the first match wins, bad entries before/after it
    for _ in range(120):
        n = rng.randint(1, 6)
        registries.append([
            make_entry(rng.choice(srcs + [MISSING]),
                       rng.choice(docs + [MISSING])) for _ in range(n)])
    registries.append(json.load(open(good))["PELs"])

    codes = ["0x2030", "0x2031", "2030", "0x", "", "0x20", "0x2040", "0x9999",
             "ReasonCode", None, 0x2030, ["0x2030"], ("0x2030",), b"0x2030"]
    types_ = ["BD", "11", "BC", "", "bd", None, 0xBD, ["BD"]]

    def paths(obj, prefix, table):
        if isinstance(obj, (dict, list)):
            table.setdefault(id(obj), prefix)
            items = obj.items() if isinstance(obj, dict) else enumerate(obj)
            for k, v in items:
                paths(v, prefix + [k], table)

    fake = registry_mod.Registry.__new__(registry_mod.Registry)
    for ri, pels in enumerate(registries):
        is_iter = not isinstance(pels, (list, tuple, dict, str, int,
                                        type(None)))
        for code in codes:
            for st in types_:
                if is_iter:
                    pels_now = iter([make_entry(srcs[0], docs[0])])
                else:
                    pels_now = pels
                before = repr(pels_now) if not is_iter else None
                fake.pels = pels_now
                table = {}
                if not is_iter:
                    paths(pels_now, [], table)
                try:
                    r1 = fake.getErrorMessage(code, st)
                    shared = {k: table.get(id(v), "-") for k, v in r1.items()} \
                        if isinstance(r1, dict) else None
                    out = ["ok", type(r1).__name__, repr(r1),
                           list(r1) if isinstance(r1, dict) else None, shared]
                    if not is_iter:
                        r2 = fake.getErrorMessage(code, st)
                        out += [r1 is r2, r1 == r2]
                except BaseException as e:
                    out = exc_name(e)
                after = repr(pels_now) if not is_iter else None
                rec("gem %d %r %r" % (ri, code, st),
                    [out, before == after, sorted(vars(fake))])
    # keyword / positional calling conventions of the public method
    fake.pels = registries[1]
    for label, call in [
            ("kw", lambda: fake.getErrorMessage(code="0x2030", srcType="BD")),
            ("kw swapped", lambda: fake.getErrorMessage(srcType="BD", code="0x2030")),
            ("too few", lambda: fake.getErrorMessage("0x2030")),
            ("too many", lambda: fake.getErrorMessage("0x2030", "BD", 1)),
            ("bad kw", lambda: fake.getErrorMessage("0x2030", type="BD"))]:
        try:
            rec("gem call " + label, repr(call()))
        except BaseException as e:
            rec("gem call " + label, exc_name(e))

    # ===================== comp_id =========================================
    import pel.peltool.comp_id as comp_id

    comp_ids = [0, 0x1000, 0x2000, 0xABCD, 0x4142, 0x4100, 0x0041, 0x0100,
                0xFFFF, 0x3000, 0x3100, 0x3200, 0x3300, 0x10000, 0x1234567,
                0x414243, -1, -0x1000, True, 2 ** 70 + 0x4142, 1.5, "1000",
                None, b"\x10\x00", [0x1000]]
    creators = ["O", "B", "H", "M", "K", "T", "S", "C", "", "o", "Z", "OO",
                "xx", "?", "\u00e9", None, 5, ("O",), ["O"], {"O": 1}, b"O"]

    class Env:
        """One fresh import of comp_id in a given environment."""

        def __init__(self, root, pkg):
            self.root, self.pkg = root, pkg

        def __enter__(self):
            no_pel_registry()
            if self.pkg == "none":
                pass
            elif self.pkg == "blocked":
                sys.modules["pel_registry"] = None
            elif isinstance(self.pkg, dict):
                fake_pel_registry(**self.pkg)
            importlib.reload(comp_id)
            if self.root is not None:
                comp_id.pelConfigRootPath = self.root
            self.dict0 = comp_id.componentIDs
            return self

        def __exit__(self, *a):
            no_pel_registry()

        def state(self):
            try:
                content = json.dumps(comp_id.componentIDs, sort_keys=True)
            except Exception:
                content = repr(comp_id.componentIDs)
            return [comp_id.attemptedToParseCompIDs, content,
                    list(comp_id.componentIDs)
                    if isinstance(comp_id.componentIDs, dict) else None,
                    comp_id.componentIDs is self.dict0,
                    comp_id.pelConfigRootPath]

        def call(self, tag, fn, *args):
            out, err = io.StringIO(), io.StringIO()
            with contextlib.redirect_stdout(out), \
                    contextlib.redirect_stderr(err):
                try:
                    v = fn(*args)
                    res = ["ok", type(v).__name__, repr(v)]
                except BaseException as e:
                    res = exc_name(e)
            rec(tag, [res, out.getvalue(), err.getvalue(), self.state()])

    cdir = os.path.join(FIX, "comp")
    missing_root = os.path.join(cdir, "no-such-dir")
    envs = []
    for d in sorted(os.listdir(cdir)):
        envs.append(("root=" + d, os.path.join(cdir, d), "none"))
    envs.append(("root missing, no pkg", missing_root, "none"))
    envs.append(("root missing, pkg blocked", missing_root, "blocked"))
    envs.append(("root default, no pkg", None, "none"))
    for d in sorted(os.listdir(cdir)):
        envs.append(("pkg in " + d, missing_root,
                     {"__file__": os.path.join(cdir, d, "__init__.py")}))
    envs.append(("root good AND pkg in names", os.path.join(cdir, "good"),
                 {"__file__": os.path.join(cdir, "names", "__init__.py")}))
    envs.append(("pkg relative file", missing_root, {"__file__": "pel_registry.py"}))
    envs.append(("pkg file None", missing_root, {"__file__": None}))
    envs.append(("pkg no file", missing_root, {}))
    envs.append(("pkg file bytes", missing_root,
                 {"__file__": os.path.join(cdir, "good", "x.py").encode()}))
    envs.append(("pkg file int", missing_root, {"__file__": 3}))
    envs.append(("pkg dir missing", missing_root,
                 {"__file__": os.path.join(cdir, "nope", "__init__.py")}))
    envs.append(("root bytes", os.path.join(cdir, "good").encode(), "none"))
    envs.append(("root None", None, "none"))   # patched below
    envs.append(("root int", 0, "none"))

    rec("comp_id public names", sorted(
        n for n in dir(comp_id) if not n.startswith("_")))

    for label, root, pkg in envs:
        # 1. the full grid, in a fixed order
        with Env(root, pkg) as env:
            if label == "root None":
                comp_id.pelConfigRootPath = None
            rec("cid %s initial" % label, env.state())
            for cr in creators:
                for cid in comp_ids:
                    env.call("cid %s grid %r %r" % (label, cid, cr),
                             comp_id.getDisplayCompID, cid, cr)
        # 2. shuffled orders (which call triggers the load differs)
        for seed in range(3):
            order = [(cid, cr) for cr in creators for cid in comp_ids]
            random.Random(seed).shuffle(order)
            with Env(root, pkg) as env:
                if label == "root None":
                    comp_id.pelConfigRootPath = None
                for cid, cr in order[:40]:
                    env.call("cid %s shuffle%d %r %r" % (label, seed, cid, cr),
                             comp_id.getDisplayCompID, cid, cr)
        # 3. the loader called directly, repeatedly, and re-armed
        with Env(root, pkg) as env:
            if label == "root None":
                comp_id.pelConfigRootPath = None
            env.call("cid %s load 1" % label, comp_id.getAllCreatorsCompIDs)
            env.call("cid %s load 2" % label, comp_id.getAllCreatorsCompIDs)
            env.call("cid %s after load" % label,
                     comp_id.getDisplayCompID, 0x1000, "O")
            comp_id.attemptedToParseCompIDs = False
            env.call("cid %s load re-armed" % label,
                     comp_id.getAllCreatorsCompIDs)
            env.call("cid %s after re-armed" % label,
                     comp_id.getDisplayCompID, 0x2000, "O")
            # somebody swaps the table / the root from outside
            comp_id.componentIDs = {"O": {"2000": "swapped"}}
            env.call("cid %s swapped table" % label,
                     comp_id.getDisplayCompID, 0x2000, "O")
            comp_id.componentIDs = {}
            comp_id.attemptedToParseCompIDs = False
            comp_id.pelConfigRootPath = os.path.join(cdir, "samekey")
            env.call("cid %s swapped root" % label,
                     comp_id.getDisplayCompID, 0x2000, "O")
            # a table filled in from outside is not reloaded ...
            comp_id.componentIDs = {"X": {}}
            comp_id.attemptedToParseCompIDs = False
            comp_id.pelConfigRootPath = os.path.join(cdir, "good")
            env.call("cid %s prefilled table" % label,
                     comp_id.getDisplayCompID, 0x2000, "O")
            # ... and an emptied one does not re-arm the loader
            comp_id.componentIDs.clear()
            comp_id.attemptedToParseCompIDs = True
            env.call("cid %s emptied table" % label,
                     comp_id.getDisplayCompID, 0x2000, "O")
            env.call("cid %s kw" % label, lambda: comp_id.getDisplayCompID(
                creatorID="O", componentID=0x1000))
            env.call("cid %s too few" % label,
                     lambda: comp_id.getDisplayCompID(0x1000))
            env.call("cid %s loader arg" % label,
                     lambda: comp_id.getAllCreatorsCompIDs(1))
        # 4. the loader and the creator table replaced from outside
        with Env(root, pkg) as env:
            calls = []
            comp_id.getAllCreatorsCompIDs = lambda: calls.append("load")
            for cid, cr in [(0x4142, "H"), (0x1000, "O"), (0x1000, "O"),
                            ("zz", "O"), (0x1000, ["O"]), (0x0041, "H")]:
                env.call("cid %s stub loader %r %r" % (label, cid, cr),
                         comp_id.getDisplayCompID, cid, cr)
                rec("cid %s stub loader calls" % label, list(calls))
            comp_id.attemptedToParseCompIDs = True
            env.call("cid %s stub loader, attempted" % label,
                     comp_id.getDisplayCompID, 0x1000, "O")
            rec("cid %s stub loader calls" % label, list(calls))
            comp_id.componentIDs["O"] = {"1000": "filled"}
            comp_id.attemptedToParseCompIDs = False
            env.call("cid %s stub loader, filled" % label,
                     comp_id.getDisplayCompID, 0x1000, "O")
            rec("cid %s stub loader calls" % label, list(calls))
            comp_id.creatorIDs = {"O": "PHYP", "H": "Nope"}
            for cid, cr in [(0x4142, "H"), (0x4142, "O"), (0x1000, "B")]:
                env.call("cid %s swapped creators %r %r" % (label, cid, cr),
                         comp_id.getDisplayCompID, cid, cr)
                rec("cid %s swapped creators calls" % label, list(calls))
        # 5. stderr unusable while the complaint is due
        for kind in ("None", "closed"):
            with Env(root, pkg) as env:
                real = sys.stderr
                out = io.StringIO()
                try:
                    if kind == "None":
                        sys.stderr = None
                    else:
                        sys.stderr = io.StringIO()
                        sys.stderr.close()
                    with contextlib.redirect_stdout(out):
                        try:
                            v = comp_id.getDisplayCompID(0x1000, "O")
                            res = ["ok", repr(v)]
                        except BaseException as e:
                            res = exc_name(e)
                finally:
                    sys.stderr = real
                rec("cid %s stderr %s" % (label, kind),
                    [res, out.getvalue(), env.state()])

    importlib.reload(comp_id)
    json.dump(results, sys.stdout, default=repr)


# --------------------------------------------------------------------------
# driver
# --------------------------------------------------------------------------
def run_worker(moddir, opt):
    cmd = [PY] + (["-O"] if opt else []) + [os.path.abspath(__file__),
                                             "--worker", moddir]
    env = dict(os.environ)
    env.pop("PYTHONPATH", None)
    env["PYTHONDONTWRITEBYTECODE"] = "1"
    p = subprocess.run(cmd, capture_output=True, text=True, env=env,
                       stdin=subprocess.DEVNULL)
    if p.returncode != 0:
        print("worker failed for", moddir, "opt", opt)
        print(p.stderr[-4000:])
        sys.exit(2)
    return json.loads(p.stdout), p.stderr


def normalise_stderr(text, moddir):
    """
    A traceback necessarily names other line numbers and helper functions
    after a refactoring; keep what it reports (the exception lines) and
    everything that is not part of a traceback.
    """
    out, in_tb = [], False
    for line in text.replace(moddir, "<MODULES>").splitlines():
        if line.startswith("Traceback (most recent call last)"):
            in_tb = True
            out.append("<traceback>")
            continue
        if in_tb:
            if line.startswith(" ") or not line.strip():
                continue
            if line.startswith("During handling of the above") or \
                    line.startswith("The above exception was"):
                continue
            in_tb = False
            out.append(line.split(":")[0])     # exception type only
            continue
        out.append(line)
    return "\n".join(out)


def snapshot(d):
    snap = {}
    for root, dirs, files in os.walk(d):
        dirs.sort()
        for f in sorted(files):
            p = os.path.join(root, f)
            with open(p, "rb") as fd:
                snap[os.path.relpath(p, d)] = fd.read().hex()
        for x in dirs:
            snap[os.path.relpath(os.path.join(root, x), d) + "/"] = None
    return snap


def cli_cases():
    pels = os.path.join(FIX, "pels")
    work = os.path.join(FIX, "work")
    outdir = os.path.join(FIX, "out")
    one = lambda n: os.path.join(work, "20240315000000%02d" % n)
    cases = []
    for n in range(1, 11):
        cases.append(["-f", one(n)])
    cases += [
        ["-f", one(1), "-x"], ["-f", one(1), "-P"],
        ["-p", work, "-l"], ["-p", work, "-a"], ["-p", work, "-n"],
        ["-p", work, "-l", "-E"], ["-p", work, "-a", "-E"],
        ["-p", work, "-a", "-r"], ["-p", work, "-l", "-H"],
        ["-p", work, "-l", "-N"], ["-p", work, "-a", "-x"],
        ["-p", work, "-i", "0x50000001"], ["-p", work, "-i", "90000003"],
        ["-p", work, "--bmc-id", "1"], ["-p", work, "--plid", "0x50000002"],
        ["-p", work, "--src", "BD8D2030"],
        ["-p", work, "-a", "-o", outdir], ["-p", work, "-a", "-j"],
        ["-p", work, "-a", "-c"], ["-p", work, "-l", "-S", "Unrecoverable"],
        ["-p", work, "-d", "0x50000001"], ["-p", work, "-D"],
        ["-p", os.path.join(FIX, "nowhere"), "-l"], ["-l"], [],
    ]
    return pels, work, outdir, cases


def run_cli(moddir, opt, pkg):
    pels, work, outdir, cases = cli_cases()
    peltool = os.path.join(moddir, "pel", "peltool", "peltool.py")
    results = []
    for args in cases:
        shutil.rmtree(work, ignore_errors=True)
        shutil.copytree(pels, work)
        shutil.rmtree(outdir, ignore_errors=True)
        os.makedirs(outdir)
        env = dict(os.environ)
        env["PYTHONDONTWRITEBYTECODE"] = "1"
        env["PYTHONPATH"] = moddir + \
            (os.pathsep + os.path.join(FIX, pkg) if pkg else "")
        cmd = [PY] + (["-O"] if opt else []) + [peltool] + args
        p = subprocess.run(cmd, capture_output=True, env=env, cwd=FIX,
                           stdin=subprocess.DEVNULL)
        results.append([
            " ".join(args), p.returncode,
            p.stdout.decode("utf-8", "replace").replace(moddir, "<MODULES>"),
            normalise_stderr(p.stderr.decode("utf-8", "replace"), moddir),
            snapshot(work), snapshot(outdir)])
    shutil.rmtree(work, ignore_errors=True)
    shutil.rmtree(outdir, ignore_errors=True)
    return results


def compare(label, a, b):
    bad = 0
    if len(a) != len(b):
        print("%s: %d vs %d observations" % (label, len(a), len(b)))
        return 1
    for x, y in zip(a, b):
        if x != y:
            bad += 1
            if bad <= 10:
                print("DIFF in %s:\n  orig: %s\n  new:  %s" % (
                    label, json.dumps(x)[:1500], json.dumps(y)[:1500]))
    return bad


def main():
    if len(sys.argv) == 3 and sys.argv[1] == "--worker":
        worker(sys.argv[2])
        return
    if len(sys.argv) != 3:
        sys.exit(__doc__)
    orig, new = (os.path.abspath(p) for p in sys.argv[1:3])
    make_fixtures()
    bad = 0
    total = 0
    for opt in (False, True):
        a, ea = run_worker(orig, opt)
        b, eb = run_worker(new, opt)
        total += len(a)
        bad += compare("worker%s" % (" -O" if opt else ""), a, b)
        if ea != eb:
            bad += 1
            print("worker stderr differs:\n%s\n---\n%s" % (ea[-2000:], eb[-2000:]))
        # sanity: the inputs must actually reach the interesting paths
        oks = sum(1 for t, v in a if t.startswith("gem ")
                  and isinstance(v[0], list) and v[0][2] != "{}")
        excs = sum(1 for t, v in a if t.startswith("gem ")
                   and isinstance(v[0], str))
        names = sum(1 for t, v in a if t.startswith("cid ") and " grid " in t
                    and isinstance(v[0], list) and "bmc-" in v[0][2])
        msgs = sum(1 for t, v in a if t.startswith("cid ")
                   and len(v) == 4 and "Failed to find" in v[2])
        print("worker%s: %d observations (registry hits %d, registry "
              "exceptions %d, named comp ids %d, 'Failed to find' %d)" % (
                  " -O" if opt else "", len(a), oks, excs, names, msgs))
        if not (oks and excs and names and msgs):
            print("the inputs do not exercise the code")
            bad += 1
    for pkg in ("pkg_good", None, "pkg_badreg", "pkg_badcomp", "pkg_nopath"):
        for opt in (False, True):
            if opt and pkg not in ("pkg_good", None):
                continue
            a = run_cli(orig, opt, pkg)
            b = run_cli(new, opt, pkg)
            total += len(a)
            bad += compare("cli pkg=%s%s" % (pkg, " -O" if opt else ""), a, b)
            hits = sum(1 for r in a if "Error Details" in r[2])
            named = sum(1 for r in a if "bmc-common" in r[2])
            print("cli pkg=%s%s: %d runs (with Error Details %d, with "
                  "component names %d, non-zero exits %d)" % (
                      pkg, " -O" if opt else "", len(a), hits, named,
                      sum(1 for r in a if r[1] != 0)))
            if pkg == "pkg_good" and not (hits and named):
                print("the CLI runs do not exercise the code")
                bad += 1
    shutil.rmtree(FIX, ignore_errors=True)
    print("%d observations compared, %d differences" % (total, bad))
    print("EQUIVALENT" if not bad else "NOT EQUIVALENT")
    sys.exit(0 if not bad else 1)


if __name__ == "__main__":
    main()
