"""Fixture stand-in for the pel_registry package (message registry + component id names)."""
import os


def get_registry_path():
    return os.path.join(os.path.dirname(__file__), 'message_registry.json')
