#!/bin/sh
# ./runall.sh [quick|thorough]  - run every registered check, print one line each, exit 1 if any is not silent
cd "$(dirname "$0")" || exit 2
tier=${1:-quick}
rc=0
for c in C01 C02 C03 C04 C05 C06 C07 C08 C09 C10 C11 C12 C13 C14 C15 C16 C17 C18 C19 C20; do
  out=$(./check $c --tier $tier 2>/dev/null)
  st=$?
  echo "$out" | grep -E "^(VIOLATION|KNOWN-FINDING|HARNESS)" | head -5
  echo "$out" | tail -1 | sed "s/^/[rc=$st] /"
  [ $st -ne 0 ] && rc=1
done
exit $rc
