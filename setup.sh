#!/bin/sh
# Offline setup: nothing to build (pure Python, stdlib only); verify the interpreter and the repo import.
cd "$(dirname "$0")" || exit 1
mkdir -p evidence replays
PYTHONDONTWRITEBYTECODE=1 PYTHONWARNINGS=ignore::SyntaxWarning /venv/bin/python - <<'PY'
import sys
sys.path.insert(0, '/repo/modules')
import pel.peltool.peltool, io_drawer.dump, udparsers.m2c00.m2c00  # noqa
print('setup ok: python', sys.version.split()[0])
PY
