"""
First-order mutation sweep (development aid, not a registered check):

    python -m mc.mutate gen                      enumerate the mutants of the repository's modules -> <work>/mutants.json
    python -m mc.mutate run [--jobs 4] [--procs 4] [--only FILE ...] [--stride N] [--offset K]
                                                 for each mutant: scratch copy outside /repo and /verif, the repository's own
                                                 tests, then the quick checks mapped to the mutated file (stop at the first
                                                 that reports a VIOLATION); results appended to seeded/mutation_sweep.jsonl
    python -m mc.mutate report                   summary table (per file / per operator) + list of survivors

A mutant is one small syntactic change (comparison boundary, and/or, arithmetic operator, integer constant +-1, dropped
`not`, negated condition, True/False, deleted call statement, break/continue).  The sweep answers, systematically rather
than by hand-picked seeds: of the changes that the repository's tests do not notice, which do the checks notice?
/repo is never touched: every mutant lives in a copy under the work directory (default /dev/shm/mc_mutants).
"""
import argparse
import ast
import json
import os
import re
import shutil
import subprocess
import sys
import time
from concurrent.futures import ThreadPoolExecutor

VERIF = os.path.dirname(os.path.dirname(os.path.abspath(__file__)))
REPO = '/repo'
WORK = os.environ.get('MC_MUTANT_WORK', '/dev/shm/mc_mutants')
OUT = os.path.join(VERIF, 'seeded', 'mutation_sweep.jsonl')
PY = '/venv/bin/python'

# which quick checks look at a file (cheap ones first); from the properties' anchors
CHECKS_FOR = [
    (r'^modules/io_drawer/ilog\.py$', ['C14', 'C17', 'C18', 'C19']),
    (r'^modules/io_drawer/trace\.py$', ['C15', 'C17', 'C18']),
    (r'^modules/io_drawer/hlog\.py$', ['C16', 'C18']),
    (r'^modules/io_drawer/dump\.py$', ['C17', 'C13']),
    (r'^modules/io_drawer/(utils|drawer_type)\.py$', ['C14', 'C15', 'C17', 'C18', 'C16']),
    (r'^modules/pel/hexdump\.py$', ['C13', 'C16', 'C15', 'C04', 'C17', 'C01']),
    (r'^modules/pel/datastream\.py$', ['C02', 'C03', 'C01', 'C05', 'C04']),
    (r'^modules/pel/hwdiags/', ['C20', 'C18', 'C04']),
    (r'^modules/udparsers/oe500/', ['C20', 'C04', 'C18', 'C06']),
    (r'^modules/udparsers/m2c00/', ['C18', 'C16', 'C19', 'C14']),
    (r'^modules/srcparsers/', ['C20', 'C18', 'C03', 'C19']),
    (r'^modules/calloutparsers/', ['C03', 'C18', 'C19']),
    (r'^modules/pel/peltool/(private_header|user_header|extend_user_header|failing_mtms|imp_partition|pel_types|pel_values|comp_id)\.py$',
     ['C02', 'C03', 'C07', 'C01', 'C04', 'C08', 'C10', 'C05', 'C19']),
    (r'^modules/pel/peltool/src\.py$', ['C03', 'C01', 'C20', 'C18', 'C10', 'C05', 'C19', 'C06']),
    (r'^modules/pel/peltool/(parse_user_data|user_data|ext_user_data|default)\.py$', ['C04', 'C18', 'C01', 'C06', 'C19', 'C05']),
    (r'^modules/pel/peltool/registry\.py$', ['C03', 'C19', 'C02']),
    (r'^modules/pel/peltool/config\.py$', ['C07', 'C08', 'C10', 'C01']),
    (r'^modules/pel/peltool/peltool\.py$', ['C07', 'C10', 'C01', 'C13', 'C06', 'C08', 'C11', 'C12', 'C04', 'C05', 'C09', 'C19']),
]
ALL = ['C%02d' % i for i in range(1, 21)]

CMP = {ast.Lt: ('<', '<='), ast.LtE: ('<=', '<'), ast.Gt: ('>', '>='), ast.GtE: ('>=', '>'), ast.Eq: ('==', '!='),
       ast.NotEq: ('!=', '=='), ast.In: ('in', 'not in'), ast.NotIn: ('not in', 'in'), ast.Is: ('is', 'is not'),
       ast.IsNot: ('is not', 'is')}
BIN = {ast.Add: ('+', '-'), ast.Sub: ('-', '+'), ast.Mult: ('*', '//'), ast.FloorDiv: ('//', '*'), ast.LShift: ('<<', '>>'),
       ast.RShift: ('>>', '<<'), ast.BitAnd: ('&', '|'), ast.BitOr: ('|', '&')}


def checks_for(rel):
    for pat, cs in CHECKS_FOR:
        if re.search(pat, rel):
            return cs
    return ALL


class Src:
    def __init__(self, text):
        self.text = text
        self.lines = text.split('\n')
        self.starts = [0]
        for l in self.lines:
            self.starts.append(self.starts[-1] + len(l) + 1)

    def off(self, lineno, col):
        # col_offset is in UTF-8 bytes; the sources are ASCII apart from a few comments
        line = self.lines[lineno - 1]
        return self.starts[lineno - 1] + len(line.encode('utf-8')[:col].decode('utf-8', 'ignore'))

    def span(self, node):
        return self.off(node.lineno, node.col_offset), self.off(node.end_lineno, node.end_col_offset)


def _is_str(node):
    return isinstance(node, ast.JoinedStr) or (isinstance(node, ast.Constant) and isinstance(node.value, (str, bytes)))


def mutants_of(rel, text):
    src = Src(text)
    tree = ast.parse(text)
    out = []
    skip = set()          # nodes inside `if __name__ == '__main__'`, docstrings, argparse help

    def add(op, start, end, new, lineno):
        old = text[start:end]
        if old != new:
            out.append({'file': rel, 'op': op, 'line': lineno, 'start': start, 'end': end, 'old': old, 'new': new})

    def gap_replace(op, left, right, old_tok, new_tok, lineno):
        a = src.span(left)[1]
        b = src.span(right)[0]
        gap = text[a:b]
        m = re.search(r'(?<![\w])' + re.escape(old_tok).replace(r'\ ', r'\s+') + r'(?![\w=<>])' if old_tok[0].isalpha()
                      else re.escape(old_tok) + r'(?![=<>/*])', gap)
        if m and (old_tok[0].isalpha() or not gap[:m.start()].strip(' ()\n\\')):
            add(op, a + m.start(), a + m.end(), new_tok, lineno)

    for node in ast.walk(tree):
        if isinstance(node, ast.If) and isinstance(node.test, ast.Compare) and isinstance(node.test.left, ast.Name) \
                and node.test.left.id == '__name__':
            for n in ast.walk(node):
                skip.add(id(n))
        if isinstance(node, ast.Call) and isinstance(node.func, ast.Attribute) and node.func.attr in ('add_argument', 'ArgumentParser',
                                                                                                      'add_mutually_exclusive_group'):
            for n in ast.walk(node):
                skip.add(id(n))
    for node in ast.walk(tree):
        if id(node) in skip:
            continue
        ln = getattr(node, 'lineno', 0)
        if isinstance(node, ast.Compare):
            left = node.left
            for op, right in zip(node.ops, node.comparators):
                if type(op) in CMP:
                    o, n = CMP[type(op)]
                    gap_replace('CMP', left, right, o, n, ln)
                left = right
        elif isinstance(node, ast.BoolOp):
            o, n = ('and', 'or') if isinstance(node.op, ast.And) else ('or', 'and')
            for a, b in zip(node.values, node.values[1:]):
                gap_replace('BOOL', a, b, o, n, ln)
        elif isinstance(node, ast.BinOp) and type(node.op) in BIN and not _is_str(node.left) and not _is_str(node.right):
            o, n = BIN[type(node.op)]
            gap_replace('BIN', node.left, node.right, o, n, ln)
        elif isinstance(node, ast.UnaryOp) and isinstance(node.op, ast.Not):
            s, e = src.span(node)
            os_, oe = src.span(node.operand)
            add('NOT', s, e, text[os_:oe] if not isinstance(node.operand, (ast.BoolOp, ast.Compare)) else '(' + text[os_:oe] + ')', ln)
        elif isinstance(node, ast.Constant) and isinstance(node.value, bool):
            s, e = src.span(node)
            add('BOOLCONST', s, e, 'False' if node.value else 'True', ln)
        elif isinstance(node, ast.Constant) and isinstance(node.value, int) and not isinstance(node.value, bool):
            s, e = src.span(node)
            lit = text[s:e]
            v = node.value
            fmt = (lambda x: ('0x%0*X' % (len(lit) - 2, x)) if lit.lower().startswith('0x') else str(x))
            add('NUM+1', s, e, fmt(v + 1), ln)
            if v > 0:
                add('NUM-1', s, e, fmt(v - 1), ln)
        elif isinstance(node, (ast.If, ast.While)) and not isinstance(node.test, ast.Constant):
            s, e = src.span(node.test)
            add('NEGCOND', s, e, 'not (' + text[s:e] + ')', ln)
        elif isinstance(node, ast.Expr) and isinstance(node.value, ast.Call):
            s, e = src.span(node)
            f = node.value.func
            name = f.attr if isinstance(f, ast.Attribute) else getattr(f, 'id', '')
            if name not in ('print',):
                add('DELCALL', s, e, 'pass', ln)
        elif isinstance(node, ast.AugAssign):
            s, e = src.span(node)
            add('DELAUG', s, e, 'pass', ln)
        elif isinstance(node, ast.Break):
            s, e = src.span(node)
            add('BRKCONT', s, e, 'continue', ln)
        elif isinstance(node, ast.Continue):
            s, e = src.span(node)
            add('BRKCONT', s, e, 'break', ln)
    # drop docstring-free duplicates, keep only mutants that still compile
    good = []
    seen = set()
    for m in out:
        key = (m['start'], m['end'], m['new'])
        if key in seen:
            continue
        seen.add(key)
        new_text = text[:m['start']] + m['new'] + text[m['end']:]
        try:
            compile(new_text, rel, 'exec')
        except SyntaxError:
            continue
        good.append(m)
    return good


def gen(args):
    import warnings
    warnings.simplefilter("ignore")
    os.makedirs(WORK, exist_ok=True)
    allm = []
    for root, dirs, files in os.walk(os.path.join(REPO, 'modules')):
        for f in sorted(files):
            if not f.endswith('.py'):
                continue
            p = os.path.join(root, f)
            rel = os.path.relpath(p, REPO)
            with open(p, encoding='utf-8') as fh:
                text = fh.read()
            if not text.strip():
                continue
            ms = mutants_of(rel, text)
            # value tables: thousands of constants that all mean the same kind of thing; keep every 5th
            if rel.endswith('pel_values.py') or rel.endswith('pel_types.py'):
                ms = [m for i, m in enumerate(ms) if i % 5 == 0]
            allm += ms
    for i, m in enumerate(allm):
        m['id'] = i
    with open(os.path.join(WORK, 'mutants.json'), 'w') as f:
        json.dump(allm, f)
    by = {}
    for m in allm:
        by.setdefault(m['file'], 0)
        by[m['file']] += 1
    for k in sorted(by):
        print('%5d %s' % (by[k], k))
    print('%5d total' % len(allm))


def _slot_dir(slot):
    d = os.path.join(WORK, 'slot%d' % slot)
    if not os.path.isdir(os.path.join(d, 'repo', 'modules')):
        shutil.rmtree(d, ignore_errors=True)
        os.makedirs(d)
        shutil.copytree(REPO, os.path.join(d, 'repo'), ignore=shutil.ignore_patterns('.git', '__pycache__', '*.pyc'))
    return d


def run_one(m, slot, procs):
    d = _slot_dir(slot)
    repo = os.path.join(d, 'repo')
    path = os.path.join(repo, m['file'])
    with open(os.path.join(REPO, m['file']), encoding='utf-8') as f:
        orig = f.read()
    assert orig[m['start']:m['end']] == m['old'], 'mutant list is stale: run gen again'
    res = {'id': m['id'], 'file': m['file'], 'op': m['op'], 'line': m['line'], 'old': m['old'][:60], 'new': m['new'][:60]}
    if m.get('all_checks'):
        res['all_checks'] = True
    t0 = time.time()
    try:
        with open(path, 'w', encoding='utf-8') as f:
            f.write(orig[:m['start']] + m['new'] + orig[m['end']:])
        env = dict(os.environ, PYTHONPATH=os.path.join(repo, 'modules'), PYTHONDONTWRITEBYTECODE='1')
        try:
            t = subprocess.run([PY, '-m', 'pytest', '-q', '-x', '-p', 'no:cacheprovider', '--timeout=120'], cwd=repo, env=env,
                               capture_output=True, text=True, timeout=300)
            tests_ok = t.returncode == 0
        except subprocess.TimeoutExpired:
            tests_ok = False
        res['tests_pass'] = tests_ok
        if not tests_ok:
            res['status'] = 'killed-by-tests'
            return res
        env = dict(os.environ, VERIF_REPO=repo, VERIF_EVIDENCE_DIR=os.path.join(d, 'ev'), VERIF_PROCS=str(procs),
                   VERIF_REPLAY_DIR=os.path.join(d, 'replays'))
        env.pop('PYTHONPATH', None)
        res['checks'] = {}
        res['status'] = 'survived'
        for c in (checks_for(m['file']) if not m.get('all_checks') else ALL):
            try:
                p = subprocess.run([os.path.join(VERIF, 'check'), c], cwd=VERIF, env=env, capture_output=True, text=True, timeout=1800)
                viol = [l for l in p.stdout.split('\n') if l.startswith('VIOLATION')]
                keys = [l.strip() for l in p.stdout.split('\n') if l.strip().startswith('key=')]
                res['checks'][c] = p.returncode
                if p.returncode == 1 and viol:
                    res['status'] = 'caught'
                    res['caught_by'] = c
                    res['first'] = keys[0][:200] if keys else ''
                    break
                if p.returncode not in (0, 1):
                    res.setdefault('harness_errors', []).append(c)
            except subprocess.TimeoutExpired:
                res['checks'][c] = 'timeout'
        return res
    finally:
        with open(path, 'w', encoding='utf-8') as f:
            f.write(orig)
        shutil.rmtree(os.path.join(d, 'ev'), ignore_errors=True)
        shutil.rmtree(os.path.join(d, 'replays'), ignore_errors=True)
        res['wall_s'] = round(time.time() - t0, 1)


def run(args):
    with open(os.path.join(WORK, 'mutants.json')) as f:
        allm = json.load(f)
    done = set()
    if os.path.exists(OUT):
        with open(OUT) as f:
            for l in f:
                r = json.loads(l)
                done.add((r['file'], r['line'], r['op'], r['old'], r['new']))
    todo = [m for m in allm if (m['file'], m['line'], m['op'], m['old'][:60], m['new'][:60]) not in done]
    if args.survivors_all:
        # second phase: every mutant no mapped check reported goes through all twenty checks
        surv = set()
        with open(OUT) as f:
            latest = {}
            for l in f:
                r = json.loads(l)
                latest[(r['file'], r['line'], r['op'], r['old'], r['new'])] = r
        surv = {k for k, r in latest.items() if r['status'] in ('survived', 'error') and not r.get('all_checks')}
        todo = [dict(m, all_checks=True) for m in allm if (m['file'], m['line'], m['op'], m['old'][:60], m['new'][:60]) in surv]
    if args.only:
        todo = [m for m in todo if any(o in m['file'] for o in args.only)]
    todo = todo[args.offset::args.stride]
    if args.limit:
        todo = todo[:args.limit]
    print('%d mutants to run (%d already recorded)' % (len(todo), len(done)), flush=True)
    import queue
    slots = queue.Queue()
    for s in range(args.jobs):
        slots.put(s)

    def work(m):
        s = slots.get()
        try:
            r = run_one(m, s, args.procs)
        except Exception as e:
            r = {'id': m['id'], 'file': m['file'], 'op': m['op'], 'line': m['line'], 'old': m['old'][:60], 'new': m['new'][:60],
                 'status': 'error', 'error': repr(e)}
        finally:
            slots.put(s)
        return r
    n = 0
    with ThreadPoolExecutor(args.jobs) as ex, open(OUT, 'a') as out:
        for r in ex.map(work, todo):
            out.write(json.dumps(r) + '\n')
            out.flush()
            n += 1
            print('%4d/%d %-15s %s:%d %s %r -> %r %s' % (n, len(todo), r['status'], r['file'].split('/')[-1], r['line'], r['op'], r['old'][:25],
                                                       r['new'][:25], r.get('caught_by', '')), flush=True)


def report(args):
    rows = []
    with open(OUT) as f:
        for l in f:
            rows.append(json.loads(l))
    # keep the latest record per mutant
    latest = {}
    for r in rows:
        latest[(r['file'], r['line'], r['op'], r['old'], r['new'])] = r
    rows = list(latest.values())
    by = {}
    for r in rows:
        b = by.setdefault(r['file'], {'killed-by-tests': 0, 'caught': 0, 'survived': 0, 'error': 0})
        b[r['status']] = b.get(r['status'], 0) + 1
    print('| file | mutants | killed by the repository\'s tests | reported by a check | not reported |')
    print('|---|---|---|---|---|')
    tot = [0, 0, 0, 0]
    for k in sorted(by):
        b = by[k]
        n = sum(b.values())
        print('| `%s` | %d | %d | %d | %d |' % (k.replace('modules/', ''), n, b['killed-by-tests'], b['caught'], b['survived'] + b['error']))
        tot = [tot[0] + n, tot[1] + b['killed-by-tests'], tot[2] + b['caught'], tot[3] + b['survived'] + b['error']]
    print('| **total** | %d | %d | %d | %d |' % tuple(tot))
    if args.survivors:
        print()
        for r in sorted(rows, key=lambda r: (r['file'], r['line'])):
            if r['status'] in ('survived', 'error'):
                print('%s:%d %s %r -> %r %s' % (r['file'], r['line'], r['op'], r['old'], r['new'], r.get('harness_errors', '')))


def main():
    ap = argparse.ArgumentParser()
    sub = ap.add_subparsers(dest='cmd', required=True)
    sub.add_parser('gen')
    r = sub.add_parser('run')
    r.add_argument('--jobs', type=int, default=4)
    r.add_argument('--procs', type=int, default=4)
    r.add_argument('--only', nargs='*')
    r.add_argument('--stride', type=int, default=1)
    r.add_argument('--offset', type=int, default=0)
    r.add_argument('--limit', type=int, default=0)
    r.add_argument('--survivors-all', action='store_true')
    p = sub.add_parser('report')
    p.add_argument('--survivors', action='store_true')
    a = ap.parse_args()
    {'gen': gen, 'run': run, 'report': report}[a.cmd](a)


if __name__ == '__main__':
    main()
