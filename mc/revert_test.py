import json, subprocess, os, sys, shutil
kf = json.load(open('/verif/known_findings.json'))   # usage: /venv/bin/python -m mc.revert_test  (development aid; scratch worktrees under /tmp)
seen = {}
for e in kf:
    seen.setdefault(e['commit'], set()).add(e['property'])
out = {}
def sh(cmd, **kw): return subprocess.run(cmd, capture_output=True, text=True, **kw)
for commit, props in seen.items():
    wt = '/tmp/revt_%s' % commit
    sh(['git','-C','/repo','worktree','add','-q','--detach',wt,'HEAD'])
    try:
        r = sh(['git','-C',wt,'-c','user.name=x','-c','user.email=x@x','revert','--no-commit',commit])
        if r.returncode != 0:
            out[commit] = {'props': sorted(props), 'revert': 'conflict'}
            print(commit, sorted(props), 'REVERT CONFLICT', flush=True)
            continue
        env = dict(os.environ, PYTHONPATH=wt+'/modules', PYTHONDONTWRITEBYTECODE='1')
        t = sh(['/venv/bin/python','-m','pytest','-q','-p','no:cacheprovider'], cwd=wt, env=env)
        tests = t.stdout.strip().split('\n')[-1]
        res = {}
        for p in sorted(props):
            env2 = dict(os.environ, VERIF_REPO=wt, VERIF_EVIDENCE_DIR='/tmp/revt_ev_%s' % commit)
            c = sh(['/verif/check', p], cwd='/verif', env=env2)
            keys = [l.strip() for l in c.stdout.split('\n') if l.strip().startswith('key=')]
            res[p] = {'exit': c.returncode, 'first': keys[0][:160] if keys else ''}
        out[commit] = {'props': sorted(props), 'tests': tests, 'checks': res}
        print(commit, tests, {p: (v['exit'], v['first'][:90]) for p, v in res.items()}, flush=True)
    finally:
        sh(['git','-C','/repo','worktree','remove','--force',wt])
        shutil.rmtree('/tmp/revt_ev_%s' % commit, ignore_errors=True)
json.dump(out, open('/tmp/revert_results.json','w'), indent=1)
