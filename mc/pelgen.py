"""
PEL *encoder* and expected-value checker (the reference model of the decoder).

A PEL is described by JSON-able field values (a "spec").  encode_*() lays the
bytes out according to the documented PEL layout; check_*() compares what the
decoder displays with the same field values using only the formatting rules the
property statements give.  The decoder never sees the spec, the checker never
sees the bytes.
"""
import copy
import json
import re

# ---------------------------------------------------------------- helpers

def _be(v, n):
    return int(v).to_bytes(n, 'big')


def _txt(s, width):
    b = s.encode('latin-1') if isinstance(s, str) else bytes(s)
    if len(b) > width:
        raise ValueError('text %r wider than %d' % (s, width))
    return b + b'\0' * (width - len(b))


def bcd_ts(spec8):
    """spec8: 16 hex digits yyyymmddhhmmsshh -> 8 bytes"""
    return bytes.fromhex(spec8)


def ts_display(spec8):
    s = spec8.lower()
    return '%s/%s/%s %s:%s:%s' % (s[4:6], s[6:8], s[0:4], s[8:10], s[10:12], s[12:14])


def sec_id_bytes(spec):
    if 'id' in spec:
        return _be(spec['id'], 2)
    return spec['t'].encode('latin-1')


def sec_header(spec, length):
    return sec_id_bytes(spec) + _be(length, 2) + _be(spec.get('ver', 1), 1) + _be(spec.get('sub', 0), 1) + \
        _be(spec.get('comp', 0x1000), 2)


# ---------------------------------------------------------------- defaults

PH_DEFAULT = {'ver': 1, 'sub': 0, 'comp': 0x3100, 'create': '2023110709152233', 'commit': '2024120810162344',
              'creator': 'O', 'logtype': 0, 'resv': 0, 'obmc': 0x01020304, 'cver': 0x1122334455667788,
              'plid': 0x50A1B2C3, 'eid': 0x50D4E5F6}
UH_DEFAULT = {'ver': 1, 'sub': 0, 'comp': 0x3200, 'subsys': 0x8D, 'scope': 0x03, 'sev': 0x40, 'etype': 0x00,
              'resv': 0, 'pdomain': 0, 'pvector': 0, 'flags': 0xA000, 'states': 0x00000201}


def pel_from_spec(spec):
    """Fill defaults.  spec keys: any PH_DEFAULT key, 'uh': {...}, 'sections': [...], 'count' (override)."""
    p = dict(PH_DEFAULT)
    for k in PH_DEFAULT:
        if k in spec:
            p[k] = spec[k]
    uh = dict(UH_DEFAULT)
    uh.update(spec.get('uh', {}))
    p['uh'] = uh
    p['sections'] = [dict(s) for s in spec.get('sections', [])]
    if 'count' in spec:
        p['count'] = spec['count']
    return p


# ---------------------------------------------------------------- encoders

def encode_ph(p):
    count = p.get('count', 2 + len(p['sections']))
    cb = p['creator'].encode('latin-1') if isinstance(p['creator'], str) else bytes([p['creator']])
    body = bcd_ts(p['create']) + bcd_ts(p['commit']) + cb + _be(p['logtype'], 1) + _be(p['resv'], 1) + \
        _be(count & 0xff, 1) + _be(p['obmc'], 4) + _be(p['cver'], 8) + _be(p['plid'], 4) + _be(p['eid'], 4)
    return sec_header({'t': 'PH', 'ver': p['ver'], 'sub': p['sub'], 'comp': p['comp']}, 8 + len(body)) + body


def encode_uh(u):
    body = _be(u['subsys'], 1) + _be(u['scope'], 1) + _be(u['sev'], 1) + _be(u['etype'], 1) + _be(u['resv'], 4) + \
        _be(u['pdomain'], 1) + _be(u['pvector'], 1) + _be(u['flags'], 2) + _be(u['states'], 4)
    return sec_header({'t': 'UH', 'ver': u['ver'], 'sub': u['sub'], 'comp': u['comp']}, 8 + len(body)) + body


def encode_fru(f):
    flags = f['flags']
    body = b''
    if flags & 0x08 or flags & 0x02:
        body += _txt(f.get('pn', ''), 8)
    if flags & 0x04:
        body += _txt(f.get('ccin', ''), 4)
    if flags & 0x01:
        body += _txt(f.get('sn', ''), 12)
    return b'ID' + _be(4 + len(body), 1) + _be(flags, 1) + body


def encode_pce(c):
    namelen = c.get('namelen', (len(c.get('name', '')) + 3) // 4 * 4)
    body = _txt(c.get('mtm', ''), 8) + _txt(c.get('sn', ''), 12) + _txt(c.get('name', ''), namelen)
    return b'PE' + _be(4 + len(body), 1) + _be(c.get('flags', 0), 1) + body


def encode_mru(m):
    ids = m['ids']
    body = _be(0, 4)
    for prio, mid in ids:
        body += _be(prio, 4) + _be(mid, 4)
    return b'MR' + _be(4 + len(body), 1) + _be((m.get('flags_hi', 0) << 4) | (len(ids) & 0xf), 1) + body


def encode_callout(c):
    loclen = c.get('loclen', (len(c.get('loc', '')) + 3) // 4 * 4)
    body = _txt(c.get('loc', ''), loclen)
    if c.get('fru'):
        body += encode_fru(c['fru'])
    if c.get('pce'):
        body += encode_pce(c['pce'])
    if c.get('mru'):
        body += encode_mru(c['mru'])
    size = 4 + len(body)
    if size > 255:
        raise ValueError('callout too large')
    return _be(size, 1) + _be(c.get('flags', 0x3E), 1) + _be(c.get('prio', 0x48), 1) + _be(loclen, 1) + body


SRC_DEFAULT_WORDS = [0x020000E0, 0x2A0B0003, 0x00000030, 0x00C00004, 0x11223344, 0x55667788, 0x99AABBCC, 0xDDEEFF01]


def encode_src(s):
    words = s.get('words', SRC_DEFAULT_WORDS)
    ascii_ = _txt(s.get('ascii', 'BD8D1234'.ljust(32)), 32)
    callouts = s.get('callouts')
    flags = s.get('flags', 0)
    if callouts is not None:
        flags |= 0x01
    co = b''
    if flags & 0x01:
        inner = b''.join(encode_callout(c) for c in (callouts or []))
        total = 4 + len(inner)
        if total % 4:
            raise ValueError('callout subsection not word aligned')
        co = _be(0xC0, 1) + _be(0, 1) + _be(total // 4, 2) + inner
    body = _be(s.get('srcver', 2), 1) + _be(flags, 1) + _be(0, 1) + _be(s.get('wc', 9), 1) + _be(0, 2) + \
        _be(72 + len(co), 2) + b''.join(_be(w, 4) for w in words) + ascii_ + co
    return sec_header(s, 8 + len(body)) + body


def encode_eh(s):
    sym = s.get('sym', '')
    symlen = s.get('symlen', (len(sym) + 3) // 4 * 4)
    body = _txt(s.get('mtm', '9105-22A'), 8) + _txt(s.get('sn', 'SN1234567'), 12) + _txt(s.get('fw', 'FW1060.00'), 16) + \
        _txt(s.get('subfw', 'fw1060.00-7'), 16) + _be(0, 4) + bcd_ts(s.get('reftime', '2022030818402755')) + \
        _be(0, 3) + _be(symlen, 1) + _txt(sym, symlen)
    return sec_header(s, 8 + len(body)) + body


def encode_mt(s):
    body = _txt(s.get('mtm', '9080-HEX'), 8) + _txt(s.get('sn', '13AB57X'), 12)
    return sec_header(s, 8 + len(body)) + body


def encode_lp(s):
    name = s.get('name', '')
    namelen = s.get('namelen', len(name))
    targets = s.get('targets', [])
    body = _be(s.get('partid', 0x0102), 2) + _be(namelen, 1) + _be(len(targets) & 0xff, 1) + \
        _be(s.get('logid', 0x0A0B0C0D), 4) + _txt(name, namelen) + b''.join(_be(t, 2) for t in targets)
    # sections are 4-byte aligned: pad, counted in the section length, up to the next multiple of 4 ('pad' overrides)
    body += bytes(s.get('pad', -len(body) % 4))
    return sec_header(s, 8 + len(body)) + body


def payload_of(s):
    if 'payload' in s:
        return bytes.fromhex(s['payload'])
    if 'text' in s:
        return s['text'].encode('utf-8')
    return b''


def encode_ud(s):
    body = payload_of(s)
    return sec_header(s, 8 + len(body)) + body


def encode_ed(s):
    body = s.get('creator', 'B').encode('latin-1') + _be(0, 3) + payload_of(s)
    return sec_header(s, 8 + len(body)) + body


def encode_section(s):
    t = s.get('t')
    if 'id' not in s:
        if t in ('PS', 'SS'):
            return encode_src(s)
        if t == 'EH':
            return encode_eh(s)
        if t == 'MT':
            return encode_mt(s)
        if t == 'LP':
            return encode_lp(s)
        if t == 'ED':
            return encode_ed(s)
    return encode_ud(s)


def encode_pel(p):
    if 'uh' not in p or 'sections' not in p or 'create' not in p:
        p = pel_from_spec(p)
    return encode_ph(p) + encode_uh(p['uh']) + b''.join(encode_section(s) for s in p['sections'])


def section_offsets(p):
    """[(start, end)] of every section incl. PH, UH"""
    offs = []
    pos = 0
    for b in [encode_ph(p), encode_uh(p['uh'])] + [encode_section(s) for s in p['sections']]:
        offs.append((pos, pos + len(b)))
        pos += len(b)
    return offs


# ---------------------------------------------------------------- expected names

class _Tables:
    """The value tables the expectations are computed from: the frozen copy of the published tables (mc/ref/pel_tables_frozen)
    for every key it holds, the repository's table only for keys added since.  An oracle that read the repository's own table
    would vouch for any slip made in it."""

    def __getattr__(self, name):
        from pel.peltool import pel_values
        from mc.ref import pel_tables_frozen as frozen
        impl = getattr(pel_values, name)
        if isinstance(impl, dict) and hasattr(frozen, name):
            merged = dict(impl)
            merged.update(getattr(frozen, name))
            # keep the repository's iteration order for keys both have, frozen-only keys at the end
            ordered = {k: merged[k] for k in getattr(frozen, name)}
            for k in impl:
                ordered.setdefault(k, merged[k])
            return ordered
        return impl


_TABLES = _Tables()


def tables():
    return _TABLES


def section_name(s):
    idb = sec_id_bytes(s)
    key = chr(idb[0]) + chr(idb[1])
    return tables().sectionNames.get(key, 'Unknown')


def expected_keys(p):
    names = [section_name(s) for s in p['sections']]
    counts = {}
    for n in names:
        counts[n] = counts.get(n, 0) + 1
    seen = {}
    out = ['Private Header', 'User Header']
    for n in names:
        if counts[n] == 1:
            out.append(n)
        else:
            out.append('%s %d' % (n, seen.get(n, 0)))
            seen[n] = seen.get(n, 0) + 1
    return out


# ---------------------------------------------------------------- expected values

class Mismatch(list):
    def need(self, doc, key, pred, want):
        if not isinstance(doc, dict) or key not in doc:
            self.append('%s: missing (want %r)' % (key, want))
            return
        got = doc[key]
        try:
            ok = pred(got)
        except Exception as e:
            ok = False
        if not ok:
            self.append('%s: shown %r, encoded %r' % (key, got, want))


def eq(v):
    return lambda g: g == v


def hexnum(v):
    return lambda g: isinstance(g, str) and int(g, 16) == v


def decnum(v):
    return lambda g: int(g) == v


def disp_comp_ok(comp, creator, compnames):
    cids = tables().creatorIDs
    if cids.get(creator) == 'PHYP':
        hi, lo = comp >> 8, comp & 0xff
        if hi and lo:
            return eq(chr(hi) + chr(lo))
        return hexnum(comp)
    name = (compnames or {}).get(creator, {}).get('%04X' % comp)
    if name is not None:
        return eq(name)
    return hexnum(comp)


def std3(m, s, doc, creator, env, default_style=False):
    m.need(doc, 'Section Version', eq(s.get('ver', 1)), s.get('ver', 1))
    m.need(doc, 'Sub-section type', eq(s.get('sub', 0)), s.get('sub', 0))
    comp = s.get('comp', 0x1000)
    if default_style:
        m.need(doc, 'Created by', hexnum(comp), comp)
    else:
        m.need(doc, 'Created by', disp_comp_ok(comp, creator, env.get('compnames')), comp)


def check_ph(p, doc, env):
    m = Mismatch()
    T = tables()
    creator = p['creator']
    std3(m, p, doc, creator, env)
    m.need(doc, 'Created at', eq(ts_display(p['create'])), ts_display(p['create']))
    m.need(doc, 'Committed at', eq(ts_display(p['commit'])), ts_display(p['commit']))
    m.need(doc, 'Creator Subsystem', eq(T.creatorIDs.get(creator, 'Unknown')), T.creatorIDs.get(creator, 'Unknown'))
    m.need(doc, 'CSSVER', hexnum(p['cver']), hex(p['cver']))
    m.need(doc, 'Platform Log Id', hexnum(p['plid']), hex(p['plid']))
    m.need(doc, 'Entry Id', hexnum(p['eid']), hex(p['eid']))
    m.need(doc, 'BMC Event Log Id', decnum(p['obmc']), p['obmc'])
    return m


def check_uh(p, doc, env):
    m = Mismatch()
    T = tables()
    u = p['uh']
    m.need(doc, 'Section Version', eq(u['ver']), u['ver'])
    m.need(doc, 'Sub-section type', eq(u['sub']), u['sub'])
    m.need(doc, 'Log Committed by', disp_comp_ok(u['comp'], p['creator'], env.get('compnames')), u['comp'])
    m.need(doc, 'Subsystem', eq(T.subsystemValues.get(u['subsys'], 'Invalid')), u['subsys'])
    m.need(doc, 'Event Scope', eq(T.eventScopeValues.get(u['scope'], 'Invalid')), u['scope'])
    m.need(doc, 'Event Severity', eq(T.severityValues.get(u['sev'], 'Invalid')), u['sev'])
    m.need(doc, 'Event Type', eq(T.eventTypeValues.get(u['etype'], 'Invalid')), u['etype'])
    want = sorted(name for bit, name in T.actionFlagsValues.items() if u['flags'] & bit)
    m.need(doc, 'Action Flags', lambda g: isinstance(g, list) and sorted(g) == want, want)
    m.need(doc, 'Host Transmission', eq(T.transmissionStates.get(u['states'] & 0xff, 'Unknown')), u['states'] & 0xff)
    m.need(doc, 'HMC Transmission', eq(T.transmissionStates.get((u['states'] >> 8) & 0xff, 'Unknown')),
           (u['states'] >> 8) & 0xff)
    return m


def _vis(s):
    """text as displayed: NUL padding removed"""
    return s.strip('\0')


def check_eh(s, doc, creator, env):
    m = Mismatch()
    std3(m, s, doc, creator, env)
    m.need(doc, 'Reporting Machine Type', eq(_vis(s.get('mtm', '9105-22A'))), s.get('mtm', '9105-22A'))
    m.need(doc, 'Reporting Serial Number', eq(_vis(s.get('sn', 'SN1234567'))), s.get('sn', 'SN1234567'))
    m.need(doc, 'FW Released Ver', eq(_vis(s.get('fw', 'FW1060.00'))), s.get('fw', 'FW1060.00'))
    m.need(doc, 'FW SubSys Version', eq(_vis(s.get('subfw', 'fw1060.00-7'))), s.get('subfw', 'fw1060.00-7'))
    rt = s.get('reftime', '2022030818402755')
    m.need(doc, 'Common Ref Time', eq(ts_display(rt)), ts_display(rt))
    sym = s.get('sym', '')
    symlen = s.get('symlen', (len(sym) + 3) // 4 * 4)
    m.need(doc, 'Symptom Id Len', decnum(symlen), symlen)
    m.need(doc, 'Symptom Id', eq(_vis(sym)), sym)
    return m


def check_mt(s, doc, creator, env):
    m = Mismatch()
    std3(m, s, doc, creator, env)
    m.need(doc, 'Machine Type Model', eq(_vis(s.get('mtm', '9080-HEX'))), s.get('mtm', '9080-HEX'))
    m.need(doc, 'Serial Number', eq(_vis(s.get('sn', '13AB57X'))), s.get('sn', '13AB57X'))
    return m


def shown_targets(doc):
    """Every value shown under a key beginning 'Target LP' (other than the count), flattened, as integers."""
    out = []
    for k, v in doc.items():
        if not k.startswith('Target LP') or k == 'Target LP Count':
            continue
        items = v if isinstance(v, list) else [x for x in str(v).replace(';', ',').split(',')]
        for it in items:
            it = str(it).strip()
            if it:
                out.append(int(it, 16))
    return out


def check_lp(s, doc, creator, env):
    m = Mismatch()
    std3(m, s, doc, creator, env)
    name = s.get('name', '')
    namelen = s.get('namelen', len(name))
    targets = s.get('targets', [])
    m.need(doc, 'Primary Partition ID', hexnum(s.get('partid', 0x0102)), s.get('partid', 0x0102))
    m.need(doc, 'Length of LP Name', hexnum(namelen), namelen)
    m.need(doc, 'Target LP Count', hexnum(len(targets)), len(targets))
    m.need(doc, 'Logical Partition Log ID', hexnum(s.get('logid', 0x0A0B0C0D)), s.get('logid', 0x0A0B0C0D))
    m.need(doc, 'Primary Partition Name', eq(_vis(name)), name)
    try:
        got = shown_targets(doc)
    except Exception as e:
        got = 'unreadable: %r' % (e,)
    if got != list(targets):
        m.append('Target LP*: shown %r, encoded %r' % (got, ['0x%04X' % t for t in targets]))
    return m


# ---- SRC

def src_flags_expected(s):
    flags = s.get('flags', 0) | (1 if s.get('callouts') is not None else 0)
    return flags


def check_src(s, doc, creator, env):
    """env: compnames, registry (list of registry entries or None), plugins (bool), maint (dict name->desc list)"""
    T = tables()
    m = Mismatch()
    std3(m, s, doc, creator, env)
    words = s.get('words', SRC_DEFAULT_WORDS)
    ascii_ = s.get('ascii', 'BD8D1234'.ljust(32))
    ascii32 = (ascii_ + '\0' * 32)[:32]
    flags = src_flags_expected(s)
    wc = s.get('wc', 9)
    m.need(doc, 'SRC Version', hexnum(s.get('srcver', 2)), s.get('srcver', 2))
    m.need(doc, 'SRC Format', hexnum(words[0] & 0xff), words[0] & 0xff)
    tf = lambda b: 'True' if b else 'False'
    m.need(doc, 'Virtual Progress SRC', eq(tf(flags & 0x80)), tf(flags & 0x80))
    m.need(doc, 'I5/OS Service Event Bit', eq(tf(flags & 0x10)), tf(flags & 0x10))
    m.need(doc, 'Hypervisor Dump Initiated', eq(tf(flags & 0x04)), tf(flags & 0x04))
    typ = ascii32[0:2]
    if typ in ('BD', '11'):
        m.need(doc, 'Backplane CCIN', hexnum(words[1] >> 16), '%04X' % (words[1] >> 16))
        m.need(doc, 'Terminate FW Error', eq(tf(words[3] & 0x20000000)), tf(words[3] & 0x20000000))
    if typ in ('BD', '11', 'BC'):
        m.need(doc, 'Deconfigured', eq(tf(words[3] & 0x02000000)), tf(words[3] & 0x02000000))
        m.need(doc, 'Guarded', eq(tf(words[3] & 0x01000000)), tf(words[3] & 0x01000000))
    m.need(doc, 'Valid Word Count', hexnum(wc), wc)
    m.need(doc, 'Reference Code', eq(ascii32.strip()), ascii32.strip())
    for i in range(2, min(wc, 9) + 1):
        m.need(doc, 'Hex Word %d' % i, hexnum(words[i - 2]), '%08X' % words[i - 2])
    for i in range(max(wc, 1) + 1, 10):
        if isinstance(doc, dict) and ('Hex Word %d' % i) in doc:
            m.append('Hex Word %d shown although Valid Word Count is %d' % (i, wc))
    # registry message
    reg = env.get('registry')
    if reg is not None and typ in ('BD', '11', 'BC'):
        want = registry_expect(reg, ascii32[4:8], typ, words)
        if want is not None:
            ed = doc.get('Error Details') if isinstance(doc, dict) else None
            if not isinstance(ed, dict):
                m.append('Error Details: missing (want message %r)' % want['Message'])
            else:
                if ed.get('Message') != want['Message']:
                    m.append('Error Details.Message: shown %r, expected %r' % (ed.get('Message'), want['Message']))
                for k, v in want.get('words', {}).items():
                    got = ed.get(k)
                    ok = isinstance(got, (list, tuple)) and len(got) == 2 and got[1] == v[1] and \
                        (got[0] == v[0] or (isinstance(got[0], str) and int(got[0], 16) == v[0]))
                    if not ok:
                        m.append('Error Details.%s: shown %r, expected %r' % (k, got, v))
    # callouts
    if flags & 0x01:
        cs = doc.get('Callout Section') if isinstance(doc, dict) else None
        callouts = s.get('callouts') or []
        if not isinstance(cs, dict):
            m.append('Callout Section: missing')
        else:
            m.need(cs, 'Callout Count', eq(len(callouts)), len(callouts))
            lst = cs.get('Callouts')
            if not isinstance(lst, list) or len(lst) != len(callouts):
                m.append('Callouts: shown %d entries, encoded %d' % (len(lst) if isinstance(lst, list) else -1,
                                                                     len(callouts)))
            else:
                for i, (c, d) in enumerate(zip(callouts, lst)):
                    for x in check_callout(c, d, creator, env):
                        m.append('Callouts[%d].%s' % (i, x))
    else:
        if isinstance(doc, dict) and 'Callout Section' in doc:
            m.append('Callout Section shown although the additional-sections flag is off')
    return m


def check_callout(c, d, creator, env):
    T = tables()
    m = Mismatch()
    fru = c.get('fru')
    optional = {'Part Number': None, 'Procedure': None, 'CCIN': None, 'Serial Number': None, 'PCE MTMS': None,
                'PCE Name': None, 'MRU Id': None}
    if fru:
        fl = fru['flags']
        m.need(d, 'FRU Type', eq(T.failingComponentType.get(fl & 0xf0, 'Invalid')), hex(fl & 0xf0))
        m.need(d, 'Priority', eq(T.calloutPriorityValues.get(c.get('prio', 0x48), 'Invalid')), hex(c.get('prio', 0x48)))
        loc = _vis(c.get('loc', ''))
        if loc:
            m.need(d, 'Location Code', eq(loc), loc)
        elif d.get('Location Code'):
            m.append('Location Code: shown %r, encoded none' % d.get('Location Code'))
        if fl & 0x08:
            optional['Part Number'] = _vis(fru.get('pn', ''))
        if fl & 0x02:
            optional['Procedure'] = _vis(fru.get('pn', ''))
        if fl & 0x04:
            optional['CCIN'] = _vis(fru.get('ccin', ''))
        if fl & 0x01:
            optional['Serial Number'] = _vis(fru.get('sn', ''))
    pce = c.get('pce')
    if pce:
        if _vis(pce.get('mtm', '')):
            optional['PCE MTMS'] = _vis(pce.get('mtm', '')) + '_' + _vis(pce.get('sn', ''))
        if _vis(pce.get('name', '')):
            optional['PCE Name'] = _vis(pce.get('name', ''))
    mru = c.get('mru')
    if mru is not None:
        optional['MRU Id'] = ','.join('%08X' % mid for _, mid in mru['ids'])
    for k, want in optional.items():
        if want is None:
            if k in d and d[k] not in ('', None):
                m.append('%s: shown %r, not encoded' % (k, d[k]))
        elif k == 'MRU Id':
            got = d.get(k)
            try:
                ok = got is not None and [int(x, 16) for x in str(got).split(',') if x.strip()] == \
                    [mid for _, mid in mru['ids']]
            except Exception:
                ok = False
            if not ok:
                m.append('MRU Id: shown %r, encoded %r' % (got, want))
        else:
            m.need(d, k, eq(want), want)
    maint = env.get('maint')
    if maint is not None and fru and fru['flags'] & 0x02 and env.get('plugins', True):
        name = _vis(fru.get('pn', ''))
        if name in maint:
            m.need(d, 'Description', eq(maint[name]), maint[name])
    return m


def registry_expect(reg, reason4, typ, words):
    """First registry entry of that type whose reason code is 0x<reason4>."""
    code = '0x' + reason4
    for pel in reg:
        src = pel.get('SRC', {})
        if 'ReasonCode' not in src:
            continue
        if src.get('Type', 'BD') != typ:
            continue
        if src['ReasonCode'] != code:
            continue
        docu = pel['Documentation']
        msg = docu['Message']
        args = docu.get('MessageArgSources')
        if args:
            import re
            vals = [hex(words[int(a[-1]) - 2]) for a in args]
            msg = re.sub(r'%([1-9])', lambda mo: vals[int(mo.group(1)) - 1], msg)
        out = {'Message': msg, 'words': {}}
        for num, wc in (src.get('Words6To9') or {}).items():
            if 'Description' in wc:
                out['words'][wc['AdditionalDataPropSource']] = [words[int(num) - 2], wc['Description']]
        if not msg:
            return None
        return out
    return None


# ---------------------------------------------------------------- base PELs

def json_payload(obj, pad=None):
    b = json.dumps(obj).encode()
    n = (-len(b)) % 4 if pad is None else pad
    return (b + b'\0' * n).hex()


CALLOUT_FULL = {'prio': 0x48, 'loc': 'U78DA.ND0.1234567-P0', 'fru': {'flags': 0x1D, 'pn': 'PN12345', 'ccin': 'CC01',
                                                                     'sn': 'SERIAL000001'},
                'pce': {'mtm': '9105-22A', 'sn': 'PCESN01', 'name': 'pcename'},
                'mru': {'ids': [[0x48, 0x00010002], [0x4C, 0xA0B0C0D0]]}}
CALLOUT_PROC = {'prio': 0x4D, 'loc': '', 'fru': {'flags': 0x42, 'pn': 'BMC0002'}}


def base_pel_specs():
    """One PEL per section type plus one 'everything' PEL."""
    ud_json = {'t': 'UD', 'comp': 0x2000, 'sub': 1, 'ver': 1, 'payload': json_payload({'k': 'v', 'n': [1, 2]})}
    ud_text = {'t': 'UD', 'comp': 0x2000, 'sub': 3, 'ver': 1, 'payload': b'line one\nline two\x01\0\0'.hex()}
    ud_hex = {'t': 'UD', 'comp': 0xABCD, 'sub': 9, 'ver': 2, 'payload': bytes(range(1, 22)).hex()}
    secs = {
        'PS': {'t': 'PS', 'comp': 0x2A00},
        'PSc': {'t': 'PS', 'comp': 0x2A00, 'callouts': [CALLOUT_FULL, CALLOUT_PROC]},
        'SS': {'t': 'SS', 'ascii': 'BC8A0A01'.ljust(32), 'callouts': [CALLOUT_PROC]},
        'EH': {'t': 'EH', 'sym': 'BD8D1234_2A0B0003'},
        'MT': {'t': 'MT'},
        'LP': {'t': 'LP', 'name': 'lpar5', 'targets': [0x0001]},  # 23 bytes of content + 1 pad byte
        'UDj': ud_json, 'UDt': ud_text, 'UDh': ud_hex,
        # declared built-in JSON but not UTF-8: shown as a hex dump of the payload
        'UDx': {'t': 'UD', 'comp': 0x2000, 'sub': 1, 'ver': 1, 'payload': b'{"a": "caf\xe9"}\0\0'.hex()},
        # declared built-in JSON with numbers no JSON document can hold once loaded as floats
        'UDn': {'t': 'UD', 'comp': 0x2000, 'sub': 1, 'ver': 1, 'payload': b'{"v": 1e999, "w": [1e308, -1e999]}'.hex()},
        'ED': {'t': 'ED', 'creator': 'B', 'comp': 0x0100, 'payload': bytes(range(40, 60)).hex()},
        'DH': {'t': 'DH', 'payload': bytes(range(16)).hex()},
        'ZZ': {'t': 'ZZ', 'payload': '00112233'},
        # served by the shipped plug-ins (hardware diagnostics signature list, I/O drawer ILOG)
        'UDhw': {'t': 'UD', 'comp': 0xE500, 'sub': 1, 'ver': 1, 'payload': ((2).to_bytes(4, 'big') + bytes(range(1, 25))).hex()},
        'EDio': {'t': 'ED', 'creator': 'M', 'comp': 0x2C00, 'sub': 73, 'ver': 1, 'payload': '8ADF0F19010000DE' '00010002E0040000'},
    }
    out = []
    for i, (k, s) in enumerate(secs.items()):
        out.append({'eid': 0x50000100 + i, 'plid': 0x50000100 + i, 'sections': [s]})
    everything = [secs[k] for k in ('PSc', 'EH', 'MT', 'LP', 'UDj', 'UDhw', 'UDh', 'ED', 'SS', 'UDt', 'ZZ')]
    out.append({'eid': 0x500001FF, 'plid': 0x500001FF, 'sections': everything})
    return copy.deepcopy(out)


# ---------------------------------------------------------------- generic entry check

def check_raw(s, doc, creator, env):
    """A section without a decoder: standard fields + payload recoverable from the 'Data' hex dump."""
    from mc.ref import hexdump as rhex
    m = Mismatch()
    if not isinstance(doc, dict):
        m.append('entry is not an object: %r' % (doc,))
        return m
    t = s.get('t')
    std3(m, s, doc, s.get('creator', creator) if t == 'ED' else creator, env,
         default_style=(t not in ('UD', 'ED') or 'id' in s))
    payload = payload_of(s)
    data = doc.get('Data')
    if payload:
        try:
            got = rhex.read_default(data)
        except Exception as e:
            got = None
        if got != payload:
            m.append('Data: hex dump does not give back the %d payload bytes (got %r)' % (len(payload),
                     got.hex() if got is not None else data if not isinstance(data, list) else data[:2]))
    return m


def is_builtin(s, creator):
    from pel.peltool.pel_values import creatorIDs
    c = s.get('creator', 'B') if s.get('t') == 'ED' and 'id' not in s else creator
    return s.get('t') in ('UD', 'ED') and 'id' not in s and creatorIDs.get(c) == 'BMC' and s.get('comp', 0x1000) == 0x2000


WS = ' \t\n\r'


def text_lines(text):
    """Reference model of the built-in text format: the lines of the text, non-printable characters replaced by '.'."""
    if text == '':
        return []
    if text.endswith('\n'):
        text = text[:-1]
    return [''.join(c if 0x20 <= ord(c) <= 0x7e else '.' for c in ln) for ln in text.split('\n')]


def _strict_json(text):
    def rej(tok):
        raise ValueError('not JSON: ' + tok)
    v = json.loads(text, parse_constant=rej)
    json.dumps(v, allow_nan=False)
    return v


def _depth(text):
    d = best = 0
    for c in text:
        if c in '[{':
            d += 1
            best = max(best, d)
        elif c in ']}':
            d -= 1
    return best


def builtin_expect(s):
    """What a BMC built-in user-data section must show, from its payload alone.
    ('json', v): exactly the JSON value v; ('text', [accepted line lists]); ('raw',): the payload as a hex dump;
    ('json-or-raw', v); ('raw-or-any',): hex dump, or any value (huge integers, deep nesting, overflowing floats)."""
    sub, P = s.get('sub', 0), payload_of(s)
    if sub == 1:
        try:
            t = P.decode('utf-8')
        except UnicodeDecodeError:
            return ('raw',)
        core_must = re.sub('[%s]*\0*$' % WS, '', t.lstrip(WS))      # leading blanks, trailing blanks then NUL padding
        core_may = t
        while core_may and (core_may[0].isspace() or core_may[0] == '\0'):
            core_may = core_may[1:]
        while core_may and (core_may[-1].isspace() or core_may[-1] == '\0'):
            core_may = core_may[:-1]
        for core, kind in ((core_must, 'json'), (core_may, 'json-or-raw')):
            try:
                v = _strict_json(core)
                if _depth(core) > 200:          # beyond 200 levels of nesting a hex dump is accepted as well
                    return ('raw-or-any',)
                return (kind, v)
            except json.JSONDecodeError:
                continue
            except (ValueError, RecursionError):
                return ('raw-or-any',)
        return ('raw',)
    if sub == 3:
        readings = [P.decode('latin-1')]
        try:
            readings.append(P.decode('utf-8'))
        except UnicodeDecodeError:
            readings.append(P.decode('utf-8', errors='replace'))
        acc = []
        for t in readings:
            acc += [text_lines(t.rstrip('\0')), text_lines(t)]
        return ('text', acc)
    return ('raw',)


def check_builtin(s, doc, creator, env):
    from mc.ref import hexdump as rhex
    m = Mismatch()
    t = s.get('t')
    if not isinstance(doc, dict):
        m.append('entry is not an object: %r' % (doc,))
        return m
    std3(m, s, doc, s.get('creator', creator) if t == 'ED' else creator, env)
    rest = {k: v for k, v in doc.items() if k not in ('Section Version', 'Sub-section type', 'Created by')}
    exp = builtin_expect(s)
    payload = payload_of(s)

    def is_raw():
        try:
            return set(rest) == {'Data'} and rhex.read_default(rest['Data']) == payload
        except Exception:
            return False

    def is_value(v):
        return rest == v if isinstance(v, dict) else rest == {'Data': v}
    if not payload:
        return m
    if exp[0] == 'json' and not is_value(exp[1]):
        m.append('built-in JSON: section shows %.200r, payload value %.200r' % (rest, exp[1]))
    elif exp[0] == 'json-or-raw' and not (is_value(exp[1]) or is_raw()):
        m.append('built-in JSON: section shows %.200r, neither the value %.200r nor the payload bytes' % (rest, exp[1]))
    elif exp[0] == 'text' and not (set(rest) == {'Data'} and rest['Data'] in exp[1]):
        m.append('built-in text: section shows %.200r, text lines %.200r' % (rest, exp[1][-2]))
    elif exp[0] == 'raw' and not is_raw():
        m.append('payload-lost: Data %.120r does not give back the %d payload bytes' % (rest.get('Data'), len(payload)))
    elif exp[0] == 'raw-or-any' and not is_raw():
        try:
            json.dumps(rest, allow_nan=False)
        except Exception as e:
            m.append('built-in JSON: neither the payload bytes nor a JSON value (%s)' % type(e).__name__)
    return m


def check_entry(s, doc, creator, env):
    t = s.get('t')
    if 'id' not in s:
        if t in ('PS', 'SS'):
            return check_src(s, doc, creator, env)
        if t == 'EH':
            return check_eh(s, doc, creator, env)
        if t == 'MT':
            return check_mt(s, doc, creator, env)
        if t == 'LP':
            return check_lp(s, doc, creator, env)
        if t in ('UD', 'ED') and is_builtin(s, creator):
            return check_builtin(s, doc, creator, env)
        if t in ('UD', 'ED') and s.get('decoded'):
            m = Mismatch()
            std3(m, s, doc, s.get('creator', creator) if t == 'ED' else creator, env)
            return m
    return check_raw(s, doc, creator, env)
