"""RFC 8259 reading of the tool's output: Python's json.loads also accepts the bare tokens NaN, Infinity and -Infinity, which
are not JSON; every place where a check parses text printed or written by the tool uses this loader instead."""
import json


def _reject(token):
    raise ValueError('%s is not JSON' % token)


def loads(text, **kw):
    return json.loads(text, parse_constant=_reject, **kw)
