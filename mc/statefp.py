"""
E2: canonical fingerprint of every piece of module-level mutable state owned by the repository's packages.

Generic on purpose: a change that hoists an accumulator or scratch buffer to module or class scope becomes part of
the state (and of the search) without any edit here.
"""
import functools
import hashlib
import re
import sys
import types

PREFIXES = ('pel', 'io_drawer', 'udparsers', 'srcparsers', 'calloutparsers')
SKIP_GLOBALS = {'__builtins__', '__file__', '__doc__', '__spec__', '__loader__', '__cached__', '__name__', '__package__',
                '__path__', '__annotations__', '__warningregistry__'}
_RE_TYPE = type(re.compile(''))


def owned(modname):
    return modname.split('.')[0] in PREFIXES


def canon(obj, depth=0, seen=None):
    try:
        return _canon(obj, depth, seen)
    except Exception as e:      # an object that cannot be canonicalised must not take the explorer down
        return '<uncanonical:%s:%s>' % (type(obj).__name__, type(e).__name__)


def _canon(obj, depth=0, seen=None):
    seen = seen if seen is not None else set()
    if obj is None or isinstance(obj, (bool, int, float, str, bytes)):
        return repr(obj)
    if isinstance(obj, (bytearray, memoryview)):
        return 'bytes:' + bytes(obj).hex()
    if isinstance(obj, types.ModuleType):
        return 'module:' + obj.__name__
    if isinstance(obj, _RE_TYPE):
        return 're:' + obj.pattern
    if id(obj) in seen or depth > 6:
        return '<cycle-or-deep:%s>' % type(obj).__name__
    seen = seen | {id(obj)}
    if isinstance(obj, dict):
        return '{' + ','.join(sorted('%s:%s' % (canon(k, depth + 1, seen), canon(v, depth + 1, seen)) for k, v in obj.items())) + '}'
    if isinstance(obj, (list, tuple)):
        return '[' + ','.join(canon(x, depth + 1, seen) for x in obj) + ']'
    if isinstance(obj, (set, frozenset)):
        return 'set(' + ','.join(sorted(canon(x, depth + 1, seen) for x in obj)) + ')'
    if isinstance(obj, (types.FunctionType, types.BuiltinFunctionType, types.MethodType, type)):
        # code, not state (class attributes are walked separately); named so that containers of callables stay comparable
        return 'code:%s.%s' % (getattr(obj, '__module__', '?'), getattr(obj, '__qualname__', getattr(obj, '__name__', '?')))
    cls = type(obj)
    if owned(getattr(cls, '__module__', '') or ''):
        d = getattr(obj, '__dict__', None)
        return 'obj:%s%s' % (cls.__qualname__, canon(d, depth + 1, seen) if isinstance(d, dict) else '')
    if cls.__module__ == 'enum' or hasattr(obj, '_value_'):
        return 'enum:' + repr(obj)
    return '<%s>' % cls.__name__


def _func_state(fn, out, where):
    for attr in ('__defaults__', '__kwdefaults__'):
        v = getattr(fn, attr, None)
        if v:
            items = v.values() if isinstance(v, dict) else v
            if any(isinstance(x, (dict, list, set, bytearray)) for x in items):
                out.append('%s.%s=%s' % (where, attr, canon(v)))
    ci = getattr(fn, 'cache_info', None)
    if callable(ci):
        try:
            out.append('%s.cache=%r' % (where, tuple(ci())))
        except Exception:
            pass


def process_state():
    """Interpreter-wide state a decoder could leave behind: redirected streams, cwd, environment, sys.path, limits."""
    import locale
    import os
    env = hashlib.blake2b(repr(sorted(os.environ.items())).encode(), digest_size=6).hexdigest()
    try:
        cwd = os.getcwd()
    except OSError:
        cwd = '<gone>'
    try:
        loc = locale.setlocale(locale.LC_ALL)
    except Exception:
        loc = '?'
    return ['process.cwd=%s' % cwd, 'process.environ=%s' % env, 'process.sys.path=%s' % hashlib.blake2b(repr(sys.path).encode(), digest_size=6).hexdigest(),
            'process.stdout=%d' % id(sys.stdout), 'process.stderr=%d' % id(sys.stderr), 'process.stdin=%d' % id(sys.stdin),
            'process.recursionlimit=%d' % sys.getrecursionlimit(), 'process.locale=%s' % (loc,),
            'process.meta_path=%d' % len(sys.meta_path), 'process.excepthook=%d' % id(sys.excepthook)]


def snapshot():
    """-> sorted list of 'location=canonical value' strings"""
    out = process_state()
    for name in sorted(sys.modules):
        if not owned(name):
            continue
        mod = sys.modules[name]
        if mod is None:
            out.append('sys.modules[%s]=None' % name)
            continue
        if name.split('.')[0] in ('udparsers', 'srcparsers', 'calloutparsers'):
            out.append('loaded:' + name)
        for g, v in sorted(vars(mod).items()):
            if g in SKIP_GLOBALS:
                continue
            if isinstance(v, type):
                if getattr(v, '__module__', None) == name:
                    for a, av in sorted(vars(v).items()):
                        if a.startswith('__') and a.endswith('__'):
                            continue
                        if isinstance(av, (dict, list, set, bytearray)):
                            out.append('%s.%s.%s=%s' % (name, g, a, canon(av)))
                        elif isinstance(av, (types.FunctionType, functools._lru_cache_wrapper)):
                            _func_state(av, out, '%s.%s.%s' % (name, g, a))
                continue
            if isinstance(v, (types.FunctionType, functools._lru_cache_wrapper)):
                if getattr(v, '__module__', None) == name:
                    _func_state(v, out, '%s.%s' % (name, g))
                continue
            c = canon(v)
            if c is not None:
                out.append('%s.%s=%s' % (name, g, c))
    return out


def fingerprint():
    return hashlib.blake2b('\n'.join(snapshot()).encode(), digest_size=8).hexdigest()


# ---------------------------------------------------------------- snapshot / restore of the same state

import copy

_MISSING = object()


def _is_state(v):
    return not isinstance(v, (types.ModuleType, types.FunctionType, types.BuiltinFunctionType, types.MethodType, type,
                              functools._lru_cache_wrapper, _RE_TYPE))


def _restore_into(cur, saved):
    """Restore `cur` in place from `saved` when possible (keeps object identity for other references); returns
    True when done in place."""
    if isinstance(cur, dict) and isinstance(saved, dict) and type(cur) is type(saved):
        cur.clear()
        cur.update(copy.deepcopy(saved))
        return True
    if isinstance(cur, list) and isinstance(saved, list):
        cur[:] = copy.deepcopy(saved)
        return True
    if isinstance(cur, set) and isinstance(saved, set):
        cur.clear()
        cur.update(copy.deepcopy(saved))
        return True
    if isinstance(cur, bytearray) and isinstance(saved, bytearray):
        cur[:] = saved
        return True
    return False


class Snapshot:
    """Deep copy of all module-level / class-level mutable state of the owned packages, restorable in place."""

    def __init__(self):
        import os
        self.process = {'stdout': sys.stdout, 'stderr': sys.stderr, 'stdin': sys.stdin, 'environ': dict(os.environ),
                        'path': list(sys.path), 'recursionlimit': sys.getrecursionlimit(), 'excepthook': sys.excepthook}
        try:
            self.process['cwd'] = os.getcwd()
        except OSError:
            self.process['cwd'] = None
        self.modules = {}
        self.loaded = set(n for n in sys.modules if owned(n))
        for name in sorted(self.loaded):
            mod = sys.modules[name]
            if mod is None:
                continue
            g = {}
            for k, v in vars(mod).items():
                if k in SKIP_GLOBALS:
                    continue
                if isinstance(v, type) and getattr(v, '__module__', None) == name:
                    ca = {}
                    for a, av in vars(v).items():
                        if a.startswith('__') and a.endswith('__'):
                            continue
                        if isinstance(av, (dict, list, set, bytearray)):
                            ca[a] = copy.deepcopy(av)
                    g[k] = ('class', ca)
                elif isinstance(v, types.FunctionType):
                    if getattr(v, '__module__', None) == name and (v.__defaults__ or v.__kwdefaults__):
                        g[k] = ('func', copy.deepcopy(v.__defaults__), copy.deepcopy(v.__kwdefaults__))
                elif _is_state(v):
                    cls = type(v)
                    if owned(getattr(cls, '__module__', '') or '') and hasattr(v, '__dict__'):
                        g[k] = ('obj', copy.deepcopy(v.__dict__))
                    else:
                        try:
                            g[k] = ('val', copy.deepcopy(v))
                        except Exception:
                            pass
            self.modules[name] = g

    def restore(self):
        import os
        pr = self.process
        sys.stdout, sys.stderr, sys.stdin, sys.excepthook = pr['stdout'], pr['stderr'], pr['stdin'], pr['excepthook']
        if dict(os.environ) != pr['environ']:
            os.environ.clear()
            os.environ.update(pr['environ'])
        if sys.path != pr['path']:
            sys.path[:] = pr['path']
        if sys.getrecursionlimit() != pr['recursionlimit']:
            sys.setrecursionlimit(pr['recursionlimit'])
        if pr['cwd']:
            try:
                if os.getcwd() != pr['cwd']:
                    os.chdir(pr['cwd'])
            except OSError:
                os.chdir(pr['cwd'])
        for name in [n for n in sys.modules if owned(n) and n not in self.loaded]:
            del sys.modules[name]
            parent, _, leaf = name.rpartition('.')
            pm = sys.modules.get(parent)
            if pm is not None and hasattr(pm, leaf):
                try:
                    delattr(pm, leaf)
                except AttributeError:
                    pass
        for name, g in self.modules.items():
            mod = sys.modules.get(name)
            if mod is None:
                continue
            # globals that did not exist when the snapshot was taken
            for k in [k for k, v in vars(mod).items() if k not in g and k not in SKIP_GLOBALS and _is_state(v)
                      and not isinstance(v, types.ModuleType)]:
                delattr(mod, k)
            for k, item in g.items():
                cur = getattr(mod, k, _MISSING)
                if item[0] == 'val':
                    if cur is _MISSING or not _restore_into(cur, item[1]):
                        setattr(mod, k, copy.deepcopy(item[1]))
                elif item[0] == 'obj':
                    if cur is not _MISSING and hasattr(cur, '__dict__'):
                        cur.__dict__.clear()
                        cur.__dict__.update(copy.deepcopy(item[1]))
                elif item[0] == 'class' and isinstance(cur, type):
                    for a in [a for a, av in vars(cur).items() if not (a.startswith('__') and a.endswith('__'))
                              and isinstance(av, (dict, list, set, bytearray)) and a not in item[1]]:
                        delattr(cur, a)
                    for a, saved in item[1].items():
                        ca = cur.__dict__.get(a, _MISSING)
                        if ca is _MISSING or not _restore_into(ca, saved):
                            setattr(cur, a, copy.deepcopy(saved))
                elif item[0] == 'func' and isinstance(cur, types.FunctionType):
                    if item[1] is not None and cur.__defaults__ is not None and len(item[1]) == len(cur.__defaults__):
                        for c, sv in zip(cur.__defaults__, item[1]):
                            _restore_into(c, sv)
                    if item[2] and cur.__kwdefaults__:
                        for kk, sv in item[2].items():
                            if kk in cur.__kwdefaults__:
                                _restore_into(cur.__kwdefaults__[kk], sv)
        # functools caches of owned functions
        for name in self.loaded:
            mod = sys.modules.get(name)
            if mod is None:
                continue
            for v in list(vars(mod).values()):
                if isinstance(v, functools._lru_cache_wrapper):
                    v.cache_clear()
                elif isinstance(v, type) and getattr(v, '__module__', None) == name:
                    for av in vars(v).values():
                        if isinstance(av, functools._lru_cache_wrapper):
                            av.cache_clear()
