"""Entry point: python -m mc.run <id> [--tier quick|thorough] [--replay path]"""
import argparse
import importlib
import os
import sys

from mc import core


def main():
    ap = argparse.ArgumentParser()
    ap.add_argument('prop')
    ap.add_argument('--tier', default=os.environ.get('VERIF_TIER', 'quick'), choices=['quick', 'thorough'])
    ap.add_argument('--replay')
    ap.add_argument('--procs', type=int)
    args = ap.parse_args()
    seed = int(os.environ.get('VERIF_SEED', '0') or 0)
    core.setup_path()
    mod = importlib.import_module('mc.checks.' + args.prop.lower())
    if args.replay:
        sys.exit(core.run_replay(mod, args.replay))
    sys.exit(core.run_check(mod, args.tier, seed, args.procs))


if __name__ == '__main__':
    main()
