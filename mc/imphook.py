"""
sys.meta_path finder that (i) records every import attempted under the three plug-in packages and
(ii) serves fixture parser modules whose behaviour the harness controls.
"""
import importlib.abc
import importlib.machinery
import json
import sys

PKGS = ('udparsers', 'srcparsers', 'calloutparsers')
SHIPPED = {'udparsers.m2c00', 'udparsers.m2c00.m2c00', 'udparsers.oe500', 'udparsers.oe500.oe500',
           'srcparsers.osrc', 'srcparsers.osrc.osrc', 'srcparsers.oe500', 'srcparsers.oe500.oe500',
           'calloutparsers.ocallouts', 'calloutparsers.ocallouts.ocallouts'}

IMPORTS = []      # every name looked up under the plug-in packages
CALLS = []        # (module, function, args...)
BEHAVIOUR = {}    # leaf module name -> behaviour
STATE = {'serve_all': False, 'installed': False, 'override_shipped': False}


class FixtureError(ValueError):
    pass


def respond(fullname, beh, payload):
    """Return value of a fixture parser for behaviour `beh`."""
    if beh == 'by-payload':
        # first payload byte selects the behaviour, so one module can serve good and bad sections
        sel = {0x00: 'obj', 0x01: 'raise', 0x02: 'importerror', 0x03: 'none', 0x04: 'null', 0x05: 'empty',
               0x06: 'list', 0x07: 'str', 0x08: 'nan', 0x09: 'overflow', 0x0A: 'deep', 0x0B: 'hugeint',
               0x0C: 'blank', 0x0D: 'newline', 0x0E: 'nullnl', 0x0F: 'nullsp'}
        beh = sel.get(payload[0] if len(payload) else 0, 'obj')
    if beh == 'obj':
        return json.dumps({'Fixture': fullname.split('.')[-1], 'Payload': bytes(payload).hex()})
    if beh == 'list':
        return json.dumps(['fixture', bytes(payload).hex()])
    if beh == 'str':
        return json.dumps('fixture:' + bytes(payload).hex())
    if beh == 'num':
        return json.dumps(len(payload))
    if beh == 'none':
        return None
    if beh == 'null':
        return 'null'
    if beh == 'empty':
        return ''
    # "nothing" with white space around it (the empty output of an external tool, a JSON null followed by a line feed)
    if beh == 'blank':
        return ' '
    if beh == 'newline':
        return '\r\n'
    if beh == 'nullnl':
        return 'null\n'
    if beh == 'nullsp':
        return ' null '
    if beh == 'badjson':
        return '{not json'
    # text that Python's json.loads accepts but that cannot be printed again as (strict) JSON inside the PEL document
    if beh == 'nan':
        return '{"v": NaN, "w": [Infinity, -Infinity]}'
    if beh == 'overflow':
        return '{"v": 1e999, "ok": 1}'
    if beh == 'deep':
        return '[' * 1200 + ']' * 1200
    if beh == 'hugeint':
        return '{"n": ' + '7' * 5000 + '}'
    if beh == 'raise':
        raise FixtureError("fixture parser failure: unexpected record {'id': 7, 'len': 3} {} {0} %s %d 100% {")
    if beh == 'importerror':
        raise ImportError('fixture parser needs a module that is not installed')
    if beh == 'keyerror':
        raise KeyError('fixture')
    raise RuntimeError('unknown fixture behaviour %r' % (beh,))


class _Loader(importlib.abc.Loader):
    def __init__(self, fullname, is_pkg):
        self.fullname = fullname
        self.is_pkg = is_pkg

    def create_module(self, spec):
        return None

    def exec_module(self, module):
        name = self.fullname
        if self.is_pkg:
            module.__path__ = []
            return
        beh = BEHAVIOUR.get(name, 'obj')
        if beh == 'import-raises':
            raise RuntimeError('fixture module fails while being imported')
        if beh == 'import-importerror':
            raise ImportError('fixture module has a missing dependency')
        if beh == 'import-missing-dependency':
            importlib.import_module('fixture_dependency_that_is_not_installed')

        def parseUDToJson(subtype, version, data):
            b = bytes(data)
            CALLS.append((name, 'parseUDToJson', subtype, version, b.hex(), type(data).__name__))
            return respond(name, BEHAVIOUR.get(name, 'obj'), b)

        def parseSRCToJson(refcode, w2, w3, w4, w5, w6, w7, w8, w9):
            CALLS.append((name, 'parseSRCToJson', refcode, w2, w3, w4, w5, w6, w7, w8, w9))
            beh = BEHAVIOUR.get(name, 'obj')
            if beh == 'by-payload':
                # word 9 low byte selects
                return respond(name, beh, bytes([int(w9, 16) & 0xff]))
            return respond(name, beh, (refcode + w2).encode())

        def getMaintProcDesc(procedure):
            CALLS.append((name, 'getMaintProcDesc', procedure))
            beh = BEHAVIOUR.get(name, 'obj')
            if beh == 'by-payload':
                if procedure.startswith('RAISE'):
                    raise FixtureError("fixture callouts failure: {'proc': %r} {} %s {" % procedure)
                if procedure.startswith('IMPERR'):
                    raise ImportError('fixture callouts parser needs a module that is not installed')
                if procedure.startswith('NONE'):
                    return ''
                return json.dumps(['fixture description of ' + procedure])
            if beh in ('raise', 'importerror', 'keyerror', 'nan', 'overflow', 'deep', 'hugeint'):
                return respond(name, beh, b'')
            if beh in ('none', 'empty'):
                return ''
            return json.dumps(['fixture description of ' + procedure])

        module.parseUDToJson = parseUDToJson
        module.parseSRCToJson = parseSRCToJson
        module.getMaintProcDesc = getMaintProcDesc


class Finder(importlib.abc.MetaPathFinder):
    def find_spec(self, fullname, path=None, target=None):
        parts = fullname.split('.')
        if parts[0] not in PKGS or len(parts) == 1:
            return None
        IMPORTS.append(fullname)
        if fullname in SHIPPED and not STATE['override_shipped']:
            return None
        leaf = '.'.join(parts[:2] + [parts[1]]) if len(parts) >= 2 else fullname
        wanted = STATE['serve_all'] or leaf in BEHAVIOUR
        if not wanted or BEHAVIOUR.get(leaf) == 'absent':
            return None
        if len(parts) == 2:
            return importlib.machinery.ModuleSpec(fullname, _Loader(fullname, True), is_package=True)
        if len(parts) == 3 and parts[1] == parts[2]:
            return importlib.machinery.ModuleSpec(fullname, _Loader(fullname, False))
        return None


_finder = Finder()


def install(serve_all=False, behaviour=None, override_shipped=False):
    reset_logs()
    BEHAVIOUR.clear()
    BEHAVIOUR.update(behaviour or {})
    STATE['serve_all'] = serve_all
    STATE['override_shipped'] = override_shipped
    if _finder not in sys.meta_path:
        sys.meta_path.insert(0, _finder)
    STATE['installed'] = True


def uninstall():
    if _finder in sys.meta_path:
        sys.meta_path.remove(_finder)
    STATE['installed'] = False
    BEHAVIOUR.clear()


def reset_logs():
    del IMPORTS[:]
    del CALLS[:]


def forget_modules():
    """Drop fixture/plug-in modules from sys.modules and the decoder's own parser caches."""
    for name in list(sys.modules):
        p = name.split('.')
        if p[0] in PKGS and len(p) > 1:
            del sys.modules[name]
    for modname, attr in (('pel.peltool.parse_user_data', 'userDataParsers'), ('pel.peltool.src', 'srcParsers'),
                          ('pel.peltool.src', 'calloutParsers'), ('srcparsers.osrc.osrc', 'osrcParsers')):
        m = sys.modules.get(modname)
        if m is not None and isinstance(getattr(m, attr, None), dict):
            getattr(m, attr).clear()
