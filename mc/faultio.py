"""
E3 fault / crash enumerator for the CLI's write path.

A genuine io.TextIOWrapper(io.BufferedWriter(FaultyRaw)) stack is handed to the code under test, so CPython's own
buffering is kept and only the raw sink misbehaves.  Every environment interaction (open, raw write, close, remove)
is one numbered op; a schedule maps op numbers to deviations.
"""
import errno
import io
import os


class Crash(BaseException):
    """Process death at an op: unwinds everything, nothing is flushed afterwards."""


class World:
    def __init__(self, schedule=None, chunk=0):
        self.schedule = schedule or {}     # op index -> ('fault', errno) | ('short',) | ('crash-before',) | ('crash-after',)
        self.chunk = chunk                 # raw sink accepts at most this many bytes per write (0 = unbounded)
        self.log = []                      # (kind, name, detail)
        self.sinks = {}                    # name -> bytearray of what reached the device
        self.closed_ok = {}                # name -> True once close succeeded
        self.failed = {}                   # name -> True if any op on it failed
        self.crashed = False

    def op(self, kind, name):
        """Register the next op; returns its deviation (or None).  Raises for faults / crash-before."""
        i = len(self.log)
        self.log.append((kind, name))
        dev = self.schedule.get(i)
        if dev is None:
            return None
        if dev[0] == 'fault':
            self.failed[name] = True
            raise OSError(dev[1], os.strerror(dev[1]) + ' (injected at op %d %s %s)' % (i, kind, name))
        if dev[0] == 'crash-before':
            self.crashed = True
            raise Crash('crash before op %d %s %s' % (i, kind, name))
        return dev

    def after(self, dev, kind, name):
        if dev is not None and dev[0] == 'crash-after':
            self.crashed = True
            raise Crash('crash after op %s %s' % (kind, name))


class FaultyRaw(io.RawIOBase):
    def __init__(self, world, name, real_path=None, opener=None):
        super().__init__()
        self.world = world
        self.name_ = name
        self.real_path = real_path
        self.fd = None
        if real_path is not None:
            flags = os.O_WRONLY | os.O_CREAT | os.O_TRUNC
            # an opener the code passes to open() decides how the file on disk is really opened (what it does with the
            # flags of mode 'w' - truncation, permissions - shows in the file the verdict reads back)
            self.fd = opener(real_path, flags | getattr(os, 'O_CLOEXEC', 0)) if opener else os.open(real_path, flags, 0o644)
        world.sinks[name] = bytearray()
        self._done = False

    def writable(self):
        return True

    def fileno(self):
        if self.fd is None:
            raise io.UnsupportedOperation('fileno')
        return self.fd

    def write(self, b):
        if self._done:
            raise ValueError('write to closed file')
        b = bytes(b)
        dev = self.world.op('write', self.name_)
        n = len(b)
        if self.world.chunk:
            n = min(n, self.world.chunk)
        if dev is not None and dev[0] == 'short':
            n = max(1, n // 2)
        if self.fd is not None:
            os.write(self.fd, b[:n])
        self.world.sinks[self.name_] += b[:n]
        self.world.after(dev, 'write', self.name_)
        return n

    def close(self):
        if self._done:
            return
        self._done = True
        try:
            dev = self.world.op('close', self.name_)
        finally:
            if self.fd is not None:
                os.close(self.fd)
                self.fd = None
            super().close()
        if not self.world.failed.get(self.name_):
            self.world.closed_ok[self.name_] = True
        self.world.after(dev, 'close', self.name_)

    def __del__(self):
        # finaliser must never add ops
        self._done = True
        if self.fd is not None:
            try:
                os.close(self.fd)
            except OSError:
                pass
            self.fd = None


def make_open(world, real_open=open):
    """Replacement for the builtin open inside the module under test."""
    def fake_open(path, mode='r', buffering=-1, *a, **kw):
        if 'w' in mode or 'a' in mode or '+' in mode:
            name = os.path.basename(path)
            world.op('open', name)
            raw = FaultyRaw(world, name, path, opener=kw.get('opener'))
            # the layering the code asked for is kept: an unbuffered binary file IS the raw sink (its write() may be short)
            if buffering == 0:
                if 'b' not in mode:
                    raise ValueError("can't have unbuffered text I/O")
                return raw
            buffered = io.BufferedWriter(raw, buffer_size=buffering if buffering > 1 else 8192)
            if 'b' in mode:
                return buffered
            return io.TextIOWrapper(buffered, encoding=kw.get('encoding') or 'utf-8', errors=kw.get('errors'),
                                    newline=kw.get('newline'), line_buffering=(buffering == 1))
        return real_open(path, mode, buffering, *a, **kw)
    return fake_open


def make_stdout(world, name='<stdout>', line_buffering=False, buffer_size=8192, backing_path=None):
    """backing_path: a scratch file that gives the stream a real descriptor (code that calls fileno()/dup2 on stdout works)"""
    raw = FaultyRaw(world, name, backing_path)
    return io.TextIOWrapper(io.BufferedWriter(raw, buffer_size=buffer_size), encoding='utf-8', line_buffering=line_buffering)


FAULT_ERRNOS = [errno.ENOSPC, errno.EIO, errno.EPIPE]


def deviations_for(log):
    """All single deviations of a recorded fault-free trace."""
    devs = []
    for i, (kind, name) in enumerate(log):
        for e in FAULT_ERRNOS:
            devs.append((i, ('fault', e)))
        if kind == 'write':
            devs.append((i, ('short',)))
        devs.append((i, ('crash-before',)))
        devs.append((i, ('crash-after',)))
    return devs
