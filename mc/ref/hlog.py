"""Reference model of the history-log output, written from the statement."""


def field_lines(data, fields):
    """fields: [(name, size)] -> the 'name: 0x..' lines for non-zero big-endian values, contiguous from offset 0,
    stopping at the first field that does not fit."""
    out = []
    off = 0
    for name, size in fields:
        if off + size > len(data):
            break
        v = int.from_bytes(data[off:off + size], 'big')
        off += size
        if v != 0:
            out.append('%s: 0x%0*X' % (name, 2 * size, v))
    return out


def split_output(lines):
    """-> (dump lines, field lines) or raises ValueError when the frame is not as stated."""
    if lines[:2] != ['Hex Dump', '--------']:
        raise ValueError('missing hex dump heading: %r' % lines[:2])
    try:
        blank = lines.index('', 2)
    except ValueError:
        raise ValueError('no blank line after the hex dump')
    if lines[blank + 1:blank + 3] != ['Non-Zero Field Values', '---------------------']:
        raise ValueError('missing field heading: %r' % lines[blank:blank + 3])
    return lines[2:blank], lines[blank + 3:]
