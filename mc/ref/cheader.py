"""
Independent reader/writer for the generated C header files (PTE table, history-log field table).
A small hand-written scanner; shares no regular expression with io_drawer.ilog / io_drawer.hlog.
"""


def _scan(line):
    """Tokenise one C initialiser line into nested lists: strings -> str, numbers -> int, braces -> list."""
    pos = 0
    n = len(line)

    def parse_list():
        nonlocal pos
        items = []
        while pos < n:
            c = line[pos]
            if c in ' \t\r\n,':
                pos += 1
            elif c == '{':
                pos += 1
                items.append(parse_list())
            elif c == '}':
                pos += 1
                return items
            elif c == '"':
                pos += 1
                buf = []
                while pos < n and line[pos] != '"':
                    if line[pos] == '\\' and pos + 1 < n:
                        buf.append(line[pos:pos + 2])
                        pos += 2
                    else:
                        buf.append(line[pos])
                        pos += 1
                pos += 1
                items.append(''.join(buf))
            elif c.isdigit():
                j = pos
                while j < n and line[j].isdigit():
                    j += 1
                items.append(int(line[pos:j]))
                pos = j
            elif c == ';':
                pos += 1
                items.append(';')
            else:
                j = pos
                while j < n and line[j] not in ' \t\r\n,{}";':
                    j += 1
                items.append(('ident', line[pos:j]))
                pos = j
        return items

    return parse_list()


def read_pte_table(path):
    """-> [(pattern, message (blanks stripped, \\" unescaped), params tuple (1..4 only))] in file order"""
    out = []
    inside = False
    with open(path, encoding='utf-8') as f:
        for line in f:
            if 'static_pte_entry_table' in line and '=' in line:
                inside = True
                continue
            if not inside:
                continue
            if '"The End"' in line:
                inside = False
                continue
            toks = _scan(line)
            if len(toks) == 1 and isinstance(toks[0], list):
                e = toks[0]
                if len(e) == 5 and isinstance(e[0], str) and isinstance(e[1], str) and isinstance(e[2], list) \
                        and isinstance(e[3], str) and isinstance(e[4], int) and e[0] != '':
                    params = tuple(p for p in e[2] if isinstance(p, int) and 1 <= p <= 4)
                    out.append((e[0], e[1].strip().replace('\\"', '"'), params))
    return out


def declared_pte_table_size(path):
    with open(path, encoding='utf-8') as f:
        for line in f:
            p = line.split()
            if len(p) == 3 and p[0] == '#define' and p[1] == 'PTE_TABLE_SIZE':
                return int(p[2])
    return None


def read_hlog_fields(path):
    """-> [(name, size)] in file order"""
    out = []
    inside = False
    with open(path, encoding='utf-8') as f:
        for line in f:
            if 'mex_hlog_fields' in line and '=' in line:
                inside = True
                continue
            if not inside:
                continue
            toks = _scan(line)
            if toks and toks[-1] == ';':
                inside = False
                continue
            if len(toks) == 1 and isinstance(toks[0], list) and len(toks[0]) == 2:
                size, name = toks[0]
                if size in (1, 2) and isinstance(name, str) and name:
                    out.append((name, size))
    return out


def write_header(path, pte_entries=(), hlog_fields=(), static=True, brace_same_line=False, end_line='};', decoy=False,
                 decoy_before=False):
    """pte_entries: [(pattern, raw C message text, params list)]; hlog_fields: [(name, size)]"""
    L = ['// synthetic header written by the verification harness', '', '#define MAX_PTE_LENGTH 9',
         'struct pte_entry_struct', '{', '  char key[MAX_PTE_LENGTH];', '  char format[150];', '  uint8_t params[2];',
         '  char file[128];', '  uint32_t line;', '};', '', '#define PTE_TABLE_SIZE %d' % (len(pte_entries) + 1), '']
    if decoy_before:
        # an example entry of either table in the leading comment, and arrays of the same struct types in front of the
        # tables (a retired table kept for reference): none of these lines is part of a table
        L[1:1] = ['/* one entry per line, for example', '  { "********", "example entry %d", {3}, "example.cpp", 1 },',
                  '  { 1, "example_counter" },', '*/']
        L += ['static struct pte_entry_struct retired_pte_entries[2] =', '{',
              '  { "********", "retired catch-all entry", {}, "old.cpp", 1 },', '  { ""        , "The End" }', '};', '',
              'struct mex_hlog_field;', 'static struct mex_hlog_field retired_hlog_layout[2] =', '{', '  { 2, "retired_a" },',
              '  { 1, "retired_b" },', '};', '']
    start = ('static ' if static else '') + 'struct pte_entry_struct static_pte_entry_table[PTE_TABLE_SIZE] = '
    if brace_same_line:
        L.append(start + '{')
    else:
        L += [start, '{']
    for i, (pat, msg, params) in enumerate(pte_entries):
        L.append('  { "%s", "%s", {%s}, "file%d.cpp", %d },' % (pat, msg, ', '.join(str(p) for p in params), i, 100 + i))
        if decoy_before and i == 0:
            # a blanked-out entry (empty key) inside the table is no entry and does not end the table either
            L.append('  { "", "Retired: was the second entry", {}, "retired.cpp", 530 },')
    L += ['  { ""        , "The End" }', '};', '', '#define MEX_HLOG_FIELD_DESC_LEN 26', '', 'struct mex_hlog_field', '{',
          '  uint8_t size;', '  char description[MEX_HLOG_FIELD_DESC_LEN];', '};', '',
          '#define MEX_HLOG_FIELD_COUNT %d' % len(hlog_fields), '']
    start = ('static ' if static else '') + 'struct mex_hlog_field mex_hlog_fields[MEX_HLOG_FIELD_COUNT] ='
    if brace_same_line:
        L.append(start + ' {')
    else:
        L += [start, '{']
    for name, size in hlog_fields:
        L.append('  { %d, "%s" }, ' % (size, name))
    L += [end_line, '']
    if decoy:
        # another array of the same struct type behind the table: its entries are not history-log fields
        L += ['static struct mex_hlog_field mex_hlog_spare_fields[2] =', '{', '  { 1, "spare_a" },', '  { 2, "spare_b" },', '};', '']
    with open(path, 'w', encoding='utf-8') as f:
        f.write('\n'.join(L))
