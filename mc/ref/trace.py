"""Reference trace-buffer decoder, written from the property statement (no code shared with io_drawer.trace)."""
import struct

INDENT = ' ' * 20
TAG_TRACE = 0x4654
TAG_BIN = 0x4644


def read_string_file(path):
    """-> [(hash, format, location)] in file order"""
    out = []
    with open(path) as f:
        for line in f:
            line = line.rstrip('\n')
            parts = line.split('||')
            if len(parts) < 3:
                continue
            h = parts[0].strip()
            if not h or not all(c in '0123456789' for c in h):
                continue
            out.append((int(h), '||'.join(parts[1:-1]).strip(), parts[-1].strip()))
    return out


def lookup(strings, h):
    """-> (entry, partial?) : first exact match, else last partial (same hash modulo 100000), else (None, False)"""
    partial = None
    for s in strings:
        if s[0] == h:
            return s, False
        if s[0] % 100000 == h % 100000:
            partial = s
    return partial, partial is not None


def fmt_time(ts):
    if ts == 0xFFFF:
        return '--------'
    return '%2d:%02d:%02d' % (ts // 3600, (ts % 3600) // 60, ts % 60)


def decode(data, strings):
    """
    -> None when no 32-byte header can be read, else
       {'header': [4 lines], 'entries': [{'line': str, 'warning': str|None, 'dump': bytes|None}]}
    """
    if len(data) < 32:
        return None
    ver = data[0]
    comp = bytes(b for b in data[4:16] if b < 0x80).decode('ascii').rstrip('\0').rstrip(' ')
    size, wrap, _next = struct.unpack('>III', data[20:32])
    res = {'header': ['Component: %s' % comp, 'Version: %d' % ver, 'Size: %d' % size, 'Times Wrapped: %d' % wrap], 'entries': []}
    off = 32
    while off < size:
        if off + 16 > len(data):
            break
        tbh, tbl, length, tag, h, line = struct.unpack('>HHHHII', data[off:off + 16])
        if length > 1024:
            break
        padded = (length + 3) // 4 * 4
        end = off + 16 + padded + 4
        if end > len(data):
            break
        payload = data[off + 16:off + 16 + length]
        trailer = struct.unpack('>I', data[end - 4:end])[0]
        if trailer != end - off:
            break
        s, partial = lookup(strings, h)
        binary = tag == TAG_BIN
        if s is not None:
            args = () if binary else tuple(struct.unpack('>I', payload[i * 4:i * 4 + 4])[0] for i in range(min(5, length // 4)))
            try:
                msg = s[1] % args
            except Exception:
                msg = s[1]
        else:
            msg = 'No trace string found with hash value %d' % h
        e = {'line': '%s %04X %5d %s' % (fmt_time(tbh), tbl, line, msg),
             'warning': (INDENT + 'Warning: Partial match with trace string from ' + s[2]) if partial else None,
             'dump': payload if (binary or s is None or partial) else None}
        res['entries'].append(e)
        off = end
    return res
