"""Reference model for hardware-diagnostics signatures and register dumps, written from the statement."""


def split_signature(sig12):
    """12 bytes -> field values taken from the stated byte positions"""
    return {'model_ec': sig12[0:4].hex(), 'chip_pos': int.from_bytes(sig12[4:6], 'big'), 'node': sig12[6],
            'attn': sig12[7], 'sig_id': sig12[8:10].hex(), 'inst': sig12[10], 'bit': sig12[11]}


def _get(d, *keys):
    for k in keys:
        if not isinstance(d, dict) or k not in d:
            return None
        d = d[k]
    return d


def _item(entry, i):
    """i-th element of a [name, table] entry, None when the data file has no such element (partial data)"""
    return entry[i] if isinstance(entry, list) and len(entry) > i else None


def chip_desc(data, model_ec, node, chip_pos):
    chip = data.get(model_ec.lower())
    typ = _get(chip, 'model_ec', 'type')
    desc = _get(chip, 'model_ec', 'desc')
    return 'node %d %s %d (%s)' % (node, typ if typ is not None else 'unknown', chip_pos,
                                   desc if desc is not None else model_ec.upper())


def signature_doc(data, sig12):
    """data: {model_ec id (lower case): chip data dict}"""
    f = split_signature(sig12)
    chip = data.get(f['model_ec'].lower())
    sig = _get(chip, 'signatures', f['sig_id'].lower())
    name = _item(sig, 0) if _item(sig, 0) is not None else 'id:' + f['sig_id'].upper()
    desc = _get(_item(sig, 1), str(f['bit']))
    attn = _get(chip, 'attn_types', str(f['attn']))
    return {'Chip Desc': chip_desc(data, f['model_ec'], f['node'], f['chip_pos']),
            'Signature': '%s(%d)[%s] %s' % (name, f['inst'], f['bit'], desc if desc is not None else ''),
            'Attn Type': attn if attn is not None else str(f['attn'])}


def reg_info(data, model_ec, reg_id, inst):
    chip = data.get(model_ec.lower())
    reg = _get(chip, 'registers', reg_id.lower())
    name = _item(reg, 0) if _item(reg, 0) is not None else 'id:%s inst:%s' % (reg_id.upper(), inst)
    addr = _get(_item(reg, 1), str(inst))
    return name, int(addr, 16) if addr is not None else 0
