"""Reference ILOG decoder, written from the property statement (no code shared with io_drawer.ilog)."""
HEAD = ['hh:mm:ss seq  pppppppp description', '-------- ---- -------- ------------------------------------']


def fmt_time(ts):
    if ts == 0xFFFF:
        return '--------'
    return '%2d:%02d:%02d' % (ts // 3600, (ts % 3600) // 60, ts % 60)


def pattern_matches(pattern, pte):
    h = '%08X' % pte
    if len(pattern) != 8:
        return False
    for pc, hc in zip(pattern, h):
        if pc != '*' and pc.upper() != hc:
            return False
    return True


def is_reported_error(pte):
    return (pte >> 28) == 0xE and bool(pte & 0x00040000)


def describe(pte, table):
    """table: [(pattern, message, params)]"""
    for pattern, message, params in table:
        hit = pattern_matches(pattern, pte)
        if not hit and is_reported_error(pte):
            hit = pattern_matches(pattern, pte & ~0x00040000)
        if hit:
            b = pte.to_bytes(4, 'big')
            args = tuple(b[p - 1] for p in params)
            try:
                text = message % args
            except Exception:
                text = message
            break
    else:
        text = 'Undefined'
    if is_reported_error(pte):          # 'exactly when the PTE is a reported error', whatever the description
        text += ' - PEL entry created'
    return text


def decode(data, table):
    lines = list(HEAD)
    for off in range(0, len(data) - 7, 8):
        e = data[off:off + 8]
        if e == bytes(8):
            continue
        ts = int.from_bytes(e[0:2], 'big')
        seq = int.from_bytes(e[2:4], 'big')
        pte = int.from_bytes(e[4:8], 'big')
        lines.append('%s %04X %08X %s' % (fmt_time(ts), seq, pte, describe(pte, table)))
    return lines
