"""Reference model of PEL selection, written from the property statement in set form."""
GROUP_DIGIT = {'Informational': 0, 'Recovered': 1, 'Predictive': 2, 'Unrecoverable': 4, 'Critical': 5, 'Diagnostic': 6,
               'Symptom': 7}
TERMINATING = 0x51


def hidden(flags):
    return bool(flags & 0x4000)


def serviceable(sev, flags):
    if sev != 0:
        return bool(flags & 0x2000) and not hidden(flags)
    return bool(flags & 0x8000)


def in_group(sev, digit):
    return (sev >> 4) == digit


def selected(sev, flags, every=False, s=False, N=False, H=False, t=False, only=False, groups=(), lookup=False):
    """groups: iterable of group digits.  lookup: an id/SRC look-up is being made."""
    hid = hidden(flags)
    srv = serviceable(sev, flags)
    if every:
        return True
    any_option = s or N or H or t or only or bool(groups)
    if lookup and not any_option:
        return True
    in_class = (s and srv) or (N and not srv) or (H and hid)
    in_grp = any(in_group(sev, g) for g in groups)
    term = t and sev == TERMINATING
    if not only:
        return (srv and not hid) or in_class or term or in_grp
    classes = s or N or H
    if term:
        return True
    if not (classes or groups):
        return False
    return (not classes or in_class) and (not groups or in_grp)
