"""
Independent hex-dump reader and template renderer (shares no code with pel.hexdump).
"""
import math


def field_width(bpl, bpc):
    return bpl * 2 + 2 * math.ceil(bpl / bpc) - 2


def read_default(lines, bpl=16, bpc=4):
    """Recover the bytes from a dump in the default layout: 8-digit offset, 5 blanks, hex field, 5 blanks, text."""
    out = bytearray()
    w = field_width(bpl, bpc)
    for ln in lines:
        if len(ln) < 13:
            raise ValueError('short dump line %r' % ln)
        off = int(ln[0:8], 16)
        if off != len(out):
            raise ValueError('offset %d does not continue %d' % (off, len(out)))
        if ln[8:13] != '     ':
            raise ValueError('bad separator in %r' % ln)
        hexpart = ln[13:13 + w].replace(' ', '')
        out += bytes.fromhex(hexpart)
    return bytes(out)


def read_indented(lines, indent):
    return read_default([ln[len(indent):] for ln in lines])


def _txt(b):
    return chr(b) if 0x20 <= b <= 0x7e else '.'


def render(data, fmt, pad_short=True, upper=True):
    """Render bytes with a template of A (address digit), D (data digit), C (text char), literals."""
    n_addr = fmt.count('A')
    bpl = fmt.count('D') // 2
    lines = []
    for off in range(0, len(data), bpl):
        row = data[off:off + bpl]
        digits = ''.join('%02X' % b for b in row)
        if not upper:
            digits = digits.lower()
        addr = ('%0' + str(n_addr) + 'X') % off if n_addr else ''
        if not upper:
            addr = addr.lower()
        ai = di = ci = 0
        s = []
        last_digit_pos = -1
        for pos, ch in enumerate(fmt):
            if ch == 'A':
                s.append(addr[ai]); ai += 1
            elif ch == 'D':
                if di < len(digits):
                    s.append(digits[di]); last_digit_pos = pos
                else:
                    s.append(' ')
                di += 1
            elif ch == 'C':
                s.append(_txt(row[ci]) if ci < len(row) else ' ')
                ci += 1
            else:
                s.append(ch)
        line = ''.join(s)
        if len(row) < bpl and not pad_short:
            line = line[:last_digit_pos + 1]
        lines.append(line)
    return lines
