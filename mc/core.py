"""
Shared runner for all property checks.

A check module (mc/checks/cNN.py) provides

    PROPERTY   'C13'
    LEVEL      'exploration' | 'fault_enumeration' | 'model_checking'
    RULE       text: how cases are enumerated, what makes one non-trivial
    ASSUMPTIONS list of str
    plan(tier, seed)      -> list of JSON-able chunk descriptors (disjoint sub-spaces)
    run_chunk(chunk)      -> ChunkResult (see below); runs in a worker process
    eval_case(case)       -> list of violation dicts for ONE case (used by --replay)
    finish(tier, seed, agg) -> optional dict of extra coverage keys / violations
                               (conformance passes, subprocess replays); runs in parent

A violation is {'key': <classifier key>, 'what': <one line>, 'case': <JSON-able replay>}.
'key' is matched against /verif/known_findings.json (status 'known' only).
"""
import hashlib
import json
import multiprocessing as mp
import os
import signal
import subprocess
import sys
import time
import traceback

VERIF = os.path.dirname(os.path.dirname(os.path.abspath(__file__)))
REPO = os.environ.get('VERIF_REPO', '/repo')
MODULES = os.path.join(REPO, 'modules')
FIXTURES = os.path.join(VERIF, 'fixtures')
PY = '/venv/bin/python'
CASE_TIMEOUT_S = 5.0


def setup_path():
    sys.dont_write_bytecode = True
    if MODULES in sys.path:
        sys.path.remove(MODULES)
    sys.path.insert(0, MODULES)


class CaseTimeout(BaseException):
    """Raised by the alarm; BaseException so that `except Exception` in the code under test cannot eat it."""


def _on_alarm(signum, frame):
    raise CaseTimeout()


def arm(seconds=CASE_TIMEOUT_S):
    signal.signal(signal.SIGALRM, _on_alarm)
    signal.setitimer(signal.ITIMER_REAL, seconds)


def disarm():
    signal.setitimer(signal.ITIMER_REAL, 0)


class ChunkResult:
    """Accumulator a chunk fills in; converted to a plain dict for transport."""

    MAX_VIOL = 40
    MAX_SAMPLES = 2

    def __init__(self):
        self.evals = 0
        self.nontrivial = set()      # short hashes of distinct non-trivial cases
        self.nontrivial_count = 0    # for huge disjoint spaces (no per-case hash kept)
        self.outcomes = set()
        self.violations = []
        self.viol_total = 0
        self.samples = []
        self.extra = {}

    def case(self, nontrivial_key=None, outcome=None, sample=None):
        self.evals += 1
        if nontrivial_key is not None:
            self.nontrivial.add(h8(nontrivial_key))
        if outcome is not None:
            self.outcomes.add(outcome)
        if sample is not None and len(self.samples) < self.MAX_SAMPLES:
            self.samples.append(sample)

    def violation(self, key, what, case):
        self.viol_total += 1
        # keep at most a few per key so known-findings floods do not hide a new key
        n_same = sum(1 for v in self.violations if v['key'] == key)
        if n_same < 3 and len(self.violations) < self.MAX_VIOL:
            self.violations.append({'key': key, 'what': what, 'case': case})

    def add(self, viols):
        for v in viols:
            self.violation(v['key'], v['what'], v['case'])

    def bump(self, name, n=1):
        self.extra[name] = self.extra.get(name, 0) + n

    def to_dict(self):
        return {'evals': self.evals, 'nontrivial': sorted(self.nontrivial),
                'nontrivial_count': self.nontrivial_count,
                'outcomes': sorted(self.outcomes), 'violations': self.violations,
                'viol_total': self.viol_total, 'samples': self.samples, 'extra': self.extra}


def h8(obj):
    if not isinstance(obj, (bytes, bytearray)):
        obj = repr(obj).encode()
    return hashlib.blake2b(obj, digest_size=6).hexdigest()


def _worker_init():
    setup_path()
    signal.signal(signal.SIGINT, signal.SIG_IGN)
    if not os.environ.get('VERIF_DEBUG'):
        # decoder diagnostics on stderr are never compared; harness errors travel back as data
        dn = os.open(os.devnull, os.O_WRONLY)
        os.dup2(dn, 2)


def _worker(args):
    modname, chunk = args
    import importlib
    mod = importlib.import_module(modname)
    try:
        arm(max(600.0, CASE_TIMEOUT_S))   # chunk-level backstop; checks arm per case themselves
        res = mod.run_chunk(chunk)
        disarm()
        return res.to_dict() if isinstance(res, ChunkResult) else res
    except CaseTimeout:
        r = ChunkResult()
        r.violation('harness:chunk-timeout', 'chunk did not finish within backstop', {'chunk': chunk})
        return r.to_dict()
    except BaseException as e:
        disarm()
        v = _implementation_raised(mod, chunk, e)
        if v is not None:
            return v
        # harness error: must be loud
        return {'harness_error': ''.join(traceback.format_exception(type(e), e, e.__traceback__)),
                'chunk': chunk}


def _implementation_raised(mod, chunk, e):
    """An ordinary exception that escapes from the code under test (innermost frame inside the repository's modules) on an
    input the check generated: wherever a check tolerates exceptions it catches them itself, so here the property demanded
    a result.  Reported as a violation (replayable by re-running the chunk) instead of a harness error."""
    if not isinstance(e, Exception):
        return None
    tb = traceback.extract_tb(e.__traceback__)
    if not tb:
        return None
    root = os.path.realpath(os.path.join(REPO, 'modules')) + os.sep
    here = os.path.realpath(VERIF) + os.sep
    # the exception left the harness through the repository's code: the frame right below the last harness frame is the
    # implementation's (the innermost frame may be the standard library's, e.g. re.error raised inside re.sub)
    harness = [i for i, fr in enumerate(tb) if os.path.realpath(fr.filename).startswith(here)]
    if not harness or harness[-1] + 1 >= len(tb) or not os.path.realpath(tb[harness[-1] + 1].filename).startswith(root):
        return None
    last = [fr for fr in tb if os.path.realpath(fr.filename).startswith(root)][-1]
    r = ChunkResult()
    r.evals = 1
    r.outcomes.add('implementation-raised')
    r.violation('%s:implementation-raised' % mod.PROPERTY,
                'the code under test raised %s: %s at %s:%d (%s) on an input of the stated domain, where the check expects a '
                'result' % (type(e).__name__, e, os.path.relpath(os.path.realpath(last.filename), os.path.realpath(REPO)),
                            last.lineno, last.name), {'chunk': chunk})
    return r.to_dict()


def load_known(prop):
    path = os.path.join(VERIF, 'known_findings.json')
    if not os.path.exists(path):
        return []
    with open(path) as f:
        return [e for e in json.load(f) if e.get('property') == prop and e.get('status') == 'known']


def rotate(seq, seed):
    seq = list(seq)
    if not seq:
        return seq
    k = seed % len(seq)
    return seq[k:] + seq[:k]


def run_check(mod, tier, seed, procs=None):
    """Run one check; returns exit status."""
    t0 = time.time()
    prop = mod.PROPERTY
    procs = procs or int(os.environ.get('VERIF_PROCS', os.cpu_count() or 4))
    chunks = rotate(mod.plan(tier, seed), seed)
    agg = ChunkResult()
    harness_errors = []
    results = []
    if procs <= 1 or len(chunks) <= 1:
        _worker_init()
        results = [_worker((mod.__name__, c)) for c in chunks]
    else:
        ctx = mp.get_context('fork')
        with ctx.Pool(min(procs, len(chunks)), initializer=_worker_init, maxtasksperchild=None) as pool:
            results = pool.map(_worker, [(mod.__name__, c) for c in chunks], chunksize=1)
    nt_count = 0
    for r in results:
        if 'harness_error' in r:
            harness_errors.append(r)
            continue
        agg.evals += r['evals']
        agg.nontrivial.update(r['nontrivial'])
        nt_count += r.get('nontrivial_count', 0)
        agg.outcomes.update(r['outcomes'])
        agg.viol_total += r['viol_total']
        for v in r['violations']:
            if len(agg.violations) < 400:
                agg.violations.append(v)
        for s in r['samples']:
            if len(agg.samples) < 6:
                agg.samples.append(s)
        for k, v in r['extra'].items():
            if isinstance(v, (int, float)):
                agg.extra[k] = agg.extra.get(k, 0) + v
            elif isinstance(v, list):
                agg.extra.setdefault(k, [])
                for x in v:
                    if x not in agg.extra[k]:
                        agg.extra[k].append(x)
            else:
                agg.extra[k] = v
    if harness_errors:
        for he in harness_errors[:3]:
            sys.stderr.write('HARNESS ERROR in chunk %r\n%s\n' % (he['chunk'], he['harness_error']))
        if not agg.violations:
            sys.stderr.write('%d chunk(s) failed inside the harness; no verdict.\n' % len(harness_errors))
            return 2
        # violations found elsewhere are real whatever happened to the failed chunks: report them (exit 1)
        sys.stderr.write('%d chunk(s) failed inside the harness; the violations found by the other chunks are reported.\n'
                         % len(harness_errors))

    extra_cov = {}
    if hasattr(mod, 'finish'):
        fin = mod.finish(tier, seed, agg) or {}
        for v in fin.pop('violations', []):
            agg.viol_total += 1
            agg.violations.append(v)
        extra_cov.update(fin)

    # classify violations against the committed known-findings list
    known = load_known(prop)
    known_keys = {e['key']: e for e in known}
    printed_known = set()
    new = []
    for v in agg.violations:
        e = known_keys.get(v['key'])
        if e is not None:
            if v['key'] not in printed_known:
                printed_known.add(v['key'])
                print('KNOWN-FINDING: property=%s %s' % (prop, e.get('what', v['what'])))
        else:
            new.append(v)

    status = 0
    replay_paths = []
    if new:
        status = 1
        seen_keys = {}
        for v in new:
            seen_keys.setdefault(v['key'], []).append(v)
        rdir = os.path.join(os.environ.get('VERIF_REPLAY_DIR') or os.path.join(VERIF, 'replays'), prop)
        os.makedirs(rdir, exist_ok=True)
        for key, vs in list(seen_keys.items())[:8]:
            v = vs[0]
            blob = json.dumps({'property': prop, 'key': key, 'what': v['what'], 'case': v['case']},
                              indent=1, sort_keys=True)
            path = os.path.join(rdir, h8(blob) + '.json')
            with open(path, 'w') as f:
                f.write(blob)
            replay_paths.append(path)
            print('VIOLATION property=%s replay=%s' % (prop, path))
            print('  key=%s  %s' % (key, v['what'][:400]))
        sys.stdout.flush()

    distinct_nt = len(agg.nontrivial) + nt_count
    coverage = {
        'evaluations': agg.evals,
        'distinct_nontrivial': distinct_nt,
        'rule': mod.RULE,
        'samples': agg.samples[:6] if agg.samples else [{'note': 'no sample recorded'}],
        'exhaustive': bool(getattr(mod, 'EXHAUSTIVE', True)),
        'distinct_outcomes': len(agg.outcomes),
        'outcomes': sorted(agg.outcomes)[:40],
        'chunks': len(chunks),
        'bounds': mod.bounds(tier) if hasattr(mod, 'bounds') else {},
    }
    for k, v in agg.extra.items():
        coverage[k] = v
    coverage.update(extra_cov)
    if len(agg.outcomes) <= 1 and agg.evals > 100:
        coverage['warning'] = 'single observed outcome over many evaluations: check for vacuity'
    evidence = {
        'property_id': prop,
        'tier': tier,
        'seed': seed,
        'level': mod.LEVEL,
        'coverage': coverage,
        'assumptions': list(getattr(mod, 'ASSUMPTIONS', [])),
        'wall_s': round(time.time() - t0, 3),
        'violations': len(new),
        'known_findings_matched': sorted(printed_known),
        'repo_head': _repo_head(),
    }
    evdir = os.environ.get('VERIF_EVIDENCE_DIR') or os.path.join(VERIF, 'evidence')
    os.makedirs(evdir, exist_ok=True)
    with open(os.path.join(evdir, prop + '.json'), 'w') as f:
        json.dump(evidence, f, indent=1, sort_keys=True)
        f.write('\n')
    print('%s tier=%s seed=%d evaluations=%d distinct_nontrivial=%d outcomes=%d violations=%d known=%d wall=%.1fs'
          % (prop, tier, seed, agg.evals, distinct_nt, len(agg.outcomes), len(new), len(printed_known),
             time.time() - t0))
    return status


def _repo_head():
    try:
        out = subprocess.run(['git', '-C', REPO, 'rev-parse', '--short', 'HEAD'], capture_output=True,
                             text=True, timeout=10).stdout.strip()
        dirty = subprocess.run(['git', '-C', REPO, 'status', '--porcelain', '--untracked-files=no'],
                               capture_output=True, text=True, timeout=10).stdout.strip()
        return out + ('+dirty' if dirty else '')
    except Exception:
        return 'unknown'


def run_replay(mod, path):
    """Re-execute one recorded case, twice, without the explorer."""
    setup_path()
    with open(path) as f:
        rec = json.load(f)
    if isinstance(rec.get('case'), dict) and rec['case'].get('_python_O') and not sys.flags.optimize:
        # found in a python -O interpreter: replay there
        import subprocess
        return subprocess.call([PY, '-O', '-m', 'mc.run', mod.PROPERTY, '--replay', path], cwd=VERIF)
    outs = []
    for _ in range(2):
        if set(rec['case']) == {'chunk'}:
            # recorded by _implementation_raised: the replay is the chunk itself
            out = _worker((mod.__name__, rec['case']['chunk']))
            vs = out.get('violations', []) if 'harness_error' not in out else \
                [{'key': 'harness-error', 'what': out['harness_error'][-400:]}]
        else:
            arm(60)
            vs = mod.eval_case(rec['case'])
            disarm()
        outs.append(sorted((v['key'], v['what']) for v in vs))
    if outs[0] != outs[1]:
        print('REPLAY-NONDETERMINISTIC property=%s replay=%s' % (mod.PROPERTY, path))
        print(outs[0])
        print(outs[1])
        return 2
    known = {e['key'] for e in load_known(mod.PROPERTY)}
    bad = [o for o in outs[0] if o[0] not in known]
    for k, w in outs[0]:
        print(('KNOWN-FINDING: ' if k in known else 'VIOLATION ') + 'property=%s replay=%s' % (mod.PROPERTY, path))
        print('  key=%s  %s' % (k, w[:2000]))
    if not outs[0]:
        print('replay: case passes (no violation) property=%s' % mod.PROPERTY)
    return 1 if bad else 0
