"""
Evaluate a seeded property-breaking change:  python -m mc.seedtest <seed_dir> [--checks C01,C05 | --all] [--tier quick]

1. confirm in a scratch worktree (outside /repo and /verif) that the patch applies, the repository's own tests pass with it,
   and the demonstration exits 1 with the change and 0 without it;
2. apply the patch to /repo, run the chosen checks, record which raise VIOLATION, and undo the patch straight afterwards.
"""
import argparse
import json
import os
import shutil
import subprocess
import sys
import time

REPO = '/repo'
VERIF = os.path.dirname(os.path.dirname(os.path.abspath(__file__)))
ALL = ['C%02d' % i for i in range(1, 21)]


def sh(cmd, **kw):
    return subprocess.run(cmd, capture_output=True, text=True, **kw)


def confirm(seed_dir):
    patch = os.path.join(seed_dir, 'patch.diff')
    demo = os.path.join(seed_dir, 'demo.py')
    wt = '/tmp/verify_wt_%d' % os.getpid()
    out = {}
    sh(['git', '-C', REPO, 'worktree', 'add', '-q', '--detach', wt, 'HEAD'])
    try:
        r = sh(['git', '-C', wt, 'apply', patch])
        out['applies'] = r.returncode == 0
        if not out['applies']:
            out['apply_error'] = r.stderr[-300:]
            return out
        env = dict(os.environ, PYTHONPATH=wt + '/modules', PYTHONDONTWRITEBYTECODE='1')
        t = sh(['/venv/bin/python', '-m', 'pytest', '-q', '-p', 'no:cacheprovider', '-x'], cwd=wt, env=env)
        out['tests'] = t.stdout.strip().split('\n')[-1]
        out['tests_pass'] = t.returncode == 0 and '55 passed' in t.stdout
        env2 = dict(os.environ, PYTHONDONTWRITEBYTECODE='1')
        env2.pop('PYTHONPATH', None)
        d1 = sh(['/venv/bin/python', demo, wt + '/modules'], env=env2, timeout=600)
        d0 = sh(['/venv/bin/python', demo, REPO + '/modules'], env=env2, timeout=600)
        out['demo_exit_with_change'] = d1.returncode
        out['demo_exit_without_change'] = d0.returncode
        out['demo_output_with_change'] = (d1.stdout + d1.stderr)[-400:]
    finally:
        sh(['git', '-C', REPO, 'worktree', 'remove', '--force', wt])
        shutil.rmtree(wt, ignore_errors=True)
    return out


def run_checks(seed_dir, checks, tier):
    patch = os.path.join(seed_dir, 'patch.diff')
    st = sh(['git', '-C', REPO, 'status', '--porcelain', '--untracked-files=no']).stdout.strip()
    if st:
        raise SystemExit('/repo has uncommitted changes; refusing to apply a seed: ' + st)
    res = {}
    r = sh(['git', '-C', REPO, 'apply', patch])
    if r.returncode != 0:
        raise SystemExit('patch does not apply to /repo: ' + r.stderr)
    try:
        for c in checks:
            t0 = time.time()
            p = sh([os.path.join(VERIF, 'check'), c, '--tier', tier], cwd=VERIF)
            viol = [l for l in p.stdout.split('\n') if l.startswith('VIOLATION')]
            keys = [l.strip() for l in p.stdout.split('\n') if l.strip().startswith('key=')]
            res[c] = {'exit': p.returncode, 'violations': len(viol), 'first': keys[0][:300] if keys else '',
                      'wall_s': round(time.time() - t0, 1)}
    finally:
        sh(['git', '-C', REPO, 'checkout', '--', '.'])
        # evidence files were rewritten by runs on a modified tree: restore the committed ones
        sh(['git', '-C', VERIF, 'checkout', '--', 'evidence'])
    return res


def run_checks_in_worktree(seed_dir, checks, tier):
    """Development aid: same as run_checks but on a scratch worktree (VERIF_REPO), leaving /repo untouched so that
    several seeds can be tried while other runs use /repo.  Kept seeds are always confirmed with run_checks on /repo."""
    patch = os.path.join(seed_dir, 'patch.diff')
    wt = '/tmp/seed_wt_%d' % os.getpid()
    sh(['git', '-C', REPO, 'worktree', 'add', '-q', '--detach', wt, 'HEAD'])
    res = {}
    try:
        r = sh(['git', '-C', wt, 'apply', patch])
        if r.returncode != 0:
            raise SystemExit('patch does not apply: ' + r.stderr)
        env = dict(os.environ, VERIF_REPO=wt, VERIF_EVIDENCE_DIR='/tmp/seed_wt_evidence_%d' % os.getpid())
        for c in checks:
            t0 = time.time()
            p = sh([os.path.join(VERIF, 'check'), c, '--tier', tier], cwd=VERIF, env=env)
            viol = [l for l in p.stdout.split('\n') if l.startswith('VIOLATION')]
            keys = [l.strip() for l in p.stdout.split('\n') if l.strip().startswith('key=')]
            res[c] = {'exit': p.returncode, 'violations': len(viol), 'first': keys[0][:300] if keys else '',
                      'wall_s': round(time.time() - t0, 1)}
    finally:
        sh(['git', '-C', REPO, 'worktree', 'remove', '--force', wt])
        shutil.rmtree(wt, ignore_errors=True)
        shutil.rmtree('/tmp/seed_wt_evidence_%d' % os.getpid(), ignore_errors=True)
    return res


def main():
    ap = argparse.ArgumentParser()
    ap.add_argument('seed_dir')
    ap.add_argument('--checks')
    ap.add_argument('--all', action='store_true')
    ap.add_argument('--tier', default='quick')
    ap.add_argument('--no-confirm', action='store_true')
    ap.add_argument('--worktree', action='store_true', help='run the checks on a scratch worktree instead of /repo')
    a = ap.parse_args()
    meta_p = os.path.join(a.seed_dir, 'meta.json')
    meta = json.load(open(meta_p)) if os.path.exists(meta_p) else {}
    out = {'seed': a.seed_dir, 'property': meta.get('property')}
    if not a.no_confirm:
        out['confirm'] = confirm(a.seed_dir)
    checks = ALL if a.all else (a.checks.split(',') if a.checks else [meta.get('property')])
    out['checks'] = (run_checks_in_worktree if a.worktree else run_checks)(a.seed_dir, checks, a.tier)
    out['caught_by'] = [c for c, r in out['checks'].items() if r['exit'] == 1 and r['violations']]
    print(json.dumps(out, indent=1))


if __name__ == '__main__':
    main()
