"""C01 - every section decoded once, in order, from exactly its own bytes (E1 over section sequences)."""
import itertools
import json

from mc import subchunk, core, pelgen, decode
from mc.core import ChunkResult

PROPERTY = 'C01'
LEVEL = 'exploration'
ENGINE = 'E1'
TECHNIQUE = ('bounded-exhaustive enumeration of section sequences (all ordered pairs / triples of section variants, '
             'multiplicities, the 255-section limit, payload-length sweep) decoded by the real parsePEL, vs. encoder-side '
             'expected values and a solo-vs-in-context differential')
LEVEL_TEXT = ('All ordered pairs (thorough: triples) over a variant alphabet that contains every section type and every '
              'variable-length consumer, under every creator id, are encoded, decoded by the real parsePEL and compared with '
              '(1) the expected key list, (2) encoder-side field values, (3) the entry the same section yields when decoded '
              'alone, (4) the final stream cursor. Framing defects are interaction defects between neighbouring sections, '
              'so the pair/triple product is the right bound.')
LEVEL_NOTE = ('sections are well-formed by the layout the decoders document; sequences longer than 3 distinct variants '
              'are covered only by the repeat and 253-section cases; display names from a frozen copy of the published tables (mc/ref/pel_tables_frozen)')
RULE = ('thorough also: every one of the 65 527 two-byte section ids without a type-specific decoder, followed by a sentinel. ' 'enumerate PELs = PH UH + sequence of section variants: all ordered pairs (quick) / triples over one variant per '
        'type (thorough) x creator ids, each type repeated 1..4 times, 253 optional sections of one type, payload '
        'lengths 0..64,255,256,4096,65527 for length-driven types. Non-trivial: >= 2 optional sections or a payload '
        'sweep case; distinct by encoded bytes.')
ASSUMPTIONS = ['a callout flag byte / section payload is free-form; section ids that collide with callout substructure '
               'tags (ID, PE, MR) are legal unknown section ids']

CO_FRU = {'prio': 0x48, 'loc': 'U78DA.ND0-P0', 'fru': {'flags': 0x1D, 'pn': 'PN00001', 'ccin': 'CC11', 'sn': 'SN0000000001'}}
CO_FRU_PCE = {'prio': 0x4D, 'loc': 'Ufcs-P1-C2', 'fru': {'flags': 0x28, 'pn': '02CY211'},
              'pce': {'mtm': '9105-22B', 'sn': 'PCESN02', 'name': 'pce4'}}
CO_FRU_MRU = {'prio': 0x4C, 'loc': '', 'fru': {'flags': 0x92, 'pn': 'BMC0004'},
              'mru': {'ids': [[0x48, 0x11111111], [0x4D, 0x22222222], [0x4C, 0x33333333]]}}


def _ud(comp, sub, payload, **kw):
    d = {'t': 'UD', 'comp': comp, 'sub': sub, 'ver': 1, 'payload': payload.hex()}
    d.update(kw)
    return d


def variants():
    v = []
    v.append(('PS', {'t': 'PS', 'comp': 0x2A00}))
    v.append(('PS+fru', {'t': 'PS', 'callouts': [CO_FRU]}))
    v.append(('PS+fru+pce', {'t': 'PS', 'callouts': [CO_FRU_PCE]}))
    v.append(('PS+fru+mru', {'t': 'PS', 'callouts': [CO_FRU_MRU]}))
    v.append(('PS+2co', {'t': 'PS', 'callouts': [CO_FRU_MRU, CO_FRU_PCE]}))
    v.append(('PS+0co', {'t': 'PS', 'callouts': []}))
    v.append(('SS', {'t': 'SS', 'ascii': 'BC8A0A02'.ljust(32), 'wc': 5}))
    v.append(('SS+pce', {'t': 'SS', 'ascii': '11002200'.ljust(32), 'callouts': [CO_FRU, CO_FRU_PCE]}))
    for n in (0, 4, 80, 84, 252):       # the symptom id length is one byte: up to 252 characters in multiples of four
        v.append(('EH%d' % n, {'t': 'EH', 'sym': ('BD8D1234_' * 30)[:n]}))
    v.append(('MT', {'t': 'MT'}))
    for nl in (0, 4, 8):
        for nt in (0, 1, 2, 3):
            v.append(('LP%d.%d' % (nl, nt), {'t': 'LP', 'name': 'lparname'[:nl],
                                             'targets': [0x0101 * (i + 1) for i in range(nt)]}))
    v.append(('UDjson', _ud(0x2000, 1, pelgen.json_payload({'a': 'b', 'c': [1, 2, 3]}) and
                             bytes.fromhex(pelgen.json_payload({'a': 'b', 'c': [1, 2, 3]})))))
    # text that survives loading only as an escape (an unpaired surrogate) and non-ASCII text: whatever the section shows,
    # the sections around it are still there when the document is printed
    v.append(('UDsur', _ud(0x2000, 1, b'{"Note": "fan 3 stopped \\ud83d", "Ort": "Z\xc3\xbcrich"}')))
    v.append(('UDtext', _ud(0x2000, 3, b'first line\nsecond line\0\0\0')))
    v.append(('UDhex', _ud(0xABCD, 7, bytes(range(0x30, 0x30 + 21)), ver=3)))
    v.append(('UD1', _ud(0xABCD, 0, b'\x5a')))
    v.append(('ED', {'t': 'ED', 'creator': 'B', 'comp': 0x0100, 'sub': 2, 'payload': bytes(range(0x60, 0x60 + 24)).hex()}))
    for t in ('DH', 'SW', 'LR', 'HM', 'EP', 'IE', 'MI', 'CH', 'EI'):
        v.append((t, {'t': t, 'comp': 0x4400, 'sub': 5, 'payload': (t.encode() * 9)[:17].hex()}))
    for t in ('ZZ', 'ID', 'PE', 'MR', 'ph'):
        v.append(('?' + t, {'t': t, 'comp': 0x00FE, 'payload': bytes(range(1, 13)).hex()}))
    v.append(('?0000', {'id': 0x0000, 't': '??', 'payload': 'a1a2a3a4'}))
    v.append(('?ffff', {'id': 0xFFFF, 't': '??', 'payload': 'b1b2b3b4b5'}))
    return v


VARS = variants()
# one variant per type for the triple space
ONE_PER_TYPE = ['PS+fru+mru', 'PS+fru+pce', 'SS', 'EH4', 'MT', 'LP4.1', 'LP0.2', 'UDjson', 'UDtext', 'UDhex', 'ED',
                'DH', 'SW', 'LR', 'HM', 'EP', 'IE', 'MI', 'CH', 'EI', '?ZZ', '?ID', '?PE', '?MR']
CREATORS = ['B', 'C', 'H', 'K', 'L', 'M', 'O', 'P', 'S', 'T', 'x', '~']
SWEEP_LENGTHS = list(range(0, 65)) + [255, 256, 4096, 65527]


def bounds(tier):
    return {'variants': len(VARS), 'sequence_length': 2 if tier == 'quick' else 3, 'creators': len(CREATORS),
            'repeat': '1..4', 'max_sections': 255, 'sweep_lengths': '0..64,255,256,4096,65527'}


def plan(tier, seed):
    chunks = [{'k': 'sandwich', 'first': i} for i in range(len(VARS))]
    chunks += [{'k': 'creator_bytes', 'lo': lo, 'hi': lo + 32} for lo in range(0, 256, 32)]
    for i in range(len(VARS)):
        chunks.append({'k': 'pairs', 'first': i, 'creators': ['O', 'B', 'H', 'x'] if tier == 'quick' else CREATORS})
    chunks.append({'k': 'repeat'})
    # the framing does not depend on whether parser plug-ins are consulted (-P / Config.allow_plugins = False)
    chunks.append({'k': 'repeat', 'plugins': False})
    for i in range(len(VARS)):
        chunks.append({'k': 'pairs', 'first': i, 'creators': ['O', 'B'], 'plugins': False})
    chunks.append({'k': 'repeat', 'optimize': True})                  # the same under python -O (assertions stripped)
    chunks.append({'k': 'sandwich', 'first': 3, 'optimize': True})
    chunks.append({'k': 'cli'})
    chunks.append({'k': 'limit'})
    for t in ('UD', 'ED', 'DH', 'ZZ'):
        chunks.append({'k': 'sweep', 't': t})
    if tier == 'quick':
        chunks.append({'k': 'creator_pairs'})
    else:
        for i in range(len(ONE_PER_TYPE)):
            chunks.append({'k': 'triples', 'first': i})
        for hi in range(0, 256, 16):
            chunks.append({'k': 'ids', 'lo': hi, 'hi': hi + 16})
    return chunks


_solo_cache = {}


def _solo(spec, creator, plugins=True):
    key = (json.dumps(spec, sort_keys=True), creator, plugins)
    if key not in _solo_cache:
        r = decode.parse(pelgen.encode_pel({'creator': creator, 'sections': [spec]}), plugins=plugins)
        if r['kind'] == 'doc':
            keys = list(r['doc'].keys())
            _solo_cache[key] = ('doc', r['doc'][keys[2]] if len(keys) == 3 else None)
        else:
            _solo_cache[key] = (r['kind'], r.get('type'))
    return _solo_cache[key]


def classify(secs, what):
    """Finding classifier: narrow keys for defects of the pinned tree, generic otherwise."""
    ids = [s.get('t') if 'id' not in s else '%04x' % s['id'] for s in secs]
    for a, b in zip(secs, secs[1:]):
        if a.get('t') in ('PS', 'SS') and a.get('callouts') and 'id' not in b and b.get('t') in ('ID', 'PE', 'MR'):
            return 'F1:callout-loop-swallows-next-section-id-' + b['t']
    for s in secs:
        if 'id' not in s and s.get('t') not in ('PS', 'SS', 'EH', 'MT', 'LP') and not pelgen.payload_of(s):
            return 'F11:zero-length-payload'
    return 'C01:' + what


def eval_case(case):
    if case.get('big'):
        res = ChunkResult()
        _cli(res, dict(VARS))
        return [v for v in res.violations if v['key'] == 'C01:cli-large-log']
    secs = case['sections']
    creator = case.get('creator', 'O')
    p = pelgen.pel_from_spec({'creator': creator, 'sections': secs})
    b = pelgen.encode_pel(p)
    plugins = case.get('plugins', True)          # False: the -P / --skip-parser-plugins setting
    r = decode.parse(b, plugins=plugins)
    out = []

    def bad(what, detail):
        out.append({'key': classify(secs, what), 'what': '%s: %s' % (what, detail), 'case': case})

    if r['kind'] != 'doc':
        bad('not-decoded', 'well-formed PEL gave %s %s %s' % (r['kind'], r.get('type', ''), r.get('msg', '')))
        return out
    doc = r['doc']
    want_keys = pelgen.expected_keys(p)
    if list(doc.keys()) != want_keys:
        bad('keys', 'document keys %r, expected %r' % (list(doc.keys()), want_keys))
        return out
    if r['index'] != len(b):
        bad('cursor', 'stream cursor %d after decode, PEL is %d bytes' % (r['index'], len(b)))
    env = {}
    for s, k in zip(secs, want_keys[2:]):
        m = pelgen.check_entry(s, doc[k], creator, env)
        if m:
            bad('entry', '%s: %s' % (k, '; '.join(m[:3])))
        kind, solo = _solo(s, creator, plugins)
        if kind == 'doc' and solo is not None and solo != doc[k]:
            bad('context', '%s differs from the same section decoded alone' % k)
    return out


def _do(res, case, nontrivial=True, sample_every=211):
    core.arm()
    vs = eval_case(case)
    core.disarm()
    res.case(nontrivial_key=json.dumps(case, sort_keys=True) if nontrivial else None,
             outcome='bad:' + vs[0]['key'] if vs else 'ok',
             sample=_brief(case) if res.evals % sample_every == 0 else None)
    res.add(vs)


def _brief(case):
    return {'creator': case.get('creator', 'O'),
            'sections': [s.get('t') if 'id' not in s else hex(s['id']) for s in case['sections']],
            'n_sections': len(case['sections'])}


def run_chunk(chunk):
    routed = subchunk.route(__name__, chunk)
    if routed is not None:
        return routed
    res = ChunkResult()
    k = chunk['k']
    byname = dict(VARS)
    P = {} if chunk.get('plugins', True) else {'plugins': False}
    if k == 'pairs':
        a = VARS[chunk['first']][1]
        for creator in chunk['creators']:
            _do(res, dict({'creator': creator, 'sections': [a]}, **P), nontrivial=False)
            for _, b in VARS:
                _do(res, dict({'creator': creator, 'sections': [a, b]}, **P))
    elif k == 'creator_bytes':
        # every value of the one-byte creator id, in front of every section variant
        for c in range(chunk['lo'], chunk['hi']):
            for _, a in VARS:
                _do(res, {'creator': chr(c), 'sections': [a]})
    elif k == 'sandwich':
        # a section type (or display name) that recurs with something else in between: a b a
        a = VARS[chunk['first']][1]
        for _, b in VARS:
            _do(res, {'creator': 'O', 'sections': [a, b, a]})
    elif k == 'creator_pairs':
        names = ['PS+fru+mru', 'UDjson', 'UDhex', 'ED', 'LP4.1', '?ZZ', 'EH4', 'DH']
        for creator in CREATORS:
            for x, y in itertools.product(names, repeat=2):
                _do(res, {'creator': creator, 'sections': [byname[x], byname[y]]})
    elif k == 'triples':
        a = byname[ONE_PER_TYPE[chunk['first']]]
        for x, y in itertools.product(ONE_PER_TYPE, repeat=2):
            _do(res, {'creator': 'O', 'sections': [a, byname[x], byname[y]]})
    elif k == 'repeat':
        for name, a in VARS:
            for n in (1, 2, 3, 4):
                _do(res, dict({'creator': 'O', 'sections': [a] * n}, **P), nontrivial=n > 1)
            # A B A B and A A B : numbering per name, in order of appearance, not per adjacent run
            b = byname['UDhex'] if name != 'UDhex' else byname['MT']
            _do(res, dict({'creator': 'O', 'sections': [a, b, a, b]}, **P))
            _do(res, dict({'creator': 'O', 'sections': [a, a, b, a]}, **P))
    elif k == 'ids':
        # every two-byte section id (named types get their own decoder only if the payload suits them, so the
        # sweep uses the ids that are NOT decoded by a type-specific class; those are covered by the variants)
        special = {b'PS', b'SS', b'EH', b'MT', b'LP', b'UD', b'ED', b'PH', b'UH'}
        follow = byname['MT']
        for hi in range(chunk['lo'], chunk['hi']):
            for lo in range(256):
                if bytes([hi, lo]) in special:
                    continue
                s = {'id': (hi << 8) | lo, 't': '??', 'comp': 0x1200 | lo, 'sub': hi, 'payload': bytes([hi, lo, 0x5a] * 3).hex()}
                _do(res, {'creator': 'O', 'sections': [s, follow]}, sample_every=4099)
    elif k == 'cli':
        _cli(res, byname)
    elif k == 'limit':
        for name in ('UD1', 'MT', '?ZZ', 'LP0.1', 'EH0', 'PS+fru'):
            _do(res, {'creator': 'O', 'sections': [byname[name]] * 253})
        mixed = [byname[n] for n in ('UD1', 'MT', '?ZZ', 'LP0.1', 'DH')]
        _do(res, {'creator': 'O', 'sections': [mixed[i % 5] for i in range(253)]})
    elif k == 'sweep':
        t = chunk['t']
        follow = byname['MT']
        for n in SWEEP_LENGTHS:
            if t == 'ED' and n > 65523:
                n = 65523
            payload = bytes((i * 11 + n) & 0xff for i in range(n)).hex()
            s = {'t': t, 'comp': 0xABCD, 'sub': 2, 'payload': payload}
            if t == 'ED':
                s['creator'] = 'K'
            _do(res, {'creator': 'O', 'sections': [s, follow]}, sample_every=50)
            _do(res, {'creator': 'O', 'sections': [follow, s]}, sample_every=50)
    return res


def _cli(res, byname):
    """observe_at #2: `peltool.py -f <file>` prints the same document parsePEL returns (in-process driver + real executable)."""
    import os
    import tempfile
    from mc import clidrv
    names = list(byname)
    n_ok = 0
    with tempfile.TemporaryDirectory(prefix='c01_', dir=clidrv.scratch_root()) as d:
        for i in range(0, len(names) - 2, 2):
            secs = [byname[names[i]], byname[names[i + 1]], byname[names[i + 2]]]
            case = {'creator': 'O', 'sections': secs, 'cli': True}
            b = pelgen.encode_pel(pelgen.pel_from_spec({'creator': 'O', 'sections': secs}))
            path = os.path.join(d, 'pel%02d' % i)
            with open(path, 'wb') as f:
                f.write(b)
            r = decode.parse(b)
            core.arm(30)
            m = clidrv.run_main(['-f', path, '-E'])
            core.disarm()
            ok = r['kind'] == 'doc' and m.status == 0 and m.stdout == r['text'] + '\n'
            res.case(nontrivial_key=json.dumps(_brief(case)), outcome='cli:ok' if ok else 'cli:differs', sample=None)
            if not ok:
                res.violation('C01:cli-route', '-f prints a different document than parsePEL returns for sections %s' %
                              [names[i], names[i + 1], names[i + 2]], {'creator': 'O', 'sections': secs})
            if i % 10 == 0:
                rc, so, se = clidrv.run_subprocess(['-f', path, '-E'])
                if (rc, so) != (m.status, m.stdout):
                    res.violation('C01:conformance', 'real executable and in-process driver disagree on -f', {'creator': 'O', 'sections': secs})
                else:
                    n_ok += 1
    # every way the tool reads a file from a directory must hand the decoder the whole file: large logs (255 sections, one
    # maximal section) next to a small one, through -a, -j, -i, --bmc-id, compared with what parsePEL returns for the bytes
    with tempfile.TemporaryDirectory(prefix='c01big_', dir=clidrv.odd_root()) as d:
        os.mkdir(os.path.join(d, 'in'))
        os.mkdir(os.path.join(d, 'out'))
        specs = [
            {'eid': 0x50000B01, 'plid': 0x50000B01, 'obmc': 11, 'creator': 'O', 'sections': [byname['MT']]},
            {'eid': 0x50000B02, 'plid': 0x50000B02, 'obmc': 12, 'creator': 'O', 'sections': [byname['UD1'], byname['MT']] * 126},
            {'eid': 0x50000B03, 'plid': 0x50000B03, 'obmc': 13, 'creator': 'O', 'sections': [
                {'t': 'UD', 'comp': 0xABCD, 'payload': bytes((i * 7) & 0xff for i in range(65527)).hex()}, byname['MT']]},
            {'eid': 0x50000B04, 'plid': 0x50000B04, 'obmc': 14, 'creator': 'O', 'sections': [
                {'t': 'ZZ', 'payload': bytes((i * 3) & 0xff for i in range(16377)).hex()}, byname['MT']]},
        ]
        want = []
        for i, sp in enumerate(specs):
            b = pelgen.encode_pel(pelgen.pel_from_spec(sp))
            with open(os.path.join(d, 'in', 'big%d_%08X' % (i, sp['eid'])), 'wb') as f:
                f.write(b)
            want.append(decode.parse(b))
        docs = [w.get('doc') for w in want]
        case = {'cli': True, 'big': True}
        core.arm(120)
        ra = clidrv.run_main(['-p', os.path.join(d, 'in'), '-a', '-E'])
        clidrv.run_main(['-p', os.path.join(d, 'in'), '-j', '-E', '-o', os.path.join(d, 'out')])
        singles = [clidrv.run_main(['-p', os.path.join(d, 'in'), '-i', '%08X' % sp['eid']]) for sp in specs] + \
                  [clidrv.run_main(['-p', os.path.join(d, 'in'), '--bmc-id', str(sp['obmc'])]) for sp in specs]
        core.disarm()
        from mc import strictjson
        problems = []
        try:
            if strictjson.loads(ra.stdout) != docs:
                problems.append('-a shows %d documents that differ from the %d decoded ones' % (len(strictjson.loads(ra.stdout)), len(docs)))
        except Exception as e:
            problems.append('-a output unreadable: %s' % e)
        files = sorted(os.listdir(os.path.join(d, 'out')))
        if len(files) != len(specs):
            problems.append('-j wrote %d files for %d logs' % (len(files), len(specs)))
        for fn, doc in zip(files, docs):
            with open(os.path.join(d, 'out', fn)) as f:
                try:
                    if strictjson.loads(f.read()) != doc:
                        problems.append('-j file %s differs from the decoded document' % fn)
                except Exception as e:
                    problems.append('-j file %s unreadable: %s' % (fn, e))
        for r, doc in zip(singles, docs + docs):
            try:
                if strictjson.loads(r.stdout) != doc:
                    problems.append('-i/--bmc-id document differs from the decoded one')
            except Exception as e:
                problems.append('-i/--bmc-id output unreadable: %s (%r)' % (e, r.stdout[:40]))
        res.case(nontrivial_key=json.dumps(case), outcome='cli-big:' + ('differs' if problems else 'ok'))
        if any(w['kind'] != 'doc' for w in want):
            problems.append('large well-formed logs not decoded by parsePEL: %s' % [w['kind'] for w in want])
        if problems:
            res.violation('C01:cli-large-log', '; '.join(problems[:3]), case)
    res.extra['traces_validated_against_impl'] = n_ok
