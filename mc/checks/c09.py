"""C09 - undecodable files never disturb the output for the others (E3: one junk entry added to a good directory)."""
import itertools
import json
from mc import strictjson
import os
import shutil
import tempfile

from mc import subchunk, core, pelgen, impl, clidrv
from mc.core import ChunkResult
from mc.ref import hexdump as rhex

PROPERTY = 'C09'
LEVEL = 'fault_enumeration'
ENGINE = 'E3'
TECHNIQUE = ('exhaustive single-deviation enumeration over directory contents: one junk entry (every proper prefix, every '
             'single-byte corruption x 8/255 values of an all-sections PEL, every 1-byte file, empty file, sub-directories, entries that '
             'cannot be opened or read: dangling/looping symbolic links and injected open()/read() failures) at '
             'each of 3 name positions in a 3-PEL directory, for every directory mode, through the real main(); differential '
             'oracle good vs good+junk with the junk\'s own decodability decided by the same mode run on the junk alone')
LEVEL_TEXT = ('For every junk entry and every mode the tool is run on {junk}, {good} and {good + junk}: exit status must be 0, '
              'no exception may escape, stdout must be one JSON document (or complete Begin/End blocks), and what is reported '
              'for the good PELs must be exactly what is reported without the junk, in the same order (byte-identical stdout '
              'when the junk alone reports nothing; otherwise equal after removing what the junk alone reports). -j compares '
              'the written files. Thorough adds all 255 corruption values and pairs of junk files.')
LEVEL_NOTE = ('stderr text is not constrained; permission failures are injected through the tool\'s open() (the checks run as '
              'root); for -j the written files are compared, and its stdout (never a JSON document) must be the same with and '
              'without undecodable junk')
RULE = ('junk = empty | prefix n (all n) | byte off:=v (all off, v in 8 values; thorough 255) | 1-byte file (all 256) | '
        'sub-directory (3 shapes) | dangling link | link loop | open fails EACCES/EIO/ENOENT/EMFILE | read fails EIO/EISDIR; position in {a, c, g}; modes -l -a -n --plid(2) --src --src-exclude -j, -x variants of '
        '-l/-a, with -E and (prefixes) without. Non-trivial: junk differs from a well-formed PEL; distinct by (junk, '
        'position, mode).')
ASSUMPTIONS = ['a junk file that the mode can decode legitimately appears in the output']

GOOD = {
    'b_good1': {'eid': 0x50000B01, 'plid': 0x50000B01, 'sections': [{'t': 'PS', 'ascii': 'BD8D1001'.ljust(32), 'callouts': [pelgen.CALLOUT_FULL]},
                                                                   {'t': 'UD', 'comp': 0xABCD, 'payload': '0102030405'}]},
    'd_good2': {'eid': 0x50000D02, 'plid': 0x50000D02, 'uh': {'sev': 0x40, 'flags': 0x6000},
                'sections': [{'t': 'PS', 'ascii': 'BD8D1002'.ljust(32)}, {'t': 'EH'}, {'t': 'MT'},
                             {'t': 'LP', 'name': 'good2', 'targets': [0x0011, 0x0012]}]},
    'f_good3': {'eid': 0x50000F03, 'plid': 0x50000B01, 'uh': {'sev': 0x00, 'flags': 0x0000},
                'sections': [{'t': 'PS', 'ascii': '11001003'.ljust(32)}]},
    # decoded with the shipped plug-ins (BMC SRC dispatcher -> hardware diagnostics SRC parser, user data parser, callouts)
    'e_good_hw': {'eid': 0x50000E04, 'plid': 0x50000E04, 'creator': 'O', 'sections': [
        {'t': 'PS', 'ascii': 'BD20E510'.ljust(32), 'callouts': [pelgen.CALLOUT_PROC]},
        {'t': 'UD', 'comp': 0xE500, 'sub': 1, 'ver': 1, 'payload': ((1).to_bytes(4, 'big') + bytes(range(1, 13))).hex()},
        {'t': 'LP', 'name': 'hw', 'targets': [0x0021]}]},
}
# PELs that go through the same plug-ins and caches as the good ones; cut short they are junk that has been partly decoded
TWINS = {
    'bc_e5': {'eid': 0x5000AA01, 'plid': 0x5000AA01, 'creator': 'O', 'sections': [
        {'t': 'PS', 'ascii': 'BC70E540'.ljust(32), 'callouts': [pelgen.CALLOUT_PROC]}, {'t': 'UD', 'comp': 0xE500, 'sub': 2, 'payload': '00' * 40},
        # (what a junk file's sections accumulate while they are decoded must not show up in the good PELs)
        {'t': 'LP', 'name': 'twin', 'targets': [0x0AAA, 0x0BBB, 0x0CCC]}, {'t': 'MT'}]},
    'bd_e5': {'eid': 0x5000AA02, 'plid': 0x5000AA02, 'creator': 'O', 'sections': [
        {'t': 'PS', 'ascii': 'BD20E520'.ljust(32)}, {'t': 'UD', 'comp': 0xE500, 'sub': 1, 'payload': '0000000300'}, {'t': 'MT'}]},
    'b_e5': {'eid': 0x5000AA03, 'plid': 0x5000AA03, 'creator': 'B', 'sections': [
        {'t': 'PS', 'ascii': 'BC8AE510'.ljust(32), 'callouts': [pelgen.CALLOUT_FULL]}, {'t': 'UD', 'comp': 0xE500, 'sub': 1, 'payload': '01'},
        {'t': 'ED', 'creator': 'O', 'comp': 0xE500, 'sub': 3, 'payload': b'{"a": 1}'.hex()}, {'t': 'MT'}]},
}
POS_NAMES = {'a': 'a_junk', 'c': 'c_junk', 'g': 'g_junk'}
MODES = {
    'l': ['-l'], 'a': ['-a'], 'n': ['-n'], 'plid_good': ['--plid', '50000B01'], 'plid_junk': ['--plid', '0x500001ff'],
    'src': ['--src', 'BD8D'], 'srcx': ['--src-exclude', '@EXCL'], 'lx': ['-l', '-x'], 'ax': ['-a', '-x'], 'j': ['-j', '-o', '@OUT'],
    'plidx': ['--plid', '0x500001ff', '-x'], 'srchx': ['--src', 'BD8D', '-x'],
}
# --hex only changes how a mode presents the PELs it reports: whether the junk is decodable by the mode is decided by the
# same mode without --hex (otherwise a mode that dumps undecodable junk would vouch for itself)
JSON_TWIN = {'lx': 'l', 'ax': 'a', 'plidx': 'plid_junk', 'srchx': 'src'}
ALL_MODES = list(MODES)


def junk_base():
    return pelgen.encode_pel(pelgen.pel_from_spec(pelgen.base_pel_specs()[-1]))


_SRC_END = []


def src_end():
    if not _SRC_END:
        spec = pelgen.pel_from_spec(pelgen.base_pel_specs()[-1])
        assert spec['sections'][0]['t'] == 'PS'
        _SRC_END.append(pelgen.section_offsets(spec)[2][1])
    return _SRC_END[0]


def bounds(tier):
    return {'junk_base_bytes': len(junk_base()), 'corruption_values': 8 if tier == 'quick' else 255,
            'positions': 3, 'modes': len(MODES), 'pairs': tier == 'thorough'}


def plan(tier, seed):
    n = len(junk_base())
    ch = []
    step = 48
    for lo in range(0, n, step):
        ch.append({'k': 'prefix', 'lo': lo, 'hi': min(n, lo + step), 'pos': ['c'] if tier == 'quick' else ['a', 'c', 'g']})
        if tier == 'quick':
            ch.append({'k': 'corrupt', 'lo': lo, 'hi': min(n, lo + step), 'vals': 'quick', 'modes': ['a', 'l'] + (['n'] if lo < 72 else [])})
            # every other mode has its own error handling: give each the exception classes that 00 / FF corruptions raise
            ch.append({'k': 'corrupt', 'lo': lo, 'hi': min(n, lo + step), 'vals': 'zero-ff',
                       'modes': ['plid_junk', 'plid_good', 'src', 'srcx', 'lx', 'ax', 'plidx', 'srchx', 'j']})
        else:
            for vlo in range(0, 256, 64):
                ch.append({'k': 'corrupt', 'lo': lo, 'hi': min(n, lo + step), 'vals': [vlo, vlo + 64],
                           'modes': ['a', 'l'] + (['n'] if lo < 72 else [])})
            ch.append({'k': 'corrupt', 'lo': lo, 'hi': min(n, lo + step), 'vals': 'quick',
                       'modes': ['plid_junk', 'src', 'srcx', 'lx', 'ax', 'plidx', 'srchx', 'j']})
    ch.append({'k': 'struct'})
    ch.append({'k': 'unreadable'})
    ch.append({'k': 'twins'})
    for lo in range(0, 256, 64):
        ch.append({'k': 'bytes', 'lo': lo, 'hi': lo + 64})
    if tier == 'thorough':
        for part in range(8):
            ch.append({'k': 'pairs', 'part': part, 'parts': 8})
    # the same under python -O (assertions stripped, __debug__ false)
    ch += [dict(c, optimize=True) for c in [{'k': 'struct'}, {'k': 'twins'}, {'k': 'unreadable'}]]
    return ch


def junk_bytes(j):
    base = junk_base()
    if j[0] == 'empty':
        return b''
    if j[0] == 'prefix':
        return base[:j[1]]
    if j[0] == 'set':
        b = bytearray(base)
        b[j[1]] = j[2]
        return bytes(b)
    if j[0] == 'byte':
        return bytes([j[1]])
    if j[0] == 'raw':
        return bytes.fromhex(j[1])
    if j[0] == 'twin':
        b = pelgen.encode_pel(pelgen.pel_from_spec(TWINS[j[1]]))
        return b[:len(b) - j[2]]
    return None


def put_junk(d, name, j):
    path = os.path.join(d, name)
    if j[0] == 'dir':
        os.mkdir(path)
        if j[1] == 'with-pel':
            with open(os.path.join(path, 'inner'), 'wb') as f:
                f.write(junk_base())
        elif j[1] == 'named-like-pel':
            with open(os.path.join(path, '2024_50000B01'), 'wb') as f:
                f.write(pelgen.encode_pel(pelgen.pel_from_spec(GOOD['b_good1'])))
    elif j[0] == 'link':
        # a directory entry that cannot be opened: dangling symbolic link / link loop
        os.symlink(path if j[1] == 'loop' else os.path.join(d, 'no-such-target'), path)
    elif j[0] == 'fault':
        # a complete PEL whose open() or read() fails (errno injected by the driver's open shadow)
        with open(path, 'wb') as f:
            f.write(junk_base())
    else:
        with open(path, 'wb') as f:
            f.write(junk_bytes(j))
    return path


def rm_junk(path):
    if os.path.islink(path):
        os.unlink(path)
    elif os.path.isdir(path):
        shutil.rmtree(path)
    else:
        os.unlink(path)


LAST = {'junk': ''}


pristine = clidrv.pristine


class Env:
    """Three scratch directories: good, solo (junk only), both; plus output dirs for -j and the exclude file."""

    def __init__(self):
        self.root = tempfile.mkdtemp(prefix='c09_', dir=clidrv.odd_root())
        for n in ('good', 'solo', 'both', 'out_good', 'out_solo', 'out_both'):
            os.mkdir(os.path.join(self.root, n))
        for name, spec in GOOD.items():
            b = pelgen.encode_pel(pelgen.pel_from_spec(spec))
            for n in ('good', 'both'):
                with open(os.path.join(self.root, n, name), 'wb') as f:
                    f.write(b)
        self.excl = os.path.join(self.root, 'exclude.txt')
        with open(self.excl, 'w') as f:
            f.write('BD8D9999\n11001003\n')
        self.good_cache = {}
        self.open_fn = None
        pristine()

    def faulty_open(self, faults):
        """open() as the tool sees it: {file name: ('open'|'read', errno)} fail, everything else is the real open"""
        import builtins
        import errno as _errno

        class FailingRead:
            def __init__(self, f, code):
                self.f, self.code = f, code

            def read(self, *a):
                raise OSError(self.code, os.strerror(self.code))

            def __enter__(self):
                return self

            def __exit__(self, *exc):
                self.f.close()
                return False

            def __getattr__(self, name):
                return getattr(self.f, name)

        def fn(path, mode='r', *a, **kw):
            hit = faults.get(os.path.basename(str(path)))
            if hit and 'r' in mode and 'out_' not in str(path):
                code = getattr(_errno, hit[1])
                if hit[0] == 'open':
                    raise OSError(code, os.strerror(code), str(path))
                return FailingRead(builtins.open(path, mode, *a, **kw), code)
            return builtins.open(path, mode, *a, **kw)
        return fn

    def close(self):
        shutil.rmtree(self.root, ignore_errors=True)

    def argv(self, which, mode, every):
        a = ['-p', os.path.join(self.root, which)]
        for x in MODES[mode]:
            a.append(self.excl if x == '@EXCL' else os.path.join(self.root, 'out_' + which) if x == '@OUT' else x)
        if every:
            a.append('-E')
        return a

    def run(self, which, mode, every):
        if mode == 'j':
            out = os.path.join(self.root, 'out_' + which)
            for f in os.listdir(out):
                os.unlink(os.path.join(out, f))
        # every invocation of the tool is a process of its own: put the module-level state (parser caches, component-id
        # tables, loaded plug-ins) back to what a fresh interpreter has, so that what one run leaves behind cannot mask -
        # or fake - a difference in the next
        pristine().restore()
        core.arm(30)
        r = clidrv.run_main(self.argv(which, mode, every), open_fn=self.open_fn)
        core.disarm()
        files = None
        if mode == 'j':
            out = os.path.join(self.root, 'out_' + which)
            files = {}
            for f in sorted(os.listdir(out)):
                with open(os.path.join(out, f), 'rb') as fh:
                    files[f] = fh.read()
        return r, files

    def good(self, mode, every):
        k = (mode, every)
        if k not in self.good_cache:
            self.good_cache[k] = self.run('good', mode, every)
        return self.good_cache[k]


def parse_out(mode, text):
    """-> ('n', int) | ('l', [(eid, entry)]) | ('a', [docs]) | ('x', [blocks]) ; raises on malformed stdout"""
    if mode == 'n':
        return strictjson.loads(text)['Number of PELs found']
    if mode in JSON_TWIN:
        blocks = clidrv.split_hex_blocks(text)
        if blocks is None:
            raise ValueError('stdout is not a sequence of complete Begin/End blocks')
        return [rhex.read_default(b).hex() for b in blocks]
    if mode == 'a':
        v = strictjson.loads(text)
        if not isinstance(v, list):
            raise ValueError('-a did not print a JSON array')
        return v
    if mode == 'j':
        return None
    v = strictjson.loads(text, object_pairs_hook=lambda p: p)
    return [(k, json.dumps(e)) for k, e in v]


def remove_sub(combined, solo):
    """combined minus the items solo reports (multiset, order kept)."""
    solo = list(solo)
    out = []
    for x in combined:
        if x in solo:
            solo.remove(x)
        else:
            out.append(x)
    return out


def check(env, juncs, mode, every, case):
    """juncs: list of (position name, junk)."""
    probs = []
    paths = []
    for pos, j in juncs:
        paths.append(put_junk(os.path.join(env.root, 'both'), POS_NAMES[pos] + ('2' if paths and pos == juncs[0][0] else ''), j))
        put_junk(os.path.join(env.root, 'solo'), os.path.basename(paths[-1]), j)
    faults = {os.path.basename(p): (j[1], j[2]) for p, (_, j) in zip(paths, juncs) if j[0] == 'fault'}
    try:
        env.open_fn = env.faulty_open(faults) if faults else None
        rs, fs = env.run('solo', mode, every)
        rb, fb = env.run('both', mode, every)
        rt = env.run('solo', JSON_TWIN[mode], every)[0] if mode in JSON_TWIN else None
        env.open_fn = None
        rg, fg = env.good(mode, every)
    finally:
        env.open_fn = None
        for p in paths:
            rm_junk(p)
            rm_junk(os.path.join(env.root, 'solo', os.path.basename(p)))
    for nm, r in (('junk alone', rs), ('good+junk', rb)):
        if r.exc:
            probs.append(('exception', '%s: exception escaped main(): %s' % (nm, r.exc)))
        elif r.status != 0:
            probs.append(('exit-status', '%s: exit status %r (%s)' % (nm, r.status, r.stderr[-120:])))
    if probs:
        return probs
    if mode == 'j':
        for name in GOOD:
            fn = '%s.%08X.json' % (name, GOOD[name]['eid'])
            if fg.get(fn) is not None and fb.get(fn) != fg.get(fn):
                probs.append(('json-file', 'output file %s differs when the junk is present' % fn))
        if fs and len(juncs) == 1:
            j = juncs[0][1]
            if (j[0] == 'prefix') or (j[0] == 'set' and j[1] in (0, 1, 48, 49)) or j[0] in ('empty', 'byte', 'link', 'fault'):
                # by construction no PEL: --json decodes the whole file, so every proper prefix counts as well
                probs.append(('damaged-header-reported', '--json wrote %s for a file that is no PEL (%s)' % (sorted(fs), list(j))))
                return probs
        if not fs:
            # the junk is not decodable (alone it produces no file): diagnostics about it belong on stderr only
            norm = lambda t, which: t.replace(os.path.join(env.root, which), '<dir>')
            if norm(rb.stdout, 'both') != norm(rg.stdout, 'good'):
                probs.append(('json-stdout', '--json prints %r on stdout when the (undecodable) junk is present, %r without it'
                              % (norm(rb.stdout, 'both')[:120], norm(rg.stdout, 'good')[:60])))
        LAST['junk'] = 'decodable' if fs else 'undecodable'
        return probs
    try:
        vs = parse_out(mode, rs.stdout)
        vb = parse_out(mode, rb.stdout)
        vg = parse_out(mode, rg.stdout)
    except Exception as e:
        probs.append(('stdout-malformed', 'stdout is not well-formed for mode %s: %s | %r' % (mode, e, (rb.stdout or rs.stdout)[:80])))
        return probs
    empty = vs in (0, [], None)
    if every and len(juncs) == 1 and juncs[0][1][0] == 'prefix' and mode != 'n':
        # independent of the tool: a truncated copy of the base PEL is reported by a full-decode mode never, by a list mode
        # (which reads up to the primary SRC) exactly when the cut lies behind the primary SRC, by a non-matching look-up never
        n = juncs[0][1][1]
        want_reported = mode in ('l', 'lx', 'plid_junk', 'plidx', 'src', 'srchx', 'srcx') and n >= src_end()
        if want_reported != (not empty):
            probs.append(('truncated-file-' + ('reported' if not empty else 'not-reported'),
                          'a copy of the base PEL cut after %d of %d bytes (primary SRC ends at %d) is %sreported'
                          % (n, len(junk_base()), src_end(), '' if not empty else 'not ') + ('; stderr: %r' % rs.stderr[-200:] if empty else '')))
            return probs
    if mode in JSON_TWIN:
        try:
            twin_empty = parse_out(JSON_TWIN[mode], rt.stdout) in (0, [], None, {})
        except Exception:
            twin_empty = True
        if twin_empty and not empty:
            probs.append(('hex-dumps-undecodable', 'with --hex the junk alone is dumped (%d block(s)) although %s reports nothing for it'
                          % (len(vs), ' '.join(MODES[JSON_TWIN[mode]]))))
            return probs
        empty = empty or twin_empty
    if len(juncs) == 1 and not empty:
        # by construction, whatever the tool says about the junk alone: a file without both section ids 'PH' and 'UH' in
        # place (or shorter than the two headers) is a PEL for no mode
        j = juncs[0][1]
        damaged = (j[0] == 'prefix' and j[1] < 72) or (j[0] == 'set' and j[1] in (0, 1, 48, 49)) or j[0] in ('empty', 'byte') \
            or j[0] in ('link', 'fault')
        if damaged:
            probs.append(('count-damaged-header' if mode == 'n' else 'damaged-header-reported',
                          'a file whose header is damaged or unreadable (%s) is %s' % (list(j), 'counted as a PEL' if mode == 'n' else 'reported')))
            return probs
    if empty:
        if rb.stdout != rg.stdout:
            probs.append(('disturbed', 'stdout with the (undecodable) junk present differs from stdout without it'))
    elif mode == 'n':
        if vb != vg + vs:
            probs.append(('count', 'count good+junk %r != good %r + junk %r' % (vb, vg, vs)))
    else:
        if remove_sub(vb, vs) != vg:
            probs.append(('others-changed', 'entries reported for the good PELs (or their order) change when a decodable junk file is added'))
    LAST['junk'] = 'undecodable' if empty else 'decodable'
    return probs


def eval_case(case):
    impl.ensure(False)
    env = Env()
    try:
        probs = check(env, [tuple(x) for x in case['junk']], case['mode'], case['every'], case)
    finally:
        env.close()
    return [{'key': 'C09:' + p[0], 'what': '%s (junk %s, mode %s%s)' % (p[1], case['junk'], ' '.join(MODES[case['mode']]),
             ' -E' if case['every'] else ''), 'case': case} for p in probs[:2]]


def _do(res, env, juncs, mode, every, step=997):
    case = {'junk': [[p, list(j)] for p, j in juncs], 'mode': mode, 'every': every}
    LAST['junk'] = ''
    probs = check(env, juncs, mode, every, case)
    res.case(nontrivial_key=json.dumps(case), outcome='bad:' + probs[0][0] if probs else 'ok:' + mode + ':' + LAST['junk'],
             sample=case if res.evals % step == 1 else None)
    for p in probs[:2]:
        res.violation('C09:' + p[0], '%s (junk %s, mode %s%s)' % (p[1], case['junk'], ' '.join(MODES[mode]),
                      ' -E' if every else ''), case)


def run_chunk(chunk):
    routed = subchunk.route(__name__, chunk)
    if routed is not None:
        return routed
    res = ChunkResult()
    impl.ensure(False)
    env = Env()
    base = junk_base()
    try:
        k = chunk['k']
        if k == 'prefix':
            for n in range(chunk['lo'], chunk['hi']):
                for pos in chunk['pos']:
                    for mode in ALL_MODES:
                        _do(res, env, [(pos, ('prefix', n))], mode, True)
                        if mode in ('l', 'a', 'n') and pos == 'c':
                            _do(res, env, [(pos, ('prefix', n))], mode, False)
        elif k == 'corrupt':
            from mc.checks.c05 import repl_values
            for off in range(chunk['lo'], chunk['hi']):
                for v in ([x for x in (0x00, 0xff) if x != base[off]] if chunk['vals'] == 'zero-ff'
                          else repl_values(base[off], chunk['vals'])):
                    for mode in chunk['modes']:
                        _do(res, env, [('c', ('set', off, v))], mode, True, step=4999)
        elif k == 'struct':
            juncs = [('empty',), ('dir', 'empty'), ('dir', 'with-pel'), ('dir', 'named-like-pel'), ('raw', '50480030'),
                     ('raw', '5048003001000000' + '00' * 40), ('raw', 'ff' * 100), ('raw', '00' * 100), ('prefix', 48), ('prefix', 72)]
            for j in juncs:
                for pos in ('a', 'c', 'g'):
                    for mode in ALL_MODES:
                        for every in (True, False):
                            _do(res, env, [(pos, j)], mode, every, step=97)
        elif k == 'twins':
            # junk that shares plug-ins, caches and component ids with a good PEL and fails late (cut 3 / 30 bytes before its
            # end), in every position, so that it is decoded before, between and after the good ones
            for name in TWINS:
                for cut in (3, 30):
                    for pos in ('a', 'c', 'g'):
                        for mode in ALL_MODES:
                            _do(res, env, [(pos, ('twin', name, cut))], mode, True, step=97)
        elif k == 'unreadable':
            # entries that cannot be opened or read at all ("unreadable files"): the others must be reported as without them
            juncs = [('link', 'dangling'), ('link', 'loop'), ('fault', 'open', 'EACCES'), ('fault', 'open', 'EIO'),
                     ('fault', 'open', 'ENOENT'), ('fault', 'open', 'EMFILE'), ('fault', 'read', 'EIO'), ('fault', 'read', 'EISDIR')]
            for j in juncs:
                for pos in ('a', 'c', 'g'):
                    for mode in ALL_MODES:
                        for every in (True, False):
                            _do(res, env, [(pos, j)], mode, every, step=97)
            for j1, j2 in itertools.product(juncs[:3] + juncs[6:7], repeat=2):
                for mode in ALL_MODES:
                    _do(res, env, [('a', j1), ('g', j2)], mode, True, step=97)
        elif k == 'bytes':
            for v in range(chunk['lo'], chunk['hi']):
                for mode in ALL_MODES:
                    _do(res, env, [('c', ('byte', v))], mode, True)
                    _do(res, env, [('a' if v % 2 else 'g', ('byte', v))], mode, True)
        elif k == 'pairs':
            js = [('empty',), ('dir', 'with-pel'), ('byte', 0x50), ('prefix', 47), ('prefix', 100), ('prefix', 300),
                  ('set', 0, 0x51), ('set', 210, 0), ('set', 27, 0xff), ('set', 74, 0x00), ('raw', 'ff' * 64)]
            work = [(p1, j1, p2, j2) for j1 in js for j2 in js for p1 in 'acg' for p2 in 'acg']
            for p1, j1, p2, j2 in work[chunk['part']::chunk['parts']]:
                for mode in ALL_MODES:
                    _do(res, env, [(p1, j1), (p2, j2)], mode, True)
    finally:
        env.close()
    return res
