"""C20 - hardware-diagnostics signatures and register dumps, field-exact (E1)."""
import itertools
import json
import os
import re
import shutil
import tempfile

from mc import subchunk, core, impl, clidrv, pelgen, decode
from mc.core import ChunkResult
from mc.ref import hwdiags as rhw

PROPERTY = 'C20'
LEVEL = 'exploration'
ENGINE = 'E1'
TECHNIQUE = ('bounded-exhaustive enumeration: each of the 12 signature bytes in {00, position marker, FF} (thorough: all 3^12; '
             'quick: all vectors within 2 positions of the all-zero and all-marker vectors) x chip-data configurations (absent, '
             'synthetic full, 5 partial with keys removed, 4 with incomplete entries: name only / empty / null entry / null tables) x routes (ParserData upper/lower case, SRC parser, signature-list user data with 0..3 '
             'entries, parsePEL); register dumps chips 0..2 x registers 0..2 x 7 data sizes; scratch registers, callout FFDC; '
             'vs. a reference model from the statement')
LEVEL_TEXT = ('The slicing of the 12 signature bytes is decided by giving every byte position a value no other position has, in '
              'every combination with 00 and FF, and comparing the three displayed strings with the reference computed from the '
              'stated byte positions; the chip data file is replaced by a synthetic one (via the data package path) so that both '
              'the look-up and every documented fall-back are exercised, in upper and lower case. Register dumps are compared on '
              '(name, address, exact data bytes) per line, in order.')
LEVEL_NOTE = ('signature byte values beyond the 3-value alphabet, structurally malformed chip data files and the cosmetic layout '
              'of register-dump lines are not constrained')
RULE = ('signatures = {00, marker_i, FF}^12 (quick: Hamming distance <= 2 from 0^12 and marker^12); configs = absent / full / '
        'no-signatures / no-such-bit / no-attn / no-registers / other-chip / name-only entries / empty entries / null entries / null tables; routes = get_signature (upper, lower), '
        'srcparsers.oe500 (refcode suffix 10 / other), udparsers.oe500 subtype 1 with 0..3 signatures, parsePEL SRC Details; '
        'register dumps = chips 0..2 x registers 0..2 x sizes {1,2,3,4,5,8,255} x 3 configs; subtypes 3,4,5. Non-trivial: at '
        'least one non-zero byte; distinct by (bytes, config, route).')
ASSUMPTIONS = ['chip data files key their model/EC id and hex ids in lower case, as the look-up code documents']

MARK = bytes([0xA1, 0xB2, 0xC3, 0xD4, 0x12, 0x34, 0x56, 0x78, 0x1A, 0x2B, 0x3C, 0x4D])
FULL = {
    'model_ec': {'id': 'a1b2c3d4', 'type': 'proc', 'desc': 'Marker Chip 1.0'},
    'attn_types': {'120': 'marker attention', '0': 'zero attention'},
    'signatures': {'1a2b': ['MARKER_SIG', {'77': 'marker bit description', '0': 'bit zero'}], '0000': ['ZERO_SIG', {'255': 'bit 255'}]},
    'registers': {'aabbcc': ['MARKER_REGISTER_WITH_A_VERY_LONG_NAME_INDEED', {'0': '0x00000000DEADBEEF', '5': '0x8000000012345678',
                                                                            # instance keys are decimal: 10, 16 and 255 are not 'a', '10' and 'ff'
                                                                            '10': '0x0000000010101010', '16': '0x0000000016161616', '255': '0x00000000FFFF00FF'}],
                  '000001': ['REG1', {'1': '0x10'}]},
}


def configs():
    c = {'absent': None, 'full': FULL}
    c['nosigs'] = {k: v for k, v in FULL.items() if k != 'signatures'}
    c['nobit'] = dict(FULL, signatures={'1a2b': ['MARKER_SIG', {}]})
    c['noattn'] = {k: v for k, v in FULL.items() if k != 'attn_types'}
    c['noregs'] = {k: v for k, v in FULL.items() if k != 'registers'}
    # entries that are there but incomplete: a name without its bit/address table, an empty or null entry, null tables
    c['nametonly'] = dict(FULL, signatures={'1a2b': ['MARKER_SIG']}, registers={'aabbcc': ['MARKER_REG_NAME_ONLY']})
    c['emptyentry'] = dict(FULL, signatures={'1a2b': []}, registers={'aabbcc': []})
    c['nullentry'] = dict(FULL, signatures={'1a2b': None}, registers={'aabbcc': None})
    c['nulltables'] = dict(FULL, signatures=None, registers=None, attn_types=None)
    c['other'] = dict(FULL, model_ec={'id': '0badc0de', 'type': 'ocmb', 'desc': 'Other'})
    return c


CONFIGS = configs()
_dirs = {}


def use_config(name):
    """Point the chip-data package at a scratch directory holding the synthetic file (or nothing)."""
    impl.ensure(False)
    import pel.hwdiags.data as pkg
    if '_orig' not in _dirs:
        _dirs['_orig'] = pkg.__file__
    if name not in _dirs:
        d = tempfile.mkdtemp(prefix='c20_', dir=clidrv.scratch_root())
        if CONFIGS[name] is not None:
            with open(os.path.join(d, 'chip_data_marker.json'), 'w') as f:
                json.dump(CONFIGS[name], f)
        _dirs[name] = d
    pkg.__file__ = os.path.join(_dirs[name], '__init__.py')
    data = CONFIGS[name]
    return {data['model_ec']['id']: data} if data else {}


def cleanup():
    if '_orig' in _dirs:
        import pel.hwdiags.data as pkg
        pkg.__file__ = _dirs.pop('_orig')
    for d in _dirs.values():
        shutil.rmtree(d, ignore_errors=True)
    _dirs.clear()


def sig_bytes(vec):
    return bytes(0x00 if v == 0 else MARK[i] if v == 1 else 0xFF for i, v in enumerate(vec))


def quick_vectors():
    out = set()
    for base in (0, 1):
        b = [base] * 12
        out.add(tuple(b))
        for i in range(12):
            for vi in (0, 1, 2):
                v = list(b)
                v[i] = vi
                out.add(tuple(v))
                for j in range(i + 1, 12):
                    for vj in (0, 1, 2):
                        w = list(v)
                        w[j] = vj
                        out.add(tuple(w))
    return sorted(out)


def bounds(tier):
    return {'signature_vectors': 3 ** 12 if tier == 'thorough' else len(quick_vectors()), 'configs': list(CONFIGS),
            'register_sizes': [1, 2, 3, 4, 5, 8, 255]}


def plan(tier, seed):
    ch = [{'k': 'routes', 'cfg': c} for c in CONFIGS]
    ch += [{'k': 'regs', 'cfg': c} for c in ('absent', 'full', 'noregs')]
    ch.append({'k': 'misc'})
    if tier == 'thorough':
        for cfg in ('absent', 'full'):
            for a, b in itertools.product(range(3), repeat=2):
                ch.append({'k': 'sig_all', 'cfg': cfg, 'prefix': [a, b]})
    # the same under python -O (assertions stripped, __debug__ false)
    ch += [dict(c, optimize=True) for c in [{'k': 'routes', 'cfg': 'full'}, {'k': 'regs', 'cfg': 'full'}, {'k': 'misc'}]]
    return ch


def eval_case(case):
    try:
        return _eval(case)
    finally:
        if case.get('_standalone', True):
            pass


def _eval(case):
    data = use_config(case['cfg'])
    out = []
    bad = lambda what, detail: out.append({'key': 'C20:' + what, 'what': '%s: %s [config %s]' % (what, detail, case['cfg']), 'case': case})
    k = case['k']
    if k == 'sig':
        sig = bytes.fromhex(case['sig'])
        want = rhw.signature_doc(data, sig)
        route = case['route']
        try:
            core.arm()
            got = _route(route, sig, case)
            core.disarm()
        except Exception as e:
            core.disarm()
            bad('error', 'route %s raised %r for signature %s' % (route, e, sig.hex()))
            return out
        try:
            shown = [dict(g) for g in got]
        except (TypeError, ValueError):
            shown = [got]           # not the list of objects a signature decode gives
        for g in shown:
            if g != want:
                bad('signature', 'route %s shows %r for %s, expected %r' % (route, g, sig.hex(), want))
                break
    elif k == 'regs':
        try:
            _regs(case, data, bad)
        except (TypeError, AttributeError, KeyError, ValueError, IndexError) as e:
            bad('regdump-lines', 'the register dump output has an unexpected shape (%r)' % (e,))
    elif k == 'api':
        from pel.hwdiags.parserdata import ParserData
        pd = ParserData()
        ec, rid, inst = case['model_ec'], case['id'], case['inst']
        try:
            got = pd.get_reg_data(ec, rid, inst)
            gotc = pd.get_chip_desc(ec, 3, 0x0405)
            gots = pd.get_sig_desc(ec, case['sig_id'], 2, 77)
            gota = pd.get_attn_desc(ec, 120)
        except Exception as e:
            bad('error', 'ParserData raised %r' % (e,))
            return out
        name, addr = rhw.reg_info(data, ec, rid, inst)
        if got != (name, '0x%08X' % addr):
            bad('api-reg', 'get_reg_data(%s, %s, %d) = %r, expected %r' % (ec, rid, inst, got, (name, '0x%08X' % addr)))
        sig = bytes.fromhex(ec) + bytes([0x04, 0x05, 3, 120]) + bytes.fromhex(case['sig_id']) + bytes([2, 77])
        want = rhw.signature_doc(data, sig)
        if (gotc, gots, gota) != (want['Chip Desc'], want['Signature'], want['Attn Type']):
            bad('api-desc', 'ParserData descriptions %r, expected %r' % ((gotc, gots, gota), want))
    elif k == 'misc':
        try:
            _misc(case, bad)
        except (TypeError, AttributeError, KeyError, ValueError, IndexError) as e:
            bad('misc-shape', 'the output of sub-type %s has an unexpected shape (%r)' % (case.get('sub'), e))
    return out


def _route(route, sig, case):
    a, b, c = sig[0:4].hex(), sig[4:8].hex(), sig[8:12].hex()
    if route in ('parser-lower', 'parser-upper'):
        from pel.hwdiags.parserdata import ParserData
        if route.endswith('upper'):
            a, b, c = a.upper(), b.upper(), c.upper()
        return [ParserData().get_signature(a, b, c)]
    if route.startswith('src'):
        from srcparsers.oe500.oe500 import parseSRCToJson
        ref = 'BD8DE510' if route == 'src10' else 'BD8DE520'
        w = ['%08X' % x for x in (0x11111111, 0x22222222, 0x33333333, 0x44444444)]
        doc = json.loads(parseSRCToJson(ref.ljust(32), w[0], w[1], w[2], w[3], a.upper(), b.upper(), c.upper(), '99999999'))
        want_attn = 'system checkstop' if route == 'src10' else 'secondary analysis'
        if doc.get('Primary Attention') != want_attn:
            raise ValueError('Primary Attention %r, expected %r' % (doc.get('Primary Attention'), want_attn))
        return [doc['Signature Description']]
    if route.startswith('ud'):
        n = int(route[2:])
        from udparsers.oe500.oe500 import parseUDToJson
        other = bytes(range(1, 13))
        payload = n.to_bytes(4, 'big') + b''.join(sig if i % 2 == 0 else other for i in range(n))
        doc = json.loads(parseUDToJson(1, 1, memoryview(payload)))
        lst = doc['Signature List']
        if len(lst) != n:
            raise ValueError('%d signatures listed, %d encoded' % (len(lst), n))
        return [x for i, x in enumerate(lst) if i % 2 == 0]
    if route == 'pel-after':
        # "wherever it occurs": the same PEL decoded after other reference-code types of the same creator and component
        # went through the SRC parser dispatch first, from a freshly loaded implementation
        impl.fresh(False)
        use_config(case['cfg'])
        for code in ('BC8AE504', 'BC00E510', '1100E510', 'B700E5AA'):
            decode.parse(pelgen.encode_pel(pelgen.pel_from_spec({'creator': 'O', 'sections': [{'t': 'PS', 'ascii': code.ljust(32)}]})))
        return _route('pel', sig, case)
    if route in ('pel', 'pel-wc8'):
        # (pel-wc8: the reference code declares eight valid words, 2..8 - the signature sits in words 6..8, all still valid)
        words = list(pelgen.SRC_DEFAULT_WORDS)
        words[4:7] = [int.from_bytes(sig[0:4], 'big'), int.from_bytes(sig[4:8], 'big'), int.from_bytes(sig[8:12], 'big')]
        payload = (2).to_bytes(4, 'big') + sig + sig
        p = {'creator': 'O', 'sections': [dict({'t': 'PS', 'ascii': 'BD8DE510'.ljust(32), 'words': words}, **({'wc': 8} if route == 'pel-wc8' else {})),
                                          {'t': 'UD', 'comp': 0xE500, 'sub': 1, 'ver': 1, 'payload': payload.hex()}]}
        r = decode.parse(pelgen.encode_pel(pelgen.pel_from_spec(p)))
        if r['kind'] != 'doc':
            raise ValueError('PEL not decoded: %s %s' % (r['kind'], r.get('msg')))
        d = r['doc']
        return [d['Primary SRC']['SRC Details']['Signature Description']] + d['User Data']['Signature List']
    raise KeyError(route)


REG_RE = re.compile(r'^  (.{25}) \((0x[0-9A-Fa-f]+)\) ?(.*)$')


def _regs(case, data, bad):
    from udparsers.oe500.oe500 import parseUDToJson
    chips = case['chips']
    payload = len(chips).to_bytes(4, 'big')
    for ch in chips:
        payload += bytes.fromhex(ch['model_ec']) + ch['pos'].to_bytes(2, 'big') + bytes([ch['node']]) + len(ch['regs']).to_bytes(4, 'big')
        for r in ch['regs']:
            payload += bytes.fromhex(r['id']) + bytes([r['inst'], len(r['data']) // 2]) + bytes.fromhex(r['data'])
    try:
        core.arm()
        doc = json.loads(parseUDToJson(2, 1, memoryview(payload)))
        core.disarm()
    except Exception as e:
        core.disarm()
        bad('error', 'register dump raised %r' % (e,))
        return
    if not isinstance(doc, dict):
        bad('regdump-lines', 'sub-type 2 (register dump) gives %r, no register dump' % (doc,))
        return
    lines = doc.get('Register Dump')
    want = []
    for ch in chips:
        want.append(('chip', rhw.chip_desc(data, ch['model_ec'], ch['node'], ch['pos'])))
        for r in ch['regs']:
            name, addr = rhw.reg_info(data, ch['model_ec'], r['id'], r['inst'])
            want.append(('reg', name[:25].rstrip(), addr, r['data'].lower()))
    if not isinstance(lines, list) or len(lines) != len(want):
        bad('regdump-lines', '%s lines, expected %d' % (len(lines) if isinstance(lines, list) else lines, len(want)))
        return
    for ln, w in zip(lines, want):
        if w[0] == 'chip':
            if ln.rstrip('*').rstrip() != w[1]:
                bad('regdump-chip', 'chip line %r, expected description %r' % (ln, w[1]))
                return
        else:
            m = REG_RE.match(ln)
            if not m:
                bad('regdump-reg', 'register line %r not in the form "  <name> (<address>) <data>"' % ln)
                return
            got = (m.group(1).rstrip(), int(m.group(2), 16), m.group(3).replace(' ', '').lower())
            if got != w[1:]:
                bad('regdump-reg', 'register line shows %r, expected (name, address, data) %r' % (got, w[1:]))
                return


def _misc(case, bad):
    from udparsers.oe500.oe500 import parseUDToJson
    sub = case['sub']
    raw = bytes.fromhex(case['data'])
    try:
        core.arm()
        doc = json.loads(parseUDToJson(sub, 1, memoryview(raw)))
        core.disarm()
    except Exception as e:
        core.disarm()
        bad('error', 'subtype %d raised %r' % (sub, e))
        return
    if not isinstance(doc, dict):
        bad({3: 'callout-ffdc', 4: 'scratch-regs', 5: 'scratch-sig'}.get(sub, 'error'), 'sub-type %d gives %r' % (sub, doc))
        return
    if sub == 3:
        want = json.loads(raw.rstrip(b'\0').decode('utf8'))
        if doc != {'Callout List FFDC': want}:
            bad('callout-ffdc', 'shown %r, encoded %r' % (doc, want))
    elif sub == 4:
        d = doc.get('Hostboot Scratch Registers', {})
        got = sorted((int(k, 16), int(v, 16)) for k, v in d.items())
        want = sorted({(int.from_bytes(raw[0:4], 'big'), int.from_bytes(raw[4:8], 'big')),
                       (int.from_bytes(raw[8:16], 'big'), int.from_bytes(raw[16:24], 'big'))})
        # a dict cannot hold the same address twice; equal addresses legitimately collapse
        if got != want and not (len(got) == 1 and got[0] in want and int.from_bytes(raw[0:4], 'big') == int.from_bytes(raw[8:16], 'big')):
            bad('scratch-regs', 'shown %r, encoded %r' % (got, want))
    elif sub == 5:
        d = doc.get('Scratch Register Error Signature', {})
        try:
            got = (int(d['Chip ID'], 16), int(d['Signature ID'], 16))
        except Exception:
            got = None
        want = (int.from_bytes(raw[0:4], 'big'), int.from_bytes(raw[4:8], 'big'))
        if got != want:
            bad('scratch-sig', 'shown %r, encoded %r' % (d, want))


def _do(res, case, step=499):
    vs = _eval(case)
    nt = True
    if case['k'] == 'sig':
        nt = any(case['sig'][i] != '0' for i in range(24))
    res.case(nontrivial_key=json.dumps(case) if nt else None, outcome=vs[0]['key'] if vs else 'ok:' + case.get('route', case['k']),
             sample=case if res.evals % step == 1 else None)
    res.add(vs)


ROUTES = ['parser-lower', 'parser-upper', 'src10', 'src20', 'ud0', 'ud1', 'ud2', 'ud3', 'pel', 'pel-after', 'pel-wc8']


def run_chunk(chunk):
    routed = subchunk.route(__name__, chunk)
    if routed is not None:
        return routed
    res = ChunkResult()
    impl.ensure(False)
    k = chunk['k']
    try:
        if k == 'routes':
            for vec in quick_vectors():
                sig = sig_bytes(vec).hex()
                for route in ROUTES:
                    if route in ('pel', 'pel-wc8', 'ud0', 'ud3') and sum(1 for v in vec if v != vec[0]) > 1:
                        continue
                    if route == 'pel-after' and (len(set(vec)) > 1 or chunk['cfg'] not in ('absent', 'full', 'nobit')):
                        continue
                    _do(res, {'k': 'sig', 'cfg': chunk['cfg'], 'sig': sig, 'route': route}, step=1499)
        elif k == 'sig_all':
            data = use_config(chunk['cfg'])
            from pel.hwdiags.parserdata import ParserData
            parser = ParserData()
            n = 0
            core.arm(600)
            for tail in itertools.product(range(3), repeat=10):
                sig = sig_bytes(tuple(chunk['prefix']) + tail)
                a, b, c = sig[0:4].hex(), sig[4:8].hex(), sig[8:12].hex()
                if n % 2:
                    a, b, c = a.upper(), b.upper(), c.upper()
                got = dict(parser.get_signature(a, b, c))
                want = rhw.signature_doc(data, sig)
                n += 1
                if got != want:
                    res.violation('C20:signature', 'get_signature shows %r for %s, expected %r [config %s]' % (got, sig.hex(), want, chunk['cfg']),
                                  {'k': 'sig', 'cfg': chunk['cfg'], 'sig': sig.hex(), 'route': 'parser-upper' if n % 2 == 0 else 'parser-lower'})
            core.disarm()
            res.evals += n
            res.nontrivial_count += n - (1 if chunk['prefix'] == [0, 0] else 0)
            res.outcomes.add('ok:sig_all')
            res.samples.append({'k': 'sig', 'cfg': chunk['cfg'], 'sig': sig_bytes(tuple(chunk['prefix']) + (1,) * 10).hex(), 'route': 'parser-lower'})
        elif k == 'regs':
            ids = [('aabbcc', 0), ('AABBCC', 5), ('000001', 1), ('aabbcc', 9), ('123456', 255), ('aabbcc', 10), ('AABBCC', 16), ('aabbcc', 255)]
            ecs = ['a1b2c3d4', 'A1B2C3D4', '00000000']
            for nchips in range(0, 3):
                for nregs in range(0, 3):
                    for size in (1, 2, 3, 4, 5, 8, 255):
                        for rot in range(3):
                            chips = []
                            for ci in range(nchips):
                                regs = []
                                for ri in range(nregs):
                                    rid, inst = ids[(ci + ri + rot) % len(ids)]
                                    sz = size if ri == 0 else (ri * 3 + 1)
                                    regs.append({'id': rid, 'inst': inst, 'data': bytes((ci * 40 + ri * 17 + i * 5 + 1) & 0xff for i in range(sz)).hex()})
                                chips.append({'model_ec': ecs[(ci + rot) % 3], 'pos': 0x0102 * (ci + 1) + rot, 'node': 7 + ci, 'regs': regs})
                            _do(res, {'k': 'regs', 'cfg': chunk['cfg'], 'chips': chips}, step=97)
            for ec in ('a1b2c3d4', 'A1B2C3D4', 'a1B2c3D4', '0badc0de', '00000000'):
                for rid in ('aabbcc', 'AABBCC', 'AaBbCc', '000001', 'ffffff'):
                    for inst in (0, 1, 5, 10, 16, 255):
                        for sid in ('1a2b', '1A2B', '0000', 'FFFF'):
                            _do(res, {'k': 'api', 'cfg': chunk['cfg'], 'model_ec': ec, 'id': rid, 'inst': inst, 'sig_id': sid})
        elif k == 'misc':
            for v in ({'a': [1, 2]}, ['x'], 'str', {}, {'Callout List': [{'Priority': 'H', 'LocationCode': 'Ufcs-P0'}]}):
                for pad in range(4):
                    _do(res, {'k': 'misc', 'cfg': 'absent', 'sub': 3, 'data': (json.dumps(v).encode() + b'\0' * pad).hex()})
            # the stored text is UTF-8: non-ASCII characters in keys and values, written raw and as \u escapes
            for v in ({'Ort': 'Z\u00fcrich', 'Temp\u00e9rature \u2265 85\u00b0C': ['\u65e5\u672c', '\U0001f600']}, ['caf\u00e9'], '\u00ff\u0100'):
                for ascii_only in (False, True):
                    for pad in (0, 3):
                        _do(res, {'k': 'misc', 'cfg': 'absent', 'sub': 3,
                                  'data': (json.dumps(v, ensure_ascii=ascii_only).encode('utf-8') + b'\0' * pad).hex()})
            for i in range(24):
                for v in (0x01, 0xff):
                    raw = bytearray(24)
                    raw[i] = v
                    _do(res, {'k': 'misc', 'cfg': 'absent', 'sub': 4, 'data': bytes(raw).hex()})
            _do(res, {'k': 'misc', 'cfg': 'absent', 'sub': 4, 'data': bytes(range(1, 25)).hex()})
            for i in range(8):
                for v in (0x01, 0xff):
                    raw = bytearray(8)
                    raw[i] = v
                    _do(res, {'k': 'misc', 'cfg': 'absent', 'sub': 5, 'data': bytes(raw).hex()})
            _do(res, {'k': 'misc', 'cfg': 'absent', 'sub': 5, 'data': bytes(range(0xA1, 0xA9)).hex()})
    finally:
        cleanup()
    return res
