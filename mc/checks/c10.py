"""C10 - look-ups by platform log id, BMC id, entry id and SRC return exactly the matches (E1: directory x query)."""
import itertools
import json
from mc import strictjson
import os
import tempfile

from mc import subchunk, core, pelgen, impl, clidrv
from mc.core import ChunkResult

PROPERTY = 'C10'
LEVEL = 'exploration'
ENGINE = 'E1'
TECHNIQUE = ('bounded-exhaustive enumeration of queries against a directory built from a boundary-id alphabet: every id x 6 '
             'spellings, every one-digit near miss, every decimal BMC id, every substring of every reference code, every '
             'subset of codes as exclude file, all listing orders of 3-file directories, through the real main(); expected '
             'result sets computed from the encoder-side field values')
LEVEL_TEXT = ('The look-up functions compare formatted strings, so the alphabet holds ids on both sides of every width '
              'boundary (0, 1, 0xA, 0xF, 0x10, 0x0FFFFFFF, 0x10000000, ...), PELs sharing a platform log id, hidden and '
              'non-serviceable PELs; every query spelling the statement allows is issued and the answer compared with the '
              'set computed from field values. Directory listing order is an explored environment answer for the two '
              'look-ups that stop at the first match.')
LEVEL_NOTE = ('ids outside the alphabet, PELs without primary SRC under --src/--src-exclude, empty --src and look-ups '
              'combined with selection options are not constrained')
RULE = ('directory = one PEL per id in a 12-value alphabet (PLID != EID) + shared-PLID pair + hidden + non-serviceable + '
        'no-SRC PEL + 36 PELs over severity group x action-flag class; queries: --plid ids x 6 spellings + all one-digit near misses + malformed lengths; --bmc-id 9 values; '
        '-i every entry id x 3 spellings + absent; --src every substring (1..8) of 5 codes + 3 absent; --src-exclude every '
        'subset of the codes; -x variants; 3-file directories in all 6 listing orders; -i / --bmc-id with files that carry the id '
        '(in their name / in a Private Header) but hold no decodable PEL, sorting before and after the real PEL, both listing orders. Non-trivial: expected result set '
        'non-empty; distinct by query.')
ASSUMPTIONS = ['file names follow the BMC convention <timestamp>_<entry id as 8 upper-case hex digits>']

IDS = [0, 1, 0xA, 0xF, 0x10, 0xABC, 0x0FFFFFFF, 0x10000000, 0x50000001, 0x5000000A, 0xABCDEF01, 0xFFFFFFFF]
CODE32 = 'B7009999' + '0123456789ABCDEFGHIJKLMN'
CODES = ['BD8D1234', 'BD8D1235', '11001234', 'B7001111', 'BC8A0ABC']


def directory():
    """[(file name, spec, meta)]"""
    pels = []
    n = len(IDS)
    for i, plid in enumerate(IDS):
        eid = IDS[(i + 5) % n]
        pels.append({'plid': plid, 'eid': eid, 'obmc': [20, 1, 7, 10, 4294967295, 11, 12, 13, 14, 15, 16, 17][i],
                     'code': CODES[i % len(CODES)], 'uh': {'sev': 0x40, 'flags': 0xA000}})
    pels.append({'plid': 0x50000001, 'eid': 0x60000001, 'obmc': 100, 'code': 'BD8D1234', 'uh': {'sev': 0x40, 'flags': 0xA000}})
    pels.append({'plid': 0x0000ABCD, 'eid': 0x60000002, 'obmc': 101, 'code': 'BD8D1235', 'uh': {'sev': 0x40, 'flags': 0x6000}})   # hidden
    pels.append({'plid': 0x0000ABCD, 'eid': 0x60000003, 'obmc': 102, 'code': '11001234', 'uh': {'sev': 0x20, 'flags': 0x0000}})   # non-serviceable
    pels.append({'plid': 0x0000ABCE, 'eid': 0x60000004, 'obmc': 103, 'code': None, 'uh': {'sev': 0x40, 'flags': 0xA000}})        # no SRC
    # "falsy" id values on PELs that only the look-up clause lets through: hidden with BMC id 0 / PLID 0
    pels.append({'plid': 0x00000000, 'eid': 0x60000005, 'obmc': 0, 'code': 'B7001111', 'uh': {'sev': 0x40, 'flags': 0x6000}})
    pels.append({'plid': 0x00000001, 'eid': 0x60000006, 'obmc': 104, 'code': 'B7001111', 'uh': {'sev': 0x00, 'flags': 0x0000}})  # informational
    # every class of PEL is found: severity group x (service action, hidden, report, call home) flag combinations, incl. the
    # ones where "serviceable" and "hidden" hold together (informational + service action + hidden)
    j = 0
    for sev in (0x00, 0x10, 0x20, 0x40, 0x51, 0x71):
        for flags in (0x0000, 0x4000, 0x8000, 0xC000, 0x6800, 0xE000):
            pels.append({'plid': 0x0000B000 + j, 'eid': 0x61000000 + j, 'obmc': 200 + j, 'code': CODES[j % len(CODES)],
                         'uh': {'sev': sev, 'flags': flags}})
            j += 1
    # a reference code that fills all 32 characters of its field
    pels.append({'plid': 0x0000B100, 'eid': 0x61000100, 'obmc': 300, 'code': CODE32, 'uh': {'sev': 0x40, 'flags': 0xA000}})
    out = []
    for i, m in enumerate(pels):
        secs = [{'t': 'UD', 'comp': 0xABCD, 'payload': '%02x' % i}]
        if m['code']:
            secs.insert(0, {'t': 'PS', 'ascii': m['code'].ljust(32)})
        if i % 5 == 2 or not m['code']:
            # a section without payload in front of (or instead of) the primary SRC: the summary has to step over it
            secs.insert(0, {'t': 'UD', 'comp': 0x1234, 'payload': ''})
            secs.insert(1, {'t': 'ZZ', 'payload': ''})
        spec = {'plid': m['plid'], 'eid': m['eid'], 'obmc': m['obmc'], 'uh': m['uh'], 'sections': secs}
        name = '20230715%05d_%08X' % (12 + i * 7, m['eid'])
        out.append((name, spec, m))
    return out


DIR = directory()
N_BASE = 18          # the PELs of the id alphabet; the severity / action-flag class PELs follow


def spellings(v):
    u, l = '%08X' % v, '%08x' % v
    mixed = ''.join(c.upper() if i % 2 else c.lower() for i, c in enumerate(u))
    return [u, l, '0x' + u, '0x' + l, '0X' + u, '0x' + mixed]


def bounds(tier):
    return {'ids': len(IDS), 'pels': len(DIR), 'codes': len(CODES), 'listing_orders': 'sorted+reversed; all 6 for 3-file dirs'}


def plan(tier, seed):
    parts = 4 if tier == 'quick' else 16
    return [{'k': 'plid', 'part': p, 'parts': parts, 'tier': tier} for p in range(parts)] + \
        [{'k': 'bmc', 'tier': tier}, {'k': 'id', 'tier': tier}, {'k': 'id_junk'}, {'k': 'bmc_junk'}, {'k': 'src'}, {'k': 'srcx'}, {'k': 'classes'}, {'k': 'archived'}, {'k': 'perm', 'tier': tier}, {'k': 'subproc'}] + \
        [dict(c, optimize=True) for c in        # the same under python -O (assertions stripped, __debug__ false)
         [{'k': 'plid', 'part': 0, 'parts': 4, 'tier': 'quick'}, {'k': 'bmc', 'tier': 'quick'}, {'k': 'id', 'tier': 'quick'}, {'k': 'id_junk'}, {'k': 'bmc_junk'}, {'k': 'src'}, {'k': 'classes'}, {'k': 'archived'}]]


ARCHIVED = {'eid': 0x6200AA01, 'plid': 0x0000AA01, 'obmc': 987654, 'code': 'B7AR0001'}


def build(d, entries=None):
    for name, spec, m in (entries or DIR):
        with open(os.path.join(d, name), 'wb') as f:
            f.write(pelgen.encode_pel(pelgen.pel_from_spec(spec)))
    if entries is None:
        # a subdirectory (the BMC keeps logs/archive below logs) with a PEL of its own: look-ups are about the PEL directory
        os.mkdir(os.path.join(d, 'archive'))
        with open(os.path.join(d, 'archive', '20230101000001_%08X' % ARCHIVED['eid']), 'wb') as f:
            f.write(pelgen.encode_pel(pelgen.pel_from_spec({'eid': ARCHIVED['eid'], 'plid': ARCHIVED['plid'], 'obmc': ARCHIVED['obmc'],
                                                           'sections': [{'t': 'PS', 'ascii': ARCHIVED['code'].ljust(32)}]})))


def list_keys(stdout):
    v = strictjson.loads(stdout)
    if not isinstance(v, dict):
        raise ValueError('not a JSON object')
    return sorted(int(k, 16) for k in v), v


def classify(case, what):
    if case['q'] == 'plid':
        try:
            v = int(case['arg'], 16)
        except ValueError:
            v = 1 << 40
        if v < 0x10000000:
            return 'F8:ids-below-0x10000000-not-zero-padded'
    return 'C10:' + what


def eval_case(case, d=None):
    impl.ensure(False)
    if d is None:
        with tempfile.TemporaryDirectory(prefix='c10_case_12345678_', dir=clidrv.odd_root()) as dd:
            entries = DIR if 'files' not in case else [DIR[i] for i in case['files']]
            build(dd, entries if 'files' in case else None)
            for name, kind in case.get('junk', []):
                with open(os.path.join(dd, name), 'wb') as f:
                    f.write({'json': b'{\n    "Private Header": {}\n}\n', 'empty': b'', 'random': bytes(range(7, 90)),
                             'truncated': pelgen.encode_pel(pelgen.pel_from_spec(DIR[0][1]))[:60],
                             # complete Private Header (with the BMC id of DIR[1]) followed by something that is not a User Header
                             'ph-only': (lambda b: b[:48] + b'XH' + b[50:])(pelgen.encode_pel(pelgen.pel_from_spec(DIR[1][1]))),
                             'ph-then-junk': pelgen.encode_pel(pelgen.pel_from_spec(DIR[1][1]))[:48] + bytes(range(64))}[kind])
            return eval_case(case, dd)
    entries = DIR if 'files' not in case else [DIR[i] for i in case['files']]
    q, arg = case['q'], case['arg']
    order = case.get('order', 'sorted')
    out = []
    bad = lambda what, detail: out.append({'key': classify(case, what), 'what': '%s: %s (query --%s %s)' % (what, detail, q, arg), 'case': case})
    argv = ['-p', d]
    tmp = None
    if q == 'plid':
        argv += ['--plid', arg]
    elif q == 'bmc':
        argv += ['--bmc-id', arg]
    elif q == 'id':
        argv += ['-i', arg]
    elif q == 'src':
        argv += ['--src', arg]
    elif q == 'srcx':
        tmp = tempfile.NamedTemporaryFile('w', prefix='c10x_', dir=clidrv.odd_root(), delete=False)
        tmp.write(''.join(c + '\n' for c in arg))
        tmp.close()
        argv += ['--src-exclude', tmp.name]
    if case.get('hex'):
        argv.append('-x')
    try:
        core.arm(30)
        r = clidrv.run_main(argv, order=order, isolate=True)
        core.disarm()
    finally:
        if tmp:
            os.unlink(tmp.name)
    if r.exc:
        bad('exception', 'exception escaped main(): %s' % r.exc)
        return out
    if case.get('malformed'):
        if r.status not in (0, 1) or 'Traceback' in r.stderr:
            bad('malformed-query', 'status %r' % r.status)
        return out
    if r.status != 0:
        bad('exit', 'status %r: %s' % (r.status, r.stderr[-100:]))
        return out
    if q in ('plid', 'src', 'srcx'):
        if q == 'plid':
            want = sorted(m['eid'] for _, _, m in entries if m['plid'] == int(arg, 16))
            maybe = []
        elif q == 'src':
            want = sorted(m['eid'] for _, _, m in entries if m['code'] and arg in m['code'])
            maybe = [m['eid'] for _, _, m in entries if not m['code']]
        else:
            want = sorted(m['eid'] for _, _, m in entries if m['code'] and m['code'] not in arg)
            maybe = [m['eid'] for _, _, m in entries if not m['code']]
        if case.get('hex'):
            from mc.ref import hexdump as rhex
            blocks = clidrv.split_hex_blocks(r.stdout)
            if blocks is None:
                bad('hex-markers', 'not a sequence of Begin/End blocks')
                return out
            files = {pelgen.encode_pel(pelgen.pel_from_spec(s)): m['eid'] for _, s, m in entries}
            got = sorted(files.get(rhex.read_default(b), -1) for b in blocks)
        else:
            try:
                got, v = list_keys(r.stdout)
            except Exception as e:
                bad('not-json', 'stdout does not parse: %s' % e)
                return out
        got = [g for g in got if g not in maybe]
        if got != want:
            bad('result-set', 'listed %s, expected exactly %s' % (['%08X' % g for g in got], ['%08X' % w for w in want]))
        LAST['n'] = len(want)
    else:
        if q == 'bmc':
            cands = [m['eid'] for _, _, m in entries if str(m['obmc']) == arg]
        else:
            v = int(arg, 16)
            cands = [m['eid'] for name, _, m in entries if ('%08X' % v) in name]     # junk files are not PELs
        LAST['n'] = len(cands)
        text = r.stdout.strip()
        if not cands:
            if text != 'PEL not found':
                bad('not-found', 'expected "PEL not found", got %r' % text[:80])
        else:
            try:
                doc = strictjson.loads(text)
                got = int(doc['Private Header']['Entry Id'], 16)
            except Exception as e:
                bad('no-document', 'expected the document of entry %s, stdout %r' % (['%08X' % c for c in cands], text[:80]))
                return out
            if got not in cands:
                bad('wrong-pel', 'displayed entry %08X, expected one of %s' % (got, ['%08X' % c for c in cands]))
    return out


LAST = {'n': 0}


def _do(res, d, case, step=97):
    LAST['n'] = 0
    vs = eval_case(case, d)
    if case.get('junk'):
        LAST['n'] += 1
    res.case(nontrivial_key=json.dumps(case) if LAST['n'] else None, outcome=vs[0]['key'] if vs else 'ok:%s:%d' % (case['q'], min(LAST['n'], 2)),
             sample=case if res.evals % step == 1 else None)
    res.add(vs)


def run_chunk(chunk):
    routed = subchunk.route(__name__, chunk)
    if routed is not None:
        return routed
    res = ChunkResult()
    impl.ensure(False)
    k = chunk['k']
    with tempfile.TemporaryDirectory(prefix='c10_case_12345678_', dir=clidrv.odd_root()) as d:
        if k != 'perm':
            build(d)
        if k == 'plid':
            qs = []
            present = sorted({m['plid'] for _, _, m in DIR[:N_BASE]})
            for v in present + [m['eid'] for _, _, m in DIR[:4]]:
                for s in spellings(v):
                    qs.append({'q': 'plid', 'arg': s})
            for v in present:
                u = '%08X' % v
                for pos in range(8):
                    for repl in ('0F1' if chunk.get('tier') != 'thorough' else '0123456789ABCDEF'):
                        if u[pos] != repl:
                            qs.append({'q': 'plid', 'arg': u[:pos] + repl + u[pos + 1:]})
            for s in ('1', '0000001', '000000001', '0x1', 'ABCDEF0', '0xABCDEF012', 'zzzzzzzz'):
                qs.append({'q': 'plid', 'arg': s, 'malformed': True})
            for v in (1, 0x50000001, 0xABCD):
                qs.append({'q': 'plid', 'arg': '%08X' % v, 'hex': True})
            for i, c in enumerate(qs):
                if i % chunk['parts'] == chunk['part']:
                    for order in (['sorted'] if i % 5 else ['sorted', 'reversed']):
                        _do(res, d, dict(c, order=order))
        elif k == 'classes':
            for _, _, m in DIR[N_BASE:]:
                for order in ('sorted', 'reversed'):
                    _do(res, d, {'q': 'plid', 'arg': '%08X' % m['plid'], 'order': order})
                    _do(res, d, {'q': 'id', 'arg': '%08X' % m['eid'], 'order': order})
                    _do(res, d, {'q': 'bmc', 'arg': str(m['obmc']), 'order': order})
                _do(res, d, {'q': 'plid', 'arg': '%08X' % m['plid'], 'hex': True})
        elif k == 'archived':
            # ids that only the PEL in the subdirectory carries: not found / not listed
            for order in ('sorted', 'reversed'):
                _do(res, d, {'q': 'bmc', 'arg': str(ARCHIVED['obmc']), 'order': order})
                _do(res, d, {'q': 'id', 'arg': '%08X' % ARCHIVED['eid'], 'order': order})
                _do(res, d, {'q': 'plid', 'arg': '%08X' % ARCHIVED['plid'], 'order': order})
                _do(res, d, {'q': 'src', 'arg': ARCHIVED['code'], 'order': order})
            _do(res, d, {'q': 'src', 'arg': 'B7AR', 'hex': True})
        elif k == 'bmc':
            for v in ([0, 1, 7, 10, 20, 4294967295, 100, 101, 102, 103, 104, 2, 8, 4294967294, 42949672950] +
                      (list(range(3, 120)) if chunk.get('tier') == 'thorough' else [])):
                for order in ('sorted', 'reversed'):
                    _do(res, d, {'q': 'bmc', 'arg': str(v), 'order': order})
        elif k == 'id':
            for _, _, m in DIR:
                for s in (spellings(m['eid'])[0], spellings(m['eid'])[1], spellings(m['eid'])[3]):
                    for order in ('sorted', 'reversed'):
                        _do(res, d, {'q': 'id', 'arg': s, 'order': order})
            for v in (2, 0x50000002, 0xFFFFFFFE, 0x12345678):
                _do(res, d, {'q': 'id', 'arg': '%08X' % v})
            for s in ('1', '123456789'):
                _do(res, d, {'q': 'id', 'arg': s, 'malformed': True})
        elif k == 'id_junk':
            # files that are not PELs but carry an entry id in their name (the *.json files an earlier --json run leaves
            # next to the PELs, damaged or empty logs): they are not "the PEL stored under entry id E"
            files = [0, 1, 12]
            for kind in ('json', 'empty', 'random', 'truncated'):
                for order in ('sorted', 'reversed'):
                    for i in files:
                        name, _, m = DIR[i]
                        e = '%08X' % m['eid']
                        # next to the PEL of that id, sorting after it and before it
                        for jn in (name + '.' + e + '.json', '0' + name + '.' + e + '.json'):
                            _do(res, None, {'q': 'id', 'arg': e, 'order': order, 'files': files, 'junk': [[jn, kind]]})
                        # an id that only the junk file carries
                        _do(res, None, {'q': 'id', 'arg': '7000000A', 'order': order, 'files': files,
                                        'junk': [['20230715_7000000A' + ('.json' if kind == 'json' else ''), kind]]})
        elif k == 'bmc_junk':
            # a damaged file whose Private Header carries BMC id N is not "a PEL whose BMC event log id is N"
            n = str(DIR[1][2]['obmc'])
            for kind in ('ph-only', 'ph-then-junk'):
                for order in ('sorted', 'reversed'):
                    for jn in ('00000000_junk', 'zzzzzzzz_junk'):
                        # next to the PEL with that id: sorting before it and after it
                        _do(res, None, {'q': 'bmc', 'arg': n, 'order': order, 'files': [0, 1, 12], 'junk': [[jn, kind]]})
                        # the damaged file is the only carrier of the id
                        _do(res, None, {'q': 'bmc', 'arg': n, 'order': order, 'files': [0, 12], 'junk': [[jn, kind]]})
        elif k == 'src':
            subs = set()
            for c in CODES:
                for i in range(8):
                    for j in range(i + 1, 9):
                        subs.add(c[i:j])
            for s in sorted(subs) + ['ZZZZ', 'BD8D1236', 'bd8d1234']:
                _do(res, d, {'q': 'src', 'arg': s})
            for s in ('BD8D', '1100', 'B7'):
                _do(res, d, {'q': 'src', 'arg': s, 'hex': True})
            # the length boundary of the search string: the whole 32-character field, one less at either end, one more
            for s in (CODE32, CODE32[:31], CODE32[1:], CODE32[8:], CODE32[:16]):
                _do(res, d, {'q': 'src', 'arg': s})
            _do(res, d, {'q': 'src', 'arg': CODE32 + 'X', 'malformed': True})
            _do(res, d, {'q': 'srcx', 'arg': [CODE32]})
            _do(res, d, {'q': 'srcx', 'arg': [CODE32[:31]]})
        elif k == 'srcx':
            for n in range(len(CODES) + 1):
                for sub in itertools.combinations(CODES, n):
                    _do(res, d, {'q': 'srcx', 'arg': list(sub)})
            _do(res, d, {'q': 'srcx', 'arg': ['ZZZZ9999'], 'hex': True})
        elif k == 'perm':
            for files in ([[0, 3, 12], [8, 12, 14], [13, 14, 15]] if chunk.get('tier') != 'thorough' else
                          [list(c) for c in itertools.combinations(range(len(DIR)), 3)][::7]):
                sub = os.path.join(d, 'p' + '_'.join(str(x) for x in files))
                os.mkdir(sub)
                build(sub, [DIR[i] for i in files])
                for perm in itertools.permutations(range(3)):
                    for i in files:
                        m = DIR[i][2]
                        _do(res, sub, {'q': 'id', 'arg': '%08X' % m['eid'], 'order': list(perm), 'files': files})
                        _do(res, sub, {'q': 'bmc', 'arg': str(m['obmc']), 'order': list(perm), 'files': files})
                        _do(res, sub, {'q': 'plid', 'arg': '%08X' % m['plid'], 'order': list(perm), 'files': files})
        elif k == 'subproc':
            n_ok = 0
            for argv in (['--plid', '00000001'], ['--plid', '0x50000001'], ['--plid', '0000ABCD'], ['--bmc-id', '7'], ['--bmc-id', '999'],
                         ['-i', '%08X' % DIR[0][2]['eid']], ['-i', '0x%08x' % DIR[13][2]['eid']], ['-i', '12345678'],
                         ['--src', 'BD8D'], ['--src', 'nomatch'], ['--plid', '123']):
                rc, so, se = clidrv.run_subprocess(['-p', d] + argv)
                r = clidrv.run_main(['-p', d] + argv, isolate=True)
                case = {'subprocess': True, 'argv': argv}
                res.case(nontrivial_key=json.dumps(case), outcome='subproc:%s' % rc)
                if (rc, so) != (r.status, r.stdout):
                    res.violation('C10:conformance', 'real executable and in-process driver disagree for %s' % argv, case)
                else:
                    n_ok += 1
            res.extra['traces_validated_against_impl'] = n_ok
    return res
