"""C11 - only delete options remove files, and only the files they name (E4: explicit-state search over directory trees)."""
import collections
import json
import os
import shutil
import tempfile

from mc import subchunk, core, pelgen, impl, clidrv
from mc.core import ChunkResult

PROPERTY = 'C11'
LEVEL = 'model_checking'
ENGINE = 'E4'
TECHNIQUE = ('explicit-state breadth-first search over directory-tree states: every subset of an 8-entry menu as initial '
             'state, every CLI mode/option combination as a transition executed by the real main() on a real directory, '
             'states deduplicated on their recursive snapshot, depth 2 (quick) / 3 (thorough); each transition checked '
             'against a dict reference model of the allowed effect; subprocess replays of a fixed subset')
LEVEL_TEXT = ('A state is the full recursive snapshot (path, type, size, hash) of a scratch root holding the PEL directory, '
              'the -o directory, the exclude file and a sibling file, so any effect anywhere is seen. From every state every '
              'command of the menu (all modes, with -r/-e/-E/-x variants, present / absent / archive-only / malformed ids, both '
              'listing orders for -d) is run through the real main(); the resulting snapshot must be one the effect model '
              'allows: identity for read-only modes, minus exactly one top-level file containing the id for -d, minus all '
              'top-level regular files for -D, plus only <file>.<entry id>.json in the output directory for -j.')
LEVEL_NOTE = ('trees beyond the menu are not explored; of the non-regular entries only a dangling symbolic link is included (a '
              'FIFO would block every reading mode); --clean ordering is C12')
RULE = ('initial states = all subsets of {T1_50000001, T2_50000002, T3_50000002.bak, other.txt, archive/T4_50000004, '
        'archive/T5_50000001, 50000001/ (directory), T6_00500A07 (id with leading zeros)}; transitions = 58 command templates; BFS to depth 2 (quick) or 3 '
        '(thorough) with snapshot deduplication. Non-trivial: transition whose model effect is not the identity, or any '
        'transition from a non-initial state; distinct by (state, command).')
ASSUMPTIONS = ['which of several files containing the id --delete removes is not fixed']

P1 = pelgen.encode_pel(pelgen.pel_from_spec({'eid': 0x50000001, 'plid': 0x50000001, 'obmc': 1, 'sections': [{'t': 'PS'}]}))
P2 = pelgen.encode_pel(pelgen.pel_from_spec({'eid': 0x50000002, 'plid': 0x50000002, 'obmc': 2, 'sections': [{'t': 'PS'}, {'t': 'MT'}]}))
P4 = pelgen.encode_pel(pelgen.pel_from_spec({'eid': 0x50000004, 'plid': 0x50000004, 'obmc': 4, 'sections': [{'t': 'PS'}]}))
P5 = pelgen.encode_pel(pelgen.pel_from_spec({'eid': 0x50000001, 'plid': 0x50000005, 'obmc': 5, 'uh': {'flags': 0x6000}, 'sections': [{'t': 'PS'}]}))
P6 = pelgen.encode_pel(pelgen.pel_from_spec({'eid': 0x00500A07, 'plid': 0x00000A07, 'obmc': 6, 'sections': [{'t': 'PS'}]}))
EID_OF = {P1: '50000001', P2: '50000002', P4: '50000004', P5: '50000001', P6: '00500A07'}
MENU = [('pels/T1_50000001', P1), ('pels/T2_50000002', P2), ('pels/T3_50000002.bak', P2), ('pels/.other.txt', b'not a pel\n'),
        ('pels/archive/T4_50000004', P4), ('pels/archive/T5_50000001', P5), ('pels/50000001/inner_50000001', P1),
        ('pels/T6_00500A07', P6)]
FIXED = {'pels': None, 'out': None, 'sibling_50000001.txt': b'outside the pel directory\n', 'exclude.txt': b'BD8D9999\n',
         # in the output directory: one output name is taken by a directory (that file cannot be created), and a file sits
         # under the name a "write to a temporary name first" scheme would pick
         'out/T2_50000002.50000002.json': None, 'out/T1_50000001.50000001.json.tmp': b'a note, not a temporary file\n',
         'out/T6_00500A07.00500A07.json~': b'an editor backup\n'}

COMMANDS = [
    ['-l'], ['-l', '-E'], ['-l', '-r', '-e', '.bak'], ['-a'], ['-a', '-E', '-x'], ['-a', '-E', '-r'], ['-n'], ['-n', '-E'],
    ['-l', '-x', '-E'], ['-i', '50000001'], ['-i', '50000003'], ['-i', '50000004'], ['-i', '50000001', '-x'],
    ['--bmc-id', '1'], ['--bmc-id', '77'], ['--plid', '50000001'], ['--src', 'BD8D'], ['--src-exclude', '@exclude.txt'],
    ['-f', '@pels/T1_50000001'], ['-f', '@pels/T1_50000001', '-x'], ['-f', '@pels/.other.txt'], ['-f', '@pels/archive/T4_50000004'],
    ['-j'], ['-j', '-o', '@out'], ['-j', '-e', '.bak', '-o', '@out'], ['-j', '-E', '-o', '@out'], ['-j', '-E'],
    ['-d', '50000001'], ['-d', '0x50000002'], ['-d', '50000003'], ['-d', '50000004'], ['-d', '00500a07'], ['-i', '0x00500A07'], ['-d', '5000000'], ['-d', '50000002', '-e', '.bak'],
    ['-i', '50000001', '-c'], ['-i', '0x50000002', '-x', '-c'], ['-l', '-c'], ['-a', '-E', '-c'], ['-n', '-c'], ['--plid', '50000001', '-c'],
    ['--src', 'BD8D', '-c'], ['--bmc-id', '2', '-c'], ['--src-exclude', '@exclude.txt', '-c'],
    ['-j', '-o', '@nodir'], ['-j', '-c', '-E', '-o', '@nodir'], ['-j', '-o', '@pels/T1_50000001'], ['-j', '-c', '-E', '-o', '@exclude.txt'],
    ['-D'], ['-D', '-e', '.bak'], ['-j', '-c', '-E', '-o', '@out'], ['-f', '@pels/T2_50000002', '-c'], ['-l', '-P'],
    # ids of the wrong length whose digits occur in file names: with the 0x prefix making up the 8 characters, 9 digits, 7 + prefix
    ['-d', '0x500000'], ['-d', '0X0000001'], ['-d', '500000010'],
    # --json --clean with an extension filter: a file the filter leaves out is neither converted nor removed, whichever files
    # were converted before it in the listing (run in both listing orders)
    ['-j', '-c', '-E', '-e', '.bak', '-o', '@out'], ['-j', '-c', '-e', '.txt'],
]


def bounds(tier):
    return {'initial_states': 256, 'commands': len(COMMANDS), 'depth': 2 if tier == 'quick' else 3,
            'listing_orders_for_delete': ['sorted', 'reversed']}


LINK = ('pels/zz_last_archived', ('link', 'archive/T9_missing'))     # dangling symbolic link: not a regular file
LINK_MASKS = [0, 255, 0b10001011, 0b00000100]


def plan(tier, seed):
    ch = [{'k': 'bfs', 'mask': m, 'depth': 2 if tier == 'quick' else 3} for m in range(256)]
    ch += [{'k': 'bfs', 'mask': m, 'link': True, 'depth': 2 if tier == 'quick' else 3} for m in LINK_MASKS]
    ch.append({'k': 'subproc'})
    ch.append({'k': 'linkpath'})
    # the same under python -O (assertions stripped, __debug__ false)
    ch += [dict(c, optimize=True) for c in [{'k': 'bfs', 'mask': 255, 'depth': 2}, {'k': 'bfs', 'mask': 0, 'depth': 2}, {'k': 'bfs', 'mask': LINK_MASKS[0], 'link': True, 'depth': 2}]]
    return ch


def initial_tree(mask, link=False):
    t = dict(FIXED)
    if link:
        t[LINK[0]] = LINK[1]
    for i, (path, content) in enumerate(MENU):
        if mask >> i & 1:
            parts = path.split('/')
            for j in range(1, len(parts)):
                t['/'.join(parts[:j])] = None
            t[path] = content
    return t


def canon(tree):
    return json.dumps(sorted((p, None if c is None else 'link:' + c[1] if isinstance(c, tuple) else core.h8(c)) for p, c in tree.items()))


def materialize(root, tree):
    for p in sorted(tree):
        full = os.path.join(root, p)
        if tree[p] is None:
            os.makedirs(full, exist_ok=True)
        elif isinstance(tree[p], tuple):
            os.makedirs(os.path.dirname(full), exist_ok=True)
            os.symlink(tree[p][1], full)
        else:
            os.makedirs(os.path.dirname(full), exist_ok=True)
            with open(full, 'wb') as f:
                f.write(tree[p])


def read_tree(root):
    t = {}
    for base, dirs, files in os.walk(root):
        rel = os.path.relpath(base, root)
        for d in dirs:
            t[os.path.normpath(os.path.join(rel, d))] = None
        for f in files:
            full = os.path.join(base, f)
            if os.path.islink(full):
                t[os.path.normpath(os.path.join(rel, f))] = ('link', os.readlink(full))
                continue
            with open(full, 'rb') as fh:
                t[os.path.normpath(os.path.join(rel, f))] = fh.read()
    return t


def top_files(tree, d='pels', links=False):
    """regular files directly in d (links=True: also symbolic links, which a name match of --delete may pick)"""
    return sorted(p for p, c in tree.items() if c is not None and os.path.dirname(p) == d and (links or not isinstance(c, tuple)))


def model(before, cmd, after, stdout):
    """-> list of (key, text) problems: is `after` an allowed successor of `before` under cmd?"""
    probs = []
    removed = sorted(p for p in before if p not in after)
    added = sorted(p for p in after if p not in before)
    changed = sorted(p for p in before if p in after and before[p] != after[p])
    mode = cmd[0]
    if mode == '-d':
        e = cmd[1].upper()
        if e.startswith('0X'):
            e = e[2:]
        cands = [p for p in top_files(before, links=True) if e in os.path.basename(p)] if len(e) == 8 else []
        if added or changed:
            probs.append(('delete-side-effect', 'added %s changed %s' % (added, changed)))
        if not cands:
            if removed:
                probs.append(('delete-wrong-file', '--delete %s removed %s although no top-level file name contains the id' % (cmd[1], removed)))
            elif len(e) == 8 and 'PEL not found' not in stdout:
                probs.append(('delete-not-found', '"PEL not found" not reported'))
        else:
            if len(removed) != 1 or removed[0] not in cands:
                probs.append(('delete-wrong-file', '--delete %s removed %s; exactly one of %s expected' % (cmd[1], removed, cands)))
        return probs
    if mode == '-D':
        want = top_files(before)
        if removed != want or added or changed:
            probs.append(('delete-all', '--delete-all removed %s (top-level regular files: %s), added %s, changed %s' % (removed, want, added, changed)))
        return probs
    if mode == '-j':
        outdir = 'out' if '-o' in cmd else 'pels'
        if '-o' in cmd and cmd[cmd.index('-o') + 1] != 'out':
            # the chosen output directory does not exist (or is a file): nothing may be written anywhere, nothing removed
            if removed or added or changed:
                probs.append(('json-no-output-dir', '--json -o %s (not a directory): removed %s added %s changed %s'
                              % (cmd[cmd.index('-o') + 1], removed, added, changed)))
            return probs
        ext = cmd[cmd.index('-e') + 1] if '-e' in cmd else None
        allowed = {}
        for p in top_files(before):
            if ext and os.path.splitext(p)[1] != ext:
                continue
            eid = EID_OF.get(before[p])
            if eid:
                allowed[outdir + '/' + os.path.basename(p) + '.' + eid + '.json'] = p
        for p in added + changed:
            if p not in allowed:
                probs.append(('json-stray-file', '--json created/modified %s; allowed names: %s' % (p, sorted(allowed))))
        if '-c' in cmd:
            for p in removed:
                outs = [o for o, src in allowed.items() if src == p]
                if not outs or outs[0] not in after:
                    probs.append(('clean-removed', '--clean removed %s without its output file' % p))
        elif removed:
            probs.append(('json-removed', '--json removed %s' % removed))
        return probs
    if mode == '-f' and '-c' in cmd:
        target = cmd[1]
        if added or changed or [p for p in removed if p != target]:
            probs.append(('file-clean', '-f --clean: removed %s added %s changed %s' % (removed, added, changed)))
        return probs
    if removed or added or changed:
        probs.append(('read-only-mode-changed-tree', '%s: removed %s added %s changed %s' % (' '.join(cmd), removed, added, changed)))
    return probs


def run_cmd(tree, cmd, order):
    # the directory path itself carries an entry id (50000003, which no file name has): only names may be matched
    root = tempfile.mkdtemp(prefix='c11_case_50000003_', dir=clidrv.odd_root())
    try:
        materialize(root, tree)
        argv = []
        if cmd[0] != '-f':
            argv += ['-p', os.path.join(root, 'pels')]
        argv += [os.path.join(root, a[1:]) if a.startswith('@') else a for a in cmd]
        core.arm(30)
        r = clidrv.run_main(argv, order=order)
        core.disarm()
        after = read_tree(root)
    finally:
        shutil.rmtree(root, ignore_errors=True)
    return r, after


def rel_cmd(cmd):
    return [a[1:] if a.startswith('@') else a for a in cmd]


LINKPATH_TREE = {'pels': None, 'out': None, 'pels/T1_50000001': P1, 'pels/T2_50000002': P2, 'pels/.other.txt': b'not a pel\n', 'pels/sub': None,
                 'pels/sub/inner_50000004': P4, 'site': None, 'site/logs': None, 'site/logs/D1_50000001': P1, 'site/logs/D4_50000004': P4,
                 'site/logs/notes.txt': b'unrelated\n', 'site/logs/current': ('link', '../../pels/sub')}


def eval_case(case, tree=None):
    impl.ensure(False)
    if case.get('linkpath'):
        return _linkpath_case(case, tree or LINKPATH_TREE)
    tree = initial_tree(case['mask'], case.get('link', False))
    for step in case['path']:
        r, tree = run_cmd(tree, COMMANDS[step[0]], step[1])
    cmd = COMMANDS[case['cmd']]
    r, after = run_cmd(tree, cmd, case['order'])
    probs = model(tree, rel_cmd(cmd), after, r.stdout)
    return [{'key': 'C11:' + k, 'what': '%s (after %s from initial subset %s)' % (t, [COMMANDS[s[0]] for s in case['path']],
             [MENU[i][0] for i in range(len(MENU)) if case['mask'] >> i & 1]), 'case': case} for k, t in probs]


LINKPATH_CMDS = [['-l'], ['-a', '-E'], ['-n'], ['-i', '50000002'], ['-d', '50000001'], ['-d', '50000004'], ['-D'], ['-j'], ['-j', '-o', '@out'],
                 ['-j', '-c', '-E', '-o', '@out'], ['--plid', '50000001', '-c']]


def _linkpath(res):
    """The PEL directory is the directory the given path names to the operating system: a path with `..` behind a symbolic
    link (logs/current/.. where `current` links into another tree) is that other tree's directory, not logs."""
    tree = LINKPATH_TREE
    for ci, cmd in enumerate(LINKPATH_CMDS):
        for order in (['sorted', 'reversed'] if cmd[0] in ('-d', '-i') else ['sorted']):
            case = {'linkpath': True, 'cmd': ci, 'order': order}
            vs = eval_case(case, tree=tree)
            res.case(nontrivial_key=json.dumps(case), outcome='bad:' + vs[0]['key'] if vs else 'linkpath:' + cmd[0])
            res.add(vs)
    return res


def _linkpath_case(case, tree):
    cmd = LINKPATH_CMDS[case['cmd']]
    root = tempfile.mkdtemp(prefix='c11_link_50000003_', dir=clidrv.odd_root())
    try:
        materialize(root, tree)
        before = read_tree(root)
        argv = ['-p', os.path.join(root, 'site', 'logs', 'current', '..')] + [os.path.join(root, a[1:]) if a.startswith('@') else a for a in cmd]
        core.arm(30)
        r = clidrv.run_main(argv, order=case['order'])
        core.disarm()
        after = read_tree(root)
    finally:
        shutil.rmtree(root, ignore_errors=True)
    probs = model(before, rel_cmd(cmd), after, r.stdout)
    return [{'key': 'C11:' + k, 'what': '-p <site>/logs/current/.. (current -> <other tree>/pels/sub, so the PEL directory is <other tree>/pels) %s: %s'
             % (' '.join(rel_cmd(cmd)), t), 'case': case} for k, t in probs]


def run_chunk(chunk):
    routed = subchunk.route(__name__, chunk)
    if routed is not None:
        return routed
    res = ChunkResult()
    impl.ensure(False)
    if chunk['k'] == 'subproc':
        return _subproc(res)
    if chunk['k'] == 'linkpath':
        return _linkpath(res)
    mask = chunk['mask']
    init = initial_tree(mask, chunk.get('link', False))
    seen = {canon(init): []}
    frontier = collections.deque([(init, [])])
    trans = 0
    while frontier:
        tree, path = frontier.popleft()
        for ci, cmd in enumerate(COMMANDS):
            orders = ['sorted', 'reversed'] if cmd[0] in ('-d', '-i', '--bmc-id') or (cmd[0] == '-j' and '-c' in cmd and '-e' in cmd) else ['sorted']
            for order in orders:
                r, after = run_cmd(tree, cmd, order)
                trans += 1
                probs = model(tree, rel_cmd(cmd), after, r.stdout)
                case = {'mask': mask, 'path': path, 'cmd': ci, 'order': order, 'link': chunk.get('link', False)}
                effect = canon(after) != canon(tree)
                res.case(nontrivial_key=json.dumps(case) if (effect or path) else None,
                         outcome='bad:' + probs[0][0] if probs else ('changed:' if effect else 'same:') + cmd[0],
                         sample={'initial': [MENU[i][0] for i in range(len(MENU)) if mask >> i & 1], 'path': [COMMANDS[s[0]] for s in path],
                                 'cmd': cmd, 'effect': effect} if trans % 150 == 1 else None)
                for k, t in probs:
                    res.violation('C11:' + k, '%s (state: subset %s after %s)' % (
                        t, [MENU[i][0] for i in range(len(MENU)) if mask >> i & 1], [COMMANDS[s[0]] for s in path]), case)
                key = canon(after)
                if key not in seen and len(path) + 1 < chunk['depth']:
                    seen[key] = path + [[ci, order]]
                    frontier.append((after, path + [[ci, order]]))
                elif key not in seen:
                    seen[key] = path + [[ci, order]]
    res.extra['states_list'] = sorted(core.h8(k) for k in seen)
    res.extra['transitions'] = trans
    return res


def finish(tier, seed, agg):
    states = agg.extra.pop('states_list', [])
    return {'states': len(set(states))}


def _subproc(res):
    n_ok = 0
    trans = 0
    tree = initial_tree(255)
    for cmd in (['-l'], ['-d', '50000001'], ['-d', '50000003'], ['-D'], ['-j', '-o', '@out'], ['-j'], ['-i', '50000004'],
                ['-f', '@pels/T1_50000001'], ['-n', '-E'], ['-d', '5000000']):
        root = tempfile.mkdtemp(prefix='c11s_', dir=clidrv.odd_root())
        try:
            materialize(root, tree)
            argv = ([] if cmd[0] == '-f' else ['-p', os.path.join(root, 'pels')]) + \
                [os.path.join(root, a[1:]) if a.startswith('@') else a for a in cmd]
            rc, so, se = clidrv.run_subprocess(argv)
            after_sub = read_tree(root)
        finally:
            shutil.rmtree(root, ignore_errors=True)
        r, after_in = run_cmd(tree, cmd, None)
        trans += 1
        case = {'subprocess': True, 'cmd': cmd}
        res.case(nontrivial_key=json.dumps(case), outcome='subproc:%s' % rc)
        if cmd[0] == '-d' and canon(after_sub) != canon(after_in):
            # which file is removed depends on the real listing order; both must satisfy the model
            probs = model(tree, rel_cmd(cmd), after_sub, so)
            if probs:
                res.violation('C11:conformance', 'real executable: %s' % probs[0][1], case)
            else:
                n_ok += 1
        elif canon(after_sub) != canon(after_in) or rc != r.status:
            res.violation('C11:conformance', 'real executable and in-process driver leave different trees for %s' % cmd, case)
        else:
            n_ok += 1
    res.extra['traces_validated_against_impl'] = n_ok
    res.extra['transitions'] = trans
    return res
