"""C06 - the printed JSON parses back to exactly the decoded document (E1 over adversarial JSON documents)."""
import itertools
import json
from mc import strictjson
import os
import tempfile

from mc import subchunk, core, pelgen, decode, impl, clidrv, imphook
from mc.core import ChunkResult

PROPERTY = 'C06'
LEVEL = 'exploration'
ENGINE = 'E1'
TECHNIQUE = ('bounded-exhaustive enumeration of all strings of length <= 4 (thorough 5) over an 11-token adversarial '
             'alphabet, placed as key / nested key / value / array element, through the real prettyPrint and end-to-end '
             'through parsePEL, -l, -a, -f and -j, plus 36 JSON numbers at the edges of what a document can hold (overflow, NaN, '
             'Infinity, huge integers) through the built-in format and the shipped plug-in; oracle = RFC 8259 round trip with '
             'order-preserving equality')
LEVEL_TEXT = ('Every string over the token alphabet (quote, colon, backslash, braces, bracket, comma, blank, letter, '
              'non-ASCII, newline) up to the bound is placed in each syntactic position of a document, printed by the real '
              'aligner at both column settings and parsed back; the text may differ from json.dumps only by blanks. The same '
              'strings are delivered through the four real call sites (user-data text and JSON through parsePEL and -f/-a/-j, '
              'reference codes through -l).')
LEVEL_NOTE = 'strings longer than the bound only through fixed long samples; json module trusted'
RULE = ('strings = all sequences of length 0..L over 11 tokens (L = 4 quick, 5 thorough over 9 tokens); 5 placements x 2 '
        'column settings; end-to-end: every string of length <= 3 as text line / JSON key / JSON value, 40 reference '
        'codes through -l. Non-trivial: string contains at least one JSON-significant token; distinct by (string, '
        'placement, column).')
ASSUMPTIONS = []

TOKENS = ['"', ':', '\\', '{', '}', '[', ',', ' ', 'a', 'é', '\n']
TOKENS9 = ['"', ':', '\\', '{', '[', ',', ' ', 'a', '\n']


def bounds(tier):
    return {'string_length': 4 if tier == 'quick' else 5, 'tokens': len(TOKENS), 'placements': 5, 'columns': [34, 29]}


def plan(tier, seed):
    ch = [{'k': 'pp', 'first': t, 'maxlen': 4, 'tokens': TOKENS} for t in TOKENS]
    ch.append({'k': 'encodings'})
    ch.append({'k': 'pp_short'})
    ch.append({'k': 'e2e_text'})
    ch.append({'k': 'e2e_json'})
    ch.append({'k': 'e2e_cli'})
    ch.append({'k': 'numbers'})
    ch.append({'k': 'equal_doc'})
    ch.append({'k': 'plugin_out'})
    if tier == 'thorough':
        for t in TOKENS9:
            for t2 in TOKENS9:
                ch.append({'k': 'pp5', 'first': t + t2, 'tokens': TOKENS9})
    # the same under python -O (assertions stripped, __debug__ false)
    ch += [dict(c, optimize=True) for c in [{'k': 'e2e_text'}, {'k': 'e2e_json'}, {'k': 'e2e_cli'}, {'k': 'numbers'}, {'k': 'pp_short'}]]
    return ch


def docs_for(s):
    return [
        ('key', {s: 1, 'k': 'v'}),
        ('nested-key', {'outer': {s: 'x', 'n': None}, 't': True}),
        ('value', {'key': s, 'num': 1.5}),
        ('array', {'arr': [s, 1, 'a'], 'z': 0}),
        ('nested-array', {'o': {'arr': [s], 'e': {}, 'l': []}}),
    ]


def classify(s, what):
    if '":' in json.dumps(s):
        return 'F5:aligner-rewrites-lines-containing-quote-colon'
    return 'C06:' + what


def check_pp(doc, space, pt):
    src = json.dumps(doc, indent=4)
    pp = pt.prettyPrint(src, space) if space is not None else pt.prettyPrint(src)
    try:
        back = strictjson.loads(pp)
    except Exception as e:
        return 'not-json', 'printed text does not parse: %s' % e
    if json.dumps(back) != json.dumps(doc):
        return 'changed', 'parsed-back document differs: %s vs %s' % (json.dumps(back)[:120], json.dumps(doc)[:120])
    if pp.replace(' ', '') != src.replace(' ', ''):
        return 'not-whitespace-only', 'printed text differs from json.dumps by more than blanks'
    return None


def eval_case(case):
    pt = impl.ensure(False)
    out = []
    if case['k'] == 'pp':
        s = case['s']
        for name, doc in docs_for(s):
            if case.get('place') and case['place'] != name:
                continue
            for space in (34, 29):
                r = check_pp(doc, space, pt)
                if r:
                    out.append({'key': classify(s, r[0]), 'what': '%s placement=%s column=%d string=%r' % (r[1], name, space, s),
                                'case': dict(case, place=name)})
                    break
    elif case['k'] == 'e2e':
        out.extend(_e2e(case, pt))
    elif case['k'] == 'cli':
        out.extend(_cli(case, pt))
    elif case['k'] == 'numbers':
        out.extend(_numbers(case, pt))
    elif case['k'] == 'equal_doc':
        out.extend(_equal_doc(case, pt))
    elif case['k'] == 'plugin_out':
        out.extend(_plugin_out(case, pt))
    elif case['k'] == 'callout_desc':
        out.extend(_callout_desc(case, pt))
    return out


PLUGIN_TABLE = {'srcparsers.bsrc.bsrc': 'by-payload', 'udparsers.b0100.b0100': 'by-payload',
                'calloutparsers.bcallouts.bcallouts': 'by-payload', 'calloutparsers.xcallouts.xcallouts': 'nan',
                'calloutparsers.kcallouts.kcallouts': 'deep'}


def _callout_desc(case, pt):
    """Procedure descriptions from callout parser plug-ins of several creators, the same procedure name described printably
    by one and unprintably (NaN / nesting too deep) by another, in either order, within one run."""
    if not imphook.STATE['installed'] or imphook.BEHAVIOUR != PLUGIN_TABLE:
        imphook.install(serve_all=False, behaviour=PLUGIN_TABLE)
        imphook.forget_modules()
    out = []
    bad = lambda what, detail: out.append({'key': 'C06:' + what, 'what': '%s: %s' % (what, detail), 'case': case})
    with tempfile.TemporaryDirectory(prefix='c06c_', dir=clidrv.odd_root()) as d:
        os.mkdir(os.path.join(d, 'in'))
        os.mkdir(os.path.join(d, 'out'))
        for i, cr in enumerate(case['creators']):
            spec = {'creator': cr, 'eid': 0x50000E00 + i, 'plid': 0x50000E00 + i, 'sections': [
                {'t': 'PS', 'ascii': 'B7001111'.ljust(32), 'callouts': [{'prio': 0x4D, 'loc': 'U1-P1', 'fru': {'flags': 0x42, 'pn': 'OKPROC1'}},
                                                                        {'prio': 0x4C, 'loc': '', 'fru': {'flags': 0x42, 'pn': 'OKPROC2'}}]}]}
            with open(os.path.join(d, 'in', 'c%d_%s' % (i, '%08X' % (0x50000E00 + i))), 'wb') as f:
                f.write(pelgen.encode_pel(pelgen.pel_from_spec(spec)))
        for argv in (['-p', os.path.join(d, 'in'), '-a'], ['-p', os.path.join(d, 'in'), '-a', '-r'], ['-p', os.path.join(d, 'in'), '-l']):
            imphook.forget_modules()
            r = clidrv.run_main(argv)
            if r.exc:
                bad('plugin-output-exception', '%s: %s' % (argv[2:], r.exc))
            elif r.stdout.strip():
                try:
                    strictjson.loads(r.stdout)
                except Exception as e:
                    bad('plugin-output-not-json', '%s over logs of creators %s prints text that is not JSON (%s)' % (' '.join(argv[2:]), case['creators'], e))
        imphook.forget_modules()
        clidrv.run_main(['-p', os.path.join(d, 'in'), '-j', '-o', os.path.join(d, 'out')])
        for fn in sorted(os.listdir(os.path.join(d, 'out'))):
            with open(os.path.join(d, 'out', fn), encoding='utf-8', errors='surrogateescape') as f:
                try:
                    strictjson.loads(f.read())
                except Exception as e:
                    bad('plugin-output-not-json', '-j over logs of creators %s wrote a file that is not JSON (%s)' % (case['creators'], e))
    return out


def _plugin_out(case, pt):
    """Plug-in output of every kind (objects, lists, strings, null, nothing, NaN / Infinity / overflowing numbers, deep
    nesting, huge integers, failures) from an SRC parser and a user-data parser: whatever the tool decides to show, the
    text it prints (library, -f, -a, -j) is one valid JSON document."""
    if not imphook.STATE['installed'] or imphook.BEHAVIOUR != PLUGIN_TABLE:
        imphook.install(serve_all=False, behaviour=PLUGIN_TABLE)
        imphook.forget_modules()
    out = []
    bad = lambda what, detail: out.append({'key': 'C06:' + what, 'what': '%s: %s' % (what, detail), 'case': case})
    words = list(pelgen.SRC_DEFAULT_WORDS)
    words[7] = 0xDDEEFF00 | (case['src'] if case['src'] is not None else 0)
    secs = [{'t': 'PS', 'ascii': 'BC8A1234'.ljust(32), 'words': words, 'wc': case.get('wc', 9)}]
    if case['ud'] is not None:
        secs.append({'t': 'UD', 'comp': 0x0100, 'sub': 1, 'payload': bytes([case['ud'], 0x41, 0x42]).hex()})
        secs.append({'t': 'ED', 'creator': 'B', 'comp': 0x0100, 'sub': 1, 'payload': bytes([case['ud'], 0x43]).hex()})
    spec = pelgen.pel_from_spec({'eid': 0x50000C01, 'plid': 0x50000C01, 'creator': 'B', 'sections': secs})
    b = pelgen.encode_pel(spec)
    plugins = case['src'] is not None
    r = decode.parse(b, plugins=plugins)
    if r['kind'] == 'badjson':
        bad('plugin-output-not-json', 'parsePEL text is not JSON (%s) with SRC parser behaviour %s, user data parser behaviour %s'
            % (r['msg'], case['src'], case['ud']))
    out.extend(_equal_doc({'spec': spec, 'plugins': plugins}, pt))
    for v in out:
        v['case'] = case
    with tempfile.TemporaryDirectory(prefix='c06p_', dir=clidrv.odd_root()) as d:
        os.mkdir(os.path.join(d, 'in'))
        os.mkdir(os.path.join(d, 'out'))
        with open(os.path.join(d, 'in', 'p_50000C01'), 'wb') as f:
            f.write(b)
        with open(os.path.join(d, 'in', 'q_50000C02'), 'wb') as f:
            f.write(pelgen.encode_pel(pelgen.pel_from_spec({'eid': 0x50000C02, 'plid': 0x50000C02, 'sections': [{'t': 'PS'}]})))
        P = [] if plugins else ['-P']
        for argv in (['-f', os.path.join(d, 'in', 'p_50000C01')], ['-p', os.path.join(d, 'in'), '-a'], ['-p', os.path.join(d, 'in'), '-l'],
                     ['-p', os.path.join(d, 'in'), '-i', '50000C01']):
            r = clidrv.run_main(argv + P)
            if r.exc:
                bad('plugin-output-exception', '%s: %s' % (argv[-2:], r.exc))
            elif r.status == 0 and r.stdout.strip() and r.stdout.strip() != 'PEL not found':
                try:
                    strictjson.loads(r.stdout)
                except Exception as e:
                    bad('plugin-output-not-json', '%s prints text that is not JSON (%s) with SRC parser behaviour %s, user data parser behaviour %s'
                        % (argv[-2:] if argv[0] == '-p' else '-f', e, case['src'], case['ud']))
        clidrv.run_main(['-p', os.path.join(d, 'in'), '-j', '-o', os.path.join(d, 'out')] + P)
        for fn in sorted(os.listdir(os.path.join(d, 'out'))):
            with open(os.path.join(d, 'out', fn), encoding='utf-8', errors='surrogateescape') as f:
                try:
                    strictjson.loads(f.read())
                except Exception as e:
                    bad('plugin-output-not-json', '-j wrote %s which is not JSON (%s) with SRC parser behaviour %s, user data parser behaviour %s'
                        % (fn.split('.', 1)[-1], e, case['src'], case['ud']))
    return out


class _JsonSpy:
    """Stands in for the name `json` inside pel.peltool.peltool: records what the decoder hands to the serialiser."""

    def __init__(self, real):
        self._real = real
        self.dumped = []

    def dumps(self, obj, *a, **kw):
        self.dumped.append(obj)
        return self._real.dumps(obj, *a, **kw)

    def __getattr__(self, name):
        return getattr(self._real, name)


def _mismatch(a, b, path='$'):
    """first difference between the decoded document (a) and the document read back from the text (b); key types count"""
    if isinstance(a, dict):
        if not isinstance(b, dict):
            return '%s: object printed as %s' % (path, type(b).__name__)
        ka, kb = list(a.keys()), list(b.keys())
        if ka != kb:
            return '%s: keys %r printed as %r' % (path, ka[:8], kb[:8])
        for k in ka:
            m = _mismatch(a[k], b[k], '%s.%s' % (path, k))
            if m:
                return m
        return None
    if isinstance(a, (list, tuple)):
        if not isinstance(b, list) or len(a) != len(b):
            return '%s: list of %d printed as %r' % (path, len(a), b if not isinstance(b, list) else len(b))
        for i, (x, y) in enumerate(zip(a, b)):
            m = _mismatch(x, y, '%s[%d]' % (path, i))
            if m:
                return m
        return None
    if type(a) is not type(b) or a != b:
        return '%s: %r printed as %r' % (path, a, b)
    return None


def _equal_doc(case, pt):
    """The statement itself: whatever document the decoder built, the text printed for it parses back to an equal one."""
    import json as real_json
    spy = _JsonSpy(real_json)
    pt.json = spy
    try:
        r = decode.parse(pelgen.encode_pel(pelgen.pel_from_spec(case['spec'])), plugins=case.get('plugins', True))
    finally:
        pt.json = real_json
    if r['kind'] == 'badjson':
        return [{'key': 'C06:doc-not-json', 'what': 'printed text is not JSON: %s' % r['msg'], 'case': case}]
    if r['kind'] != 'doc':
        return [{'key': 'C06:e2e-not-decoded', 'what': '%s %s' % (r['kind'], r.get('msg')), 'case': case}]
    if not spy.dumped:
        return []        # the decoder does not serialise through its module-level json name: this oracle cannot observe it
    m = _mismatch(spy.dumped[-1], r['doc'])
    if m:
        return [{'key': 'C06:doc-changed', 'what': 'the printed text does not parse back to the decoded document: %s' % m, 'case': case}]
    return []


# JSON user data whose numbers sit at the edges of what the printed document can hold (RFC 8259 has no NaN/Infinity)
NUMBER_TEXTS = ['0', '-0', '-0.0', '1e22', '1E+22', '0.1', '1e-400', '1.7976931348623157e308', '1e308', '9e308', '1e309', '1e999',
                '-1e999', '1E400', '[1e999]', '{"a": 1e999}', '{"a": [1, {"b": -1e400}]}', 'NaN', '-NaN', 'Infinity', '-Infinity',
                '[NaN]', '{"a": Infinity}', '{"a": "NaN", "b": "Infinity"}', '9007199254740993', '-9223372036854775809',
                '1' + '0' * 400, '1.' + '5' * 400, '123456789012345678901234567890.5', '[1.0, 1, 1e0]', '4e-324', '5e-324',
                '2.2250738585072014e-308', '{"big": 1e999, "neg": -1e999, "txt": "ok"}', '{"v": 1e299}', '{"v": 9e299}']


def _numbers(case, pt):
    out = []
    texts = case['texts']
    with tempfile.TemporaryDirectory(prefix='c06n_', dir=clidrv.odd_root()) as d:
        os.mkdir(os.path.join(d, 'in'))
        os.mkdir(os.path.join(d, 'out'))
        specs = []
        for i, t in enumerate(texts):
            eid = 0x50000300 + i
            secs = [{'t': 'PS'}, {'t': 'UD', 'comp': 0x2000, 'sub': 1, 'payload': t.encode().hex()},
                    {'t': 'ED', 'creator': 'O', 'comp': 0x2000, 'sub': 1, 'payload': ('{"x": [%s]}' % t).encode().hex()},
                    # plug-in output: the shipped hardware-diagnostics parser hands JSON from the payload back to the tool
                    {'t': 'UD', 'comp': 0xE500, 'sub': 3, 'payload': ('{"Callout List": [{"Priority": %s}]}' % t).encode().hex()}]
            spec = pelgen.pel_from_spec({'eid': eid, 'plid': eid, 'sections': secs})
            specs.append(spec)
            with open(os.path.join(d, 'in', 'n%02d' % i), 'wb') as f:
                f.write(pelgen.encode_pel(spec))
        bad = lambda what, detail: out.append({'key': 'C06:' + what, 'what': '%s: %s' % (what, detail), 'case': case})
        docs = []
        for i, spec in enumerate(specs):
            r = decode.parse(pelgen.encode_pel(spec))
            if r['kind'] != 'doc':
                bad('number-not-json' if r['kind'] == 'badjson' else 'number-not-decoded',
                    'JSON user data %r: %s %s' % (texts[i], r['kind'], r.get('msg')))
                docs.append(None)
                continue
            docs.append(r['doc'])
            names = pelgen.expected_keys(spec)
            for sname, sec in ((names[3], spec['sections'][1]), (names[4], spec['sections'][2])):
                m = pelgen.check_builtin(sec, r['doc'].get(sname), 'O', {})
                if m:
                    bad('number-changed', 'JSON user data %r: %s' % (texts[i], '; '.join(m)))
        if None in docs:
            return out
        r = clidrv.run_main(['-p', os.path.join(d, 'in'), '-a'], isolate=True)
        try:
            if strictjson.loads(r.stdout) != docs:
                bad('number-all', '-a documents differ from the decoded ones for %r' % (texts,))
        except Exception as e:
            bad('number-all-not-json', '-a output for JSON user data %r does not parse: %s' % (texts, e))
        for i in range(len(texts)):
            r = clidrv.run_main(['-f', os.path.join(d, 'in', 'n%02d' % i)], isolate=True)
            try:
                if strictjson.loads(r.stdout) != docs[i]:
                    bad('number-file', '-f document differs from the decoded one for %r' % texts[i])
            except Exception as e:
                bad('number-file-not-json', '-f output for JSON user data %r does not parse: %s' % (texts[i], e))
        clidrv.run_main(['-p', os.path.join(d, 'in'), '-j', '-o', os.path.join(d, 'out')], isolate=True)
        files = sorted(os.listdir(os.path.join(d, 'out')))
        if len(files) != len(texts):
            bad('number-json-files', '%d files written for %d PELs' % (len(files), len(texts)))
        for fn, doc in zip(files, docs):
            try:
                with open(os.path.join(d, 'out', fn)) as f:
                    if strictjson.loads(f.read()) != doc:
                        bad('number-json-file', '%s differs from the decoded document' % fn)
            except Exception as e:
                bad('number-json-file-not-json', '%s does not parse: %s' % (fn, e))
    return out


def _e2e(case, pt):
    s = case['s']
    out = []
    via = case['via']
    if via == 'text':
        raw = ('first\n' + s + '\nlast').encode('utf-8')
        sec = {'t': 'UD', 'comp': 0x2000, 'sub': 3, 'payload': raw.hex()}
    else:
        value = {s: 'as key', 'as value': s, 'in list': [s, {'deep': s}]}
        raw = json.dumps(value).encode('utf-8')
        sec = {'t': 'UD', 'comp': 0x2000, 'sub': 1, 'payload': raw.hex()}
    b = pelgen.encode_pel(pelgen.pel_from_spec({'sections': [sec, {'t': 'MT'}]}))
    r = decode.parse(b)
    if r['kind'] == 'badjson':
        return [{'key': classify(s, 'e2e-not-json'), 'what': 'parsePEL text is not JSON (%s) for %s string %r' % (r['msg'], via, s),
                 'case': case}]
    if r['kind'] != 'doc':
        return [{'key': 'C06:e2e-not-decoded', 'what': '%s %s' % (r['kind'], r.get('msg')), 'case': case}]
    ud = r['doc'].get('User Data', {})
    if via == 'text':
        from mc.pelgen import text_lines
        want = text_lines('first\n' + s + '\nlast')
        if ud.get('Data') != want:
            out.append({'key': classify(s, 'e2e-text'), 'what': 'text lines %r printed as %r' % (want, ud.get('Data')), 'case': case})
    else:
        rest = {k: v for k, v in ud.items() if k not in ('Section Version', 'Sub-section type', 'Created by')}
        if json.dumps(rest) != json.dumps(value):
            out.append({'key': classify(s, 'e2e-json'), 'what': 'JSON user data %r printed as %r' % (value, rest), 'case': case})
    return out


def _cli(case, pt):
    """Reference codes / text through the real CLI modes -l, -a, -f, -j."""
    out = []
    codes = case['codes']
    with tempfile.TemporaryDirectory(prefix='c06_', dir=clidrv.odd_root()) as d:
        os.mkdir(os.path.join(d, 'in'))
        os.mkdir(os.path.join(d, 'out'))
        want = {}
        for i, code in enumerate(codes):
            eid = 0x50000000 + i
            text = 'x": y\n' + code
            spec = {'eid': eid, 'plid': eid, 'sections': [
                {'t': 'PS', 'ascii': code.ljust(32)},
                {'t': 'UD', 'comp': 0x2000, 'sub': 3, 'payload': text.encode().hex()}]}
            with open(os.path.join(d, 'in', 'f%03d' % i), 'wb') as f:
                f.write(pelgen.encode_pel(pelgen.pel_from_spec(spec)))
            want['0x%08X' % eid] = code.strip()
        bad = lambda what, detail: out.append({'key': classify(''.join(codes), what), 'what': '%s: %s' % (what, detail), 'case': case})
        r = clidrv.run_main(['-p', os.path.join(d, 'in'), '-l', '-E'], isolate=True)
        try:
            lst = strictjson.loads(r.stdout)
            got = {k: v.get('SRC') for k, v in lst.items()}
            if got != want:
                bad('list', 'reference codes %r listed as %r' % (want, got))
        except Exception as e:
            bad('list-not-json', '-l output does not parse: %s' % e)
        r = clidrv.run_main(['-p', os.path.join(d, 'in'), '-a', '-E'], isolate=True)
        try:
            docs = strictjson.loads(r.stdout)
            got = {x['Private Header']['Entry Id']: x['Primary SRC']['Reference Code'] for x in docs}
            if got != want:
                bad('all', 'reference codes %r displayed as %r' % (want, got))
            for x, code in zip(docs, codes):
                if x['User Data']['Data'] not in (['x": y', code], ['x": y', code.rstrip('\0')]):
                    bad('all-text', 'text lines displayed as %r' % (x['User Data']['Data'],))
        except Exception as e:
            bad('all-not-json', '-a output does not parse: %s' % e)
        r = clidrv.run_main(['-p', os.path.join(d, 'in'), '-j', '-o', os.path.join(d, 'out'), '-E'], isolate=True)
        files = sorted(os.listdir(os.path.join(d, 'out')))
        if len(files) != len(codes):
            bad('json-files', '%d files written for %d PELs' % (len(files), len(codes)))
        for fn in files:
            try:
                with open(os.path.join(d, 'out', fn)) as f:
                    x = json.load(f)
                if x['Primary SRC']['Reference Code'] != want[x['Private Header']['Entry Id']]:
                    bad('json-file', '%s: reference code changed' % fn)
            except Exception as e:
                bad('json-file-not-json', '%s does not parse: %s' % (fn, e))
        # selection drops the first / a middle / the last file: the printed list must still be one JSON document
        hid = os.path.join(d, 'hid')
        os.mkdir(hid)
        for pattern in ('HVV', 'VHV', 'VVH', 'HHV', 'HVH', 'VHH', 'HHH', 'UVV', 'VUV', 'VVU', 'PVV', 'VTV', 'VVT', 'EVV', 'VEV'):
            for f in os.listdir(hid):
                os.unlink(os.path.join(hid, f))
            vis = []
            for i, c in enumerate(pattern):
                eid = 0x50000100 + i
                spec = {'eid': eid, 'plid': eid, 'uh': {'sev': 0x40, 'flags': 0x6000 if c == 'H' else 0xA000},
                        'sections': [{'t': 'PS', 'ascii': codes[i % len(codes)].ljust(32)}]}
                b = pelgen.encode_pel(pelgen.pel_from_spec(spec))
                # damaged neighbours: U = User Header id wrong, P = Private Header id wrong, T = truncated, E = empty
                b = {'U': b[:48] + b'XH' + b[50:], 'P': b'XX' + b[2:], 'T': b[:100], 'E': b''}.get(c, b)
                with open(os.path.join(hid, 'g%d' % i), 'wb') as f:
                    f.write(b)
                if c == 'V':
                    vis.append('0x%08X' % eid)
            for extra in ([], ['-r']):
                want_ids = list(reversed(vis)) if extra else vis
                for mode in ('-a', '-l'):
                    r = clidrv.run_main(['-p', hid, mode] + extra, isolate=True)
                    try:
                        v = strictjson.loads(r.stdout)
                        got = [x['Private Header']['Entry Id'] for x in v] if mode == '-a' else list(v)
                        if got != want_ids:
                            out.append({'key': 'C06:filtered-list', 'what': '%s %s with files %s lists %s, expected %s' % (mode, extra, pattern, got, want_ids), 'case': case})
                    except Exception as e:
                        out.append({'key': 'C06:filtered-list-not-json', 'what': '%s %s with files %s (H = not selected): output does not parse: %s' % (mode, extra, pattern, e), 'case': case})
        # --json twice into the same output directory, the second document shorter (plug-ins off: hex dump; on: decoded)
        re_in, re_out = os.path.join(d, 're_in'), os.path.join(d, 're_out')
        os.mkdir(re_in)
        os.mkdir(re_out)
        spec = {'eid': 0x50000200, 'plid': 0x50000200, 'sections': [
            {'t': 'PS', 'ascii': codes[0].ljust(32)},
            {'t': 'UD', 'comp': 0xE500, 'sub': 3, 'payload': json.dumps({'Callout List': ['x' * 8] * 40}).encode().hex()}]}
        with open(os.path.join(re_in, 'again'), 'wb') as f:
            f.write(pelgen.encode_pel(pelgen.pel_from_spec(spec)))
        for order in (['-P', None], [None, '-P']):
            for f in os.listdir(re_out):
                os.unlink(os.path.join(re_out, f))
            for opt in order:
                clidrv.run_main(['-p', re_in, '-j', '-o', re_out, '-E'] + ([opt] if opt else []), isolate=True)
                rf = clidrv.run_main(['-f', os.path.join(re_in, 'again'), '-E'] + ([opt] if opt else []), isolate=True)
                for fn in os.listdir(re_out):
                    with open(os.path.join(re_out, fn)) as f:
                        text = f.read()
                    try:
                        if strictjson.loads(text) != strictjson.loads(rf.stdout):
                            out.append({'key': 'C06:json-rewrite', 'what': '%s differs from the -f document after re-running --json (%s)' % (fn, order), 'case': case})
                    except Exception as e:
                        out.append({'key': 'C06:json-rewrite-not-json', 'what': '%s written by a repeated --json run (%s) does not parse: %s' % (fn, order, e), 'case': case})
        r = clidrv.run_main(['-f', os.path.join(d, 'in', 'f000'), '-E'], isolate=True)
        try:
            x = strictjson.loads(r.stdout)
            if x['Primary SRC']['Reference Code'] != codes[0].strip():
                bad('file', 'reference code %r displayed as %r' % (codes[0], x['Primary SRC']['Reference Code']))
        except Exception as e:
            bad('file-not-json', '-f output does not parse: %s' % e)
    return out


def _nontrivial(s):
    return any(t in s for t in '":\\{}[,\n')


def _do(res, case, s, every=1999):
    try:
        core.arm()
        vs = eval_case(case)
        core.disarm()
    except core.CaseTimeout:
        vs = [{'key': 'C06:hang', 'what': 'printing did not terminate within %.0fs for string %r' % (core.CASE_TIMEOUT_S, s[:40]), 'case': case}]
    res.case(nontrivial_key=json.dumps(case) if _nontrivial(s) else None, outcome=vs[0]['key'] if vs else 'ok:' + case['k'],
             sample=case if res.evals % every == 1 else None)
    res.add(vs)


def run_chunk(chunk):
    routed = subchunk.route(__name__, chunk)
    if routed is not None:
        return routed
    res = ChunkResult()
    k = chunk['k']
    if k == 'pp':
        for n in range(0, chunk['maxlen']):
            for tail in itertools.product(chunk['tokens'], repeat=n):
                s = chunk['first'] + ''.join(tail)
                _do(res, {'k': 'pp', 's': s}, s)
    elif k == 'pp5':
        for tail in itertools.product(chunk['tokens'], repeat=3):
            s = chunk['first'] + ''.join(tail)
            _do(res, {'k': 'pp', 's': s}, s, every=19997)
    elif k == 'pp_short':
        _do(res, {'k': 'pp', 's': ''}, '')
        for s in ['"Section Version": 1,', 'a' * 40 + '":' + 'b' * 40, '    "key": "value"', '\\":', '\\\\":', 'é":é', '": {',
                  '":' * 20, 'x' * 100, '"\\u0041":', '\\' * 40, '"' * 40, '\\"' * 30, '\\' * 39 + '"', 'a\\' * 25 + ':']:
            _do(res, {'k': 'pp', 's': s}, s)
    elif k == 'encodings':
        _encodings(res)
    elif k in ('e2e_text', 'e2e_json'):
        via = 'text' if k == 'e2e_text' else 'json'
        toks = [t for t in TOKENS if not (via == 'text' and t == '\n')]
        for n in range(1, 4):
            for t in itertools.product(toks, repeat=n):
                s = ''.join(t)
                _do(res, {'k': 'e2e', 'via': via, 's': s}, s, every=499)
    elif k == 'equal_doc':
        specs = pelgen.base_pel_specs()
        unknown = [{'t': 'ZZ', 'payload': '0a0b0c'}, {'t': 'ud', 'payload': '01'}, {'t': '\x01\x02', 'payload': 'ff'},
                   {'t': 'ZZ', 'payload': '0d'}, {'t': 'DH', 'payload': '00'}, {'t': '{"', 'payload': '22'}]
        specs.append({'eid': 0x50000A01, 'plid': 0x50000A01, 'sections': [{'t': 'PS'}] + unknown})
        specs.append({'eid': 0x50000A02, 'plid': 0x50000A02, 'creator': 'H', 'comp': 0x4142, 'sections': unknown[:3] + [
            {'t': 'ED', 'creator': 'x', 'comp': 0x2000, 'sub': 3, 'payload': b'"quoted": {text}\n\\ back'.hex()}]})
        # "arbitrary nesting": documents nested up to and beyond what the final serialiser can print, through the built-in
        # format and through plug-in output (whatever the tool decides to show, the printed text must be that document)
        for depth in (2, 50, 200, 600, 900, 980, 1000, 1050, 1100, 1200, 1300, 1400, 1490, 1600, 3000):
            for shape in (b'[' * depth + b']' * depth, b'{"k":' * depth + b'1' + b'}' * depth):
                if len(shape) > 60000:
                    continue
                specs.append({'eid': 0x50000A10, 'plid': 0x50000A10, 'sections': [
                    {'t': 'UD', 'comp': 0x2000, 'sub': 1, 'payload': shape.hex()},
                    {'t': 'UD', 'comp': 0xE500, 'sub': 3, 'payload': shape.hex()}]})
        for spec in specs:
            for plugins in (True, False):
                _do(res, {'k': 'equal_doc', 'spec': spec, 'plugins': plugins}, '"doc', every=5)
    elif k == 'plugin_out':
        try:
            for a in [None] + list(range(0x0C)):
                for b in [None] + list(range(0x0C)):
                    if a is None and b is None:
                        continue
                    _do(res, {'k': 'plugin_out', 'src': a, 'ud': b}, '"plugin', every=7)
            for creators in itertools.permutations(['B', 'x', 'k', 'O'], 2):
                _do(res, {'k': 'callout_desc', 'creators': list(creators)}, '"plugin', every=5)
            _do(res, {'k': 'callout_desc', 'creators': ['B', 'x', 'B', 'k', 'B']}, '"plugin', every=5)
            # SRCs that declare fewer than nine valid words (the parser still gets eight hex words)
            for wc in (1, 2, 5, 8):
                for a in (None, 0, 8):
                    _do(res, {'k': 'plugin_out', 'src': a, 'ud': 0, 'wc': wc}, '"plugin', every=7)
        finally:
            imphook.uninstall()
            imphook.forget_modules()
    elif k == 'numbers':
        for i in range(0, len(NUMBER_TEXTS), 4):
            grp = NUMBER_TEXTS[i:i + 4]
            _do(res, {'k': 'numbers', 'texts': grp}, '{' + ''.join(grp), every=2)
    elif k == 'e2e_cli':
        codes = []
        for t in itertools.product(['"', ':', ' ', '{', 'B', '\\'], repeat=2):
            codes.append('BD' + ''.join(t) + '12' + ''.join(reversed(t)))
        codes = [c for c in codes if c == c.strip()]
        for i in range(0, len(codes), 6):
            grp = codes[i:i + 6]
            _do(res, {'k': 'cli', 'codes': grp}, ''.join(grp), every=3)
    return res


UNI_VALUES = ['caf\u00e9', '\u65e5\u672c', '\U0001f600', 'lone high \ud83d surrogate', 'lone low \udc00', 'line\u2028sep', '\u0085nel', '\x7f\x80\xff']


def _encodings(res):
    """The printed text must be valid JSON equal to the document whatever the output stream's encoding is: the real
    executable with stdout encoded as ascii / latin-1 / utf-8 (PYTHONIOENCODING), -f and -j, non-ASCII and lone surrogates."""
    import subprocess
    pt = impl.ensure(False)
    n_ok = 0
    with tempfile.TemporaryDirectory(prefix='c06e_', dir=clidrv.odd_root()) as d:
        os.mkdir(os.path.join(d, 'in'))
        for vi, val in enumerate(UNI_VALUES):
            value = {'text': val, val.replace('\ud83d', 'k').replace('\udc00', 'k'): 'as key', 'list': [val]}
            raw = json.dumps(value).encode('ascii')            # \uXXXX escapes in the payload: any JSON text is legal user data
            spec = {'eid': 0x50000300 + vi, 'sections': [{'t': 'UD', 'comp': 0x2000, 'sub': 1, 'payload': raw.hex()}]}
            path = os.path.join(d, 'in', 'u%02d' % vi)
            with open(path, 'wb') as f:
                f.write(pelgen.encode_pel(pelgen.pel_from_spec(spec)))
            for enc in ('ascii', 'latin-1', 'utf-8'):
                case = {'k': 'encoding', 'value': val.encode('unicode_escape').decode(), 'stdout_encoding': enc}
                env = dict(os.environ, PYTHONPATH=core.MODULES, PYTHONDONTWRITEBYTECODE='1', PYTHONIOENCODING=enc)
                p = subprocess.run([core.PY, clidrv.PELTOOL_PY, '-f', path, '-E'], capture_output=True, env=env, timeout=60)
                probs = []
                try:
                    doc = strictjson.loads(p.stdout.decode(enc))
                    got = {k: v for k, v in doc['User Data'].items() if k not in ('Section Version', 'Sub-section type', 'Created by')}
                    if got != value:
                        probs.append('document printed with a %s stdout differs from the decoded value' % enc)
                except Exception as e:
                    probs.append('stdout (%s) is not the JSON document: %s; stderr %r' % (enc, e, p.stderr[-160:]))
                outd = os.path.join(d, 'out_%d_%s' % (vi, enc))
                os.mkdir(outd)
                env2 = dict(env, LC_ALL='C', LANG='C', PYTHONUTF8='0', PYTHONCOERCECLOCALE='0') if enc == 'ascii' else env
                subprocess.run([core.PY, clidrv.PELTOOL_PY, '-p', os.path.join(d, 'in'), '-j', '-o', outd, '-E'], capture_output=True,
                               env=env2, timeout=60)
                fn = os.path.join(outd, 'u%02d.%08X.json' % (vi, 0x50000300 + vi))
                try:
                    with open(fn, 'rb') as f:
                        text = f.read()
                    doc = strictjson.loads(text.decode('utf-8', 'surrogatepass') if enc != 'ascii' else text.decode('ascii'))
                    got = {k: v for k, v in doc['User Data'].items() if k not in ('Section Version', 'Sub-section type', 'Created by')}
                    if got != value:
                        probs.append('file written by --json differs from the decoded value')
                except Exception as e:
                    probs.append('file written by --json (locale %s) is not the JSON document: %s' % ('C' if enc == 'ascii' else 'default', e))
                res.case(nontrivial_key=json.dumps(case), outcome='encoding:' + ('bad' if probs else 'ok'),
                         sample=case if vi == 0 else None)
                if probs:
                    res.violation('C06:output-encoding', '; '.join(probs[:2]) + ' (value %s)' % case['value'], case)
                else:
                    n_ok += 1
    res.extra['traces_validated_against_impl'] = n_ok
