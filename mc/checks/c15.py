"""C15 - trace buffers decode entry by entry, stopping at the first malformed entry (E1 over buffer structures)."""
import itertools
import json
import os
import struct
import tempfile

from mc import subchunk, core, impl, clidrv
from mc.core import ChunkResult
from mc.ref import trace as rtrace, hexdump as rhex

PROPERTY = 'C15'
LEVEL = 'exploration'
ENGINE = 'E1'
TECHNIQUE = ('bounded-exhaustive enumeration of trace buffers: all entry sequences of length <= 2 (thorough 3) over a 37-shape '
             'entry alphabet (data lengths around every alignment and the 1024 limit, tags, exact/partial/unknown hashes, bad '
             'trailers, missing and non-zero pad) x 9 declared sizes x header variants, every truncation offset of 3 buffers, every input '
             'length 0..31, every string of both shipped string files with exact and partial hash; real parse_trace_data vs. an '
             'independent decoder and string-file reader')
LEVEL_TEXT = ('Every buffer in the product is decoded by the real code and by a reference decoder written from the statement; '
              'header lines, entry lines and partial-match warnings are compared literally, hex dumps of entry data by reading '
              'them back to bytes. The entry alphabet forces every stop condition (truncated, oversized, trailer mismatch, '
              'declared size reached) to occur before, between and after good entries.')
LEVEL_NOTE = 'component names with embedded NUL+blank or non-ASCII bytes, and string-file lines beyond the shipped syntax, are not constrained'
RULE = ('buffer = header variant x declared size in {0,31,32,exact,mid-entry,entry boundary,larger than data,2^32-1,one byte '
        'short} x entry sequence (all of length 0..2 quick / 0..3 thorough over 37 shapes); truncation: every offset of 3 '
        'three-entry buffers; no-header inputs of every length 0..31; shipped: each of the 709/679 strings with exact hash and '
        'hash+100000 and specifier-count arguments. Non-trivial: at least one entry expected; distinct by buffer bytes.')
ASSUMPTIONS = ['the literal text of header/entry/warning lines is pinned by the repository\'s own tests']

SYN_STRINGS = """#FSP_TRACE_v2|||synthetic|||BUILD:verif
  100001||fmt one %d||a.cpp(1)
200002||two %d %x||b.cpp(2)
300003||partial candidate A %u||c.cpp(3)
not a line
400003||partial candidate B %u||d.cpp(4)
500005||dup first||e.cpp(5)
500005||dup second||f.cpp(6)
600006||five %d %d %d %d %d||g.cpp(7)
700007||six %d %d %d %d %d %d||h.cpp(8)
800008||string %s and percent %%||i.cpp(9)
900009||   leading and trailing blanks   ||  j.cpp(10)
1000010||no specifiers||k.cpp(11)
1100011||load 100%% reached||l.cpp(12)
1200012||%%only %% escaped %%||m.cpp(13)
1300013||page\x0cbreak, vt\x0b, value %d||n.cpp(14)
1400014||rs\x1e nel\x85 ls\u2028 ps\u2029 in one string||o\x0cp.cpp(15)
"""


def entry(length, tag=rtrace.TAG_TRACE, h=100001, trailer_delta=0, pad=True, ts=0x1234, seq=0x0186, line=324, fill=0, padfill=0):
    data = bytes((fill + i * 3) & 0xff for i in range(length))
    padn = (-length) % 4 if pad else 0
    total = 16 + length + padn + 4
    return struct.pack('>HHHHII', ts, seq, length, tag, h, line) + data + bytes([padfill]) * padn + struct.pack('>I', (total + trailer_delta) & 0xffffffff)


SHAPES = [
    ('t0', dict(length=0)),
    ('t4', dict(length=4, h=100001)),
    ('t8x2', dict(length=8, h=200002, ts=0, line=0)),
    ('t1', dict(length=1, h=100001)),
    ('t3bin', dict(length=3, tag=rtrace.TAG_BIN, h=1000010)),
    ('t5part', dict(length=5, h=100001 + 100000, line=99999)),
    ('t20five', dict(length=20, h=600006, ts=65534)),
    ('t24six', dict(length=24, h=700007, ts=65535, line=100000)),
    ('t8part2', dict(length=8, h=500003)),
    ('t4unk', dict(length=4, h=999999)),
    ('t1023', dict(length=1023, h=800008)),
    ('t1024bin', dict(length=1024, tag=rtrace.TAG_BIN, h=999998)),
    ('t1025', dict(length=1025, h=100001)),
    ('t4badtrail-', dict(length=4, trailer_delta=-1)),
    ('t4badtrail+', dict(length=8, trailer_delta=4)),
    ('t5nopad', dict(length=5, pad=False)),
    ('t4othertag', dict(length=4, tag=0x1111, h=500005)),
    ('t12blank', dict(length=12, h=900009)),
    # the 1024-byte limit holds for every kind of entry (binary, unknown tag), complete and consistent or not
    ('t1025bin', dict(length=1025, tag=rtrace.TAG_BIN, h=999997)),
    ('t1028bin', dict(length=1028, tag=rtrace.TAG_BIN, h=1000010)),
    ('t2000othertag', dict(length=2000, tag=0x1111, h=500005)),
    # only the exact binary tag makes an entry binary: tags sharing one of its bytes are ordinary entries with arguments
    ('t8tagDD', dict(length=8, tag=0x4444, h=200002)),
    ('t8tag00D', dict(length=8, tag=0x0044, h=200002)),
    ('t8tagF0', dict(length=8, tag=0x4600, h=200002)),
    # an entry without arguments is still formatted: an escaped per cent sign is one per cent sign (text entries with 0..3
    # data bytes, binary entries), and a partial match of such a string
    ('t0pct', dict(length=0, h=1100011)),
    ('t2pct', dict(length=2, h=1200012)),
    ('t3binpct', dict(length=3, tag=rtrace.TAG_BIN, h=1100011)),
    ('t4pctpart', dict(length=4, h=1200012 + 300000)),
    # every fixed field at the top of its unsigned range (time stamp, sequence, hash, source line are stored unsigned)
    ('t4linemax', dict(length=4, line=0xFFFFFFFF, ts=0xFFFF, seq=0xFFFF)),
    ('t4line31', dict(length=4, h=200002 + 0, line=0x80000001, seq=0x8000)),
    ('t4hashmax', dict(length=4, h=0xFFFFFFF0, line=0x7FFFFFFF)),
    # the pad bytes behind unaligned data are skipped, whatever they hold (a wrapped buffer is not cleared): they are not
    # part of the size word that follows them
    ('t5padFF', dict(length=5, h=100001, padfill=0xFF)),
    ('t1pad01', dict(length=1, h=100001, padfill=0x01)),
    ('t6padAA', dict(length=6, h=200002, padfill=0xAA)),
    ('t3binpad80', dict(length=3, tag=rtrace.TAG_BIN, h=1000010, padfill=0x80)),
    # a line of the string file ends at a line feed only: strings holding the other characters str.splitlines() breaks at
    ('t4ffstr', dict(length=4, h=1300013)),
    ('t0sepstr', dict(length=0, h=1400014)),
]


def header(size, ver=2, comp=b'INFO', wrap=254, hdr=(0x20, 0x01, 0x42), rsvd='00000000', tail=0):
    c = comp + b'\0' * (12 - len(comp)) if len(comp) <= 12 else comp[:12]
    return bytes([ver]) + bytes(hdr) + c + bytes.fromhex(rsvd) + struct.pack('>III', size & 0xffffffff, wrap, tail & 0xffffffff)


HEADERS = [dict(), dict(ver=0, comp=b'TWELVECHARSX', wrap=0), dict(ver=255, comp=b'POWR    ', wrap=0xffffffff),
           dict(comp=b'FANS\0\0\0\0    ', wrap=1),
           # the three bytes after the version (header length, time flag, endian flag) are stored but not shown
           dict(hdr=[0x40, 0x00, 0x4c]), dict(hdr=[0x00, 0xff, 0x00], comp=b'ERRL'), dict(hdr=[0xff, 0x01, 0x42], wrap=7),
           # so are the reserved word behind the component name and the last word of the header
           dict(comp=b'FANS', rsvd='52535644'), dict(comp=b'TWELVECHARSX', rsvd='00000001', tail=0xffffffff), dict(rsvd='20202020', tail=1)]


def bounds(tier):
    return {'entry_shapes': len(SHAPES), 'sequence_length': 2 if tier == 'quick' else 3, 'declared_sizes': 9, 'headers': len(HEADERS)}


def plan(tier, seed):
    ch = [{'k': 'seq', 'first': None, 'maxlen': 0}]
    for i in range(len(SHAPES)):
        ch.append({'k': 'seq', 'first': i, 'maxlen': 2 if tier == 'quick' else 3})
    ch += [{'k': 'rewrite'}, {'k': 'trunc'}, {'k': 'nohdr'}, {'k': 'shipped', 'type': 'mex'}, {'k': 'shipped', 'type': 'nimitz'}, {'k': 'strings'}]
    # the same under python -O (assertions stripped, __debug__ false)
    ch += [dict(c, optimize=True) for c in [{'k': 'seq', 'first': 0, 'maxlen': 2}, {'k': 'rewrite'}, {'k': 'trunc'}, {'k': 'nohdr'}, {'k': 'strings'}]]
    return ch


_syn = {}


def syn_file():
    if 'p' not in _syn:
        d = tempfile.mkdtemp(prefix='c15_', dir=clidrv.scratch_root())
        p = os.path.join(d, 'strings')
        with open(p, 'w') as f:
            f.write(SYN_STRINGS)
        _syn['p'] = p
        _syn['strings'] = rtrace.read_string_file(p)
    return _syn['p'], _syn['strings']


def cleanup():
    import shutil
    if 'p' in _syn:
        shutil.rmtree(os.path.dirname(_syn['p']), ignore_errors=True)
        _syn.clear()


def shipped(t):
    from io_drawer.drawer_type import DRAWER_TYPES
    for dt in DRAWER_TYPES:
        if dt.name == t:
            p = dt.get_trace_string_file_path()
            if p not in _syn:
                _syn[p] = rtrace.read_string_file(p)
            return p, _syn[p]
    raise KeyError(t)


def compare(got, data, strings):
    """-> (problem or None, number of entries expected)"""
    want = rtrace.decode(data, strings)
    if want is None:
        if not got:
            return 'no output for input without header', 0
        try:
            back = rhex.read_default(got[1:])
        except Exception as e:
            return 'input without a readable header is not hex-dumped losslessly: %s' % e, 0
        if back != data:
            return 'hex dump of header-less input gives %d bytes back, input has %d' % (len(back), len(data)), 0
        return None, 0
    exp_head = want['header'] + ['', 'HH:MM:SS Seq  Line  Entry Data', '-------- ---- ----- ----------']
    if got[:7] != exp_head:
        return 'header lines %r, expected %r' % (got[:7], exp_head), len(want['entries'])
    i = 7
    for n, e in enumerate(want['entries']):
        if i >= len(got) or got[i] != e['line']:
            return 'entry %d: %r, expected %r' % (n, got[i] if i < len(got) else None, e['line']), len(want['entries'])
        i += 1
        if e['warning'] is not None:
            if i >= len(got) or got[i] != e['warning']:
                return 'entry %d: warning line %r, expected %r' % (n, got[i] if i < len(got) else None, e['warning']), len(want['entries'])
            i += 1
        dump = []
        while i < len(got) and got[i].startswith(rtrace.INDENT) and not got[i].startswith(rtrace.INDENT + 'Warning'):
            dump.append(got[i][len(rtrace.INDENT):])
            i += 1
        if e['dump'] is None:
            if dump:
                return 'entry %d: unexpected hex dump' % n, len(want['entries'])
        else:
            try:
                back = rhex.read_default(dump)
            except Exception as ex:
                return 'entry %d: hex dump unreadable: %s' % (n, ex), len(want['entries'])
            if back != e['dump']:
                return 'entry %d: hex dump gives %s, data is %s' % (n, back.hex()[:40], e['dump'].hex()[:40]), len(want['entries'])
    if i != len(got):
        return 'extra output after the last expected entry (%d expected): %r' % (len(want['entries']), got[i]), len(want['entries'])
    return None, len(want['entries'])


REWRITES = ['100001||old text %d||a.cpp(1)\n200002||second %d||b.cpp(2)\n',
            '100001||new text %d||a.cpp(9)\n',
            '300001||partial only %d||c.cpp(3)\n200002||second changed %d||b.cpp(7)\n',
            '',
            '100001||back again %d||a.cpp(1)\n100001||duplicate||a.cpp(2)\n']


def _rewrite_case(case):
    """The string file at ONE path is rewritten between decodes; each decode must use the file as it is now."""
    from io_drawer.trace import parse_trace_data
    import shutil
    out = []
    d = tempfile.mkdtemp(prefix='c15r_', dir=clidrv.scratch_root())
    try:
        path = os.path.join(d, 'stringfile')
        data = build({'seq': [dict(length=4, h=100001), dict(length=4, h=200002), dict(length=8, h=300001 + 100000)], 'size': 'exact'})
        for step, idx in enumerate(case['order']):
            with open(path, 'w') as f:
                f.write(REWRITES[idx])
            strings = rtrace.read_string_file(path)
            got = parse_trace_data(memoryview(data), path)
            prob, n = compare(got, data, strings)
            LAST['n'] = 3
            if prob:
                out.append({'key': 'C15:stale-string-file', 'what': 'step %d (string file version %d at the same path): %s' % (step, idx, prob), 'case': case})
                break
    finally:
        shutil.rmtree(d, ignore_errors=True)
    return out


def eval_case(case):
    impl.ensure(False)
    if 'order' in case:
        return _rewrite_case(case)
    from io_drawer.trace import parse_trace_data
    data = build(case)
    if case.get('strings', 'syn') == 'syn':
        path, strings = syn_file()
    else:
        path, strings = shipped(case['strings'])
    try:
        core.arm(60)
        got = parse_trace_data(memoryview(data), path)
        core.disarm()
    except Exception as e:
        core.disarm()
        return [{'key': 'C15:exception', 'what': repr(e), 'case': case}]
    prob, n = compare(got, data, strings)
    LAST['n'] = n
    if prob:
        return [{'key': 'C15:output', 'what': prob, 'case': case}]
    return []


LAST = {'n': 0}


def build(case):
    if 'raw' in case:
        return bytes.fromhex(case['raw'])
    body = b''
    for s in case['seq']:
        if isinstance(s, int):
            body += entry(**SHAPES[s][1])
        else:
            body += entry(**s)
    total = 32 + len(body)
    ds = case['size']
    if ds == 'exact':
        size = total
    elif ds == 'mid':
        size = 32 + (len(entry(**(SHAPES[case['seq'][0]][1] if isinstance(case['seq'][0], int) else case['seq'][0]))) // 2 if case['seq'] else 0)
    elif ds == 'boundary':
        size = 32 + (len(entry(**(SHAPES[case['seq'][0]][1] if isinstance(case['seq'][0], int) else case['seq'][0]))) if case['seq'] else 0)
    elif ds == 'larger':
        size = total + 100
    elif ds == 'short1':
        size = total - 1
    else:
        size = ds
    data = header(size, **{k: (bytes.fromhex(v) if k == 'comp' else tuple(v) if k == 'hdr' else v) for k, v in case.get('hdr', {}).items()}) + body
    if 'cut' in case:
        data = data[:case['cut']]
    return data


def _do(res, case, step=499):
    LAST['n'] = 0
    vs = eval_case(case)
    res.case(nontrivial_key=json.dumps(case) if LAST['n'] else None, outcome=vs[0]['key'] if vs else 'ok:%d' % min(LAST['n'], 3),
             sample=case if res.evals % step == 1 else None)
    res.add(vs)


SIZES = [0, 31, 32, 'exact', 'mid', 'boundary', 'larger', 0xffffffff, 'short1']


def run_chunk(chunk):
    routed = subchunk.route(__name__, chunk)
    if routed is not None:
        return routed
    res = ChunkResult()
    impl.ensure(False)
    k = chunk['k']
    hdrs = [{kk: (v.hex() if kk == 'comp' else v) for kk, v in h.items()} for h in HEADERS]
    if k == 'seq':
        seqs = [[]] if chunk['first'] is None else \
            [[chunk['first']] + list(t) for n in range(chunk['maxlen']) for t in itertools.product(range(len(SHAPES)), repeat=n)]
        for si, seq in enumerate(seqs):
            for ds in SIZES:
                _do(res, {'seq': seq, 'size': ds, 'hdr': hdrs[si % len(hdrs)]}, step=1999)
    elif k == 'rewrite':
        for order in itertools.permutations(range(len(REWRITES)), 3):
            _do(res, {'order': list(order)}, step=17)
    elif k == 'trunc':
        for seq in ([1, 6, 4], [5, 10, 2], [8, 3, 17]):
            full = build({'seq': seq, 'size': 'exact'})
            for cut in range(len(full) + 1):
                _do(res, {'seq': seq, 'size': 'exact', 'cut': cut}, step=199)
                if cut % 16 == 0:
                    _do(res, {'seq': seq, 'size': 'larger', 'cut': cut}, step=199)
    elif k == 'nohdr':
        for n in range(0, 32):
            for fill in (0x00, 0x02, 0xff):
                _do(res, {'raw': (bytes([0x02, 0x20, 0x01, 0x42]) + bytes([fill]) * 28)[:n].hex()})
        for hdr in hdrs:
            for ds in SIZES:
                _do(res, {'seq': [], 'size': ds, 'hdr': hdr})
    elif k == 'strings':
        # every string of the synthetic file by exact hash, with 0..6 argument words
        _, strings = syn_file()
        for h, fmt, loc in strings:
            for nargs in range(0, 7):
                for tag in (rtrace.TAG_TRACE, rtrace.TAG_BIN):
                    _do(res, {'seq': [dict(length=4 * nargs, h=h, tag=tag, fill=nargs)], 'size': 'exact'})
                    _do(res, {'seq': [dict(length=4 * nargs + 1, h=h + 100000, tag=tag)], 'size': 'exact'})
    elif k == 'shipped':
        t = chunk['type']
        path, strings = shipped(t)
        res.extra['shipped_strings_' + t] = len(strings)
        from io_drawer.trace import TraceStringFile
        theirs = [(s.hash_value, s.message_format, s.location) for s in TraceStringFile(path).trace_strings]
        if theirs != strings:
            res.violation('C15:string-file-read', 'string file read by the repository differs from an independent read '
                          '(%d vs %d strings)' % (len(theirs), len(strings)), {'k': 'shipped', 'type': t})
        for i in range(0, len(strings), 3):
            group = strings[i:i + 3]
            seq = []
            for h, fmt, loc in group:
                nspec = fmt.replace('%%', '').count('%')
                seq.append(dict(length=4 * min(nspec, 6), h=h, line=i))
                seq.append(dict(length=4 * min(nspec, 6), h=h + 100000, line=i))
            _do(res, {'seq': seq, 'size': 'exact', 'strings': t}, step=37)
    cleanup()
    return res
