"""C08 - list, count and display-all agree on the same PELs, in file-name order (E4/E1: directories x option sets x modes)."""
import itertools
import json
from mc import strictjson
import os
import tempfile

from mc import subchunk, core, pelgen, impl, clidrv
from mc.core import ChunkResult
from mc.ref import select as ref
from mc.ref import hexdump as rhex

PROPERTY = 'C08'
LEVEL = 'model_checking'
ENGINE = 'E4'
TECHNIQUE = ('explicit enumeration of directory states (all subsets of an 8-file menu) x option sets (64 switch sets x -S '
             'lists x -r/-e/-x) with one real main() invocation per (state, mode) transition; oracle = cross-mode agreement '
             '+ reference selection model + file-name order; subprocess replays of a fixed subset')
LEVEL_TEXT = ('Every directory state over the menu (PELs spanning the class lattice, named so that name order differs from id '
              'order, three extensions, one without SRC, one with sections before the SRC) is built on disk and each option '
              'set is run in the three modes through the real main(); the three answers must agree with each other, with the '
              'C07 reference rule, with ascending (or exactly reversed) file-name order and, field by field, with the full '
              'decode; -x blocks must reproduce the files. The in-process driver is tied to the executable by subprocess '
              'replays.')
LEVEL_NOTE = ('directories larger than 8 files and names beyond the menu are not explored; malformed files belong to C09; '
              '"file-name order" is taken as plain (code point) string order, as sort / ls in the C locale give it')
RULE = ('state = subset of the 8-file menu (quick: size <= 3 and the full set; thorough: all 256); transition = one '
        'invocation of -n / -l / -a with a switch set in 2^6, -S in {none, one, two, all groups}, optionally -r, -e .pel/.txt, '
        '-x. Non-trivial: >= 1 file selected by the options; distinct by (subset, options).')
ASSUMPTIONS = ['entry ids in the directory are distinct']

MENU = [
    # name, eid, sev, flags, creator, subsys, commit, comp, sections
    ('m_serv.pel', 0x50000008, 0x40, 0xA000, 'O', 0x8D, '2024010203040506', 0x1000, ['PS', 'UD', 'LP', 'UDx', 'UDs', 'UDbig']),
    ('a_hidden.pel', 0x50000007, 0x40, 0x6000, 'B', 0x10, '2024020304050607', 0x2000, ['PSw']),
    ('.Z_info', 0x50000001, 0x00, 0x0000, 'O', 0x20, '2024030405060708', 0x3000, ['PS']),
    ('B_infosa.txt', 0x50000006, 0x00, 0x8000, 'H', 0x30, '2024040506070809', 0x4142, ['PSw', 'MT']),
    ('k_term.pel', 0x50000002, 0x51, 0x2000, 'O', 0x40, '2024050607080910', 0x5000, ['PSc', 'MT']),
    ('K_term.pel', 0x50000005, 0x20, 0x0000, 'T', 0x50, '2024060708091011', 0x6000, ['PS']),
    ('y_nosrc.pel', 0x50000003, 0x10, 0x2000, 'O', 0x60, '2024070809101112', 0x7000, ['UD', 'UDbig']),
    ('d_pre.txt', 0x50000004, 0x71, 0x2000, 'K', 0x70, '2024080910111213', 0x8000, ['UD0', 'UD', 'LP', 'EH', 'PS', 'MT']),
]
S_LISTS = {'none': [], 'one': None, 'two': ['Informational', 'Critical'], 'all': list(ref.GROUP_DIGIT)}
ONE_GROUPS = list(ref.GROUP_DIGIT)
SWITCHES = list(itertools.product((0, 1), repeat=6))
FLAGS = ['-E', '-s', '-N', '-H', '-t', '-O']


def pel_bytes(i):
    name, eid, sev, flags, creator, subsys, commit, comp, secs = MENU[i]
    sections = []
    for t in secs:
        if t == 'PS':
            sections.append({'t': 'PS', 'ascii': ('BD%02X%04X' % (0x8D + i, 0x1000 + i)).ljust(32)})
        elif t == 'UD':
            sections.append({'t': 'UD', 'comp': 0x4142, 'payload': bytes([i] * 12).hex()})
        elif t == 'UDs':
            # JSON text whose strings hold an escaped unpaired surrogate and non-ASCII characters: it loads, and has to print
            sections.append({'t': 'UD', 'comp': 0x2000, 'sub': 1,
                             'payload': b'{"Reporter": "sensor \\ud83d monitor", "Ort": "Z\xc3\xbcrich"}'.hex()})
        elif t == 'UD0':
            sections.append({'t': 'UD', 'comp': 0x4142, 'payload': ''})      # no payload at all, in front of the primary SRC
        elif t == 'PSc':
            # callouts whose FRU identity carries every / some / none of the optional fields (the list modes stop after this
            # section, the full decode must find the next one exactly behind it)
            sections.append({'t': 'PS', 'ascii': ('BD%02X%04X' % (0x8D + i, 0x1000 + i)).ljust(32), 'callouts': [
                pelgen.CALLOUT_FULL, {'prio': 0x4D, 'loc': '', 'fru': {'flags': 0x10}}, pelgen.CALLOUT_PROC,
                {'prio': 0x4C, 'loc': 'U1-P1', 'fru': {'flags': 0x15, 'ccin': 'CC02', 'sn': 'SERIAL000002'}}]})
        elif t == 'LP':
            # name length 5 + one target: 1 pad byte (a decoder that mis-skips the padding loses the sections after it)
            sections.append({'t': 'LP', 'name': 'lpar5', 'targets': [0x0001]})
        elif t == 'PSw':
            # a primary SRC that declares five valid words (what the SRC parser is handed must not depend on it)
            sections.append({'t': 'PS', 'ascii': ('BD%02X%04X' % (0x8D + i, 0x1000 + i)).ljust(32), 'wc': 5})
        elif t == 'UDbig':
            # a log larger than any plausible read buffer (the modes must agree on it as on a small one)
            sections.append({'t': 'UD', 'comp': 0x4142, 'payload': bytes((i + 3 * j) & 0xff for j in range(5000)).hex()})
        elif t == 'UDx':
            # declared built-in JSON, not UTF-8: must cost the list/count/display-all modes nothing
            sections.append({'t': 'UD', 'comp': 0x2000, 'sub': 1, 'payload': b'{"a": "caf\xe9"}\0\0'.hex()})
        else:
            sections.append({'t': t})
    return pelgen.encode_pel(pelgen.pel_from_spec({
        'eid': eid, 'plid': eid ^ 0x00F00000, 'creator': creator, 'commit': commit, 'comp': comp,
        'uh': {'sev': sev, 'flags': flags, 'subsys': subsys}, 'sections': sections}))


def bounds(tier):
    return {'menu': len(MENU), 'directories': 94 if tier == 'quick' else 256, 'switch_sets': 64,
            'S_lists': 2 if tier == 'quick' else 4}


def plan(tier, seed):
    masks = [m for m in range(256) if tier == 'thorough' or bin(m).count('1') <= 3 or m == 255]
    ch = []
    for m in masks:
        parts = 8 if (m == 255 or (tier == 'thorough' and bin(m).count('1') >= 6)) else 1
        for part in range(parts):
            ch.append({'k': 'dir', 'mask': m, 'tier': tier, 'part': part, 'parts': parts})
    ch.append({'k': 'subproc'})
    # the same under python -O (assertions stripped, __debug__ false)
    ch += [dict(c, optimize=True) for c in [{'k': 'dir', 'mask': 7, 'tier': 'quick', 'part': 0, 'parts': 1}, {'k': 'dir', 'mask': 255, 'tier': 'quick', 'part': 0, 'parts': 8}]]
    return ch


def argv_for(d, mode, sw, slist, extra=()):
    a = ['-p', d, mode]
    a += [f for f, on in zip(FLAGS, sw) if on]
    if slist:
        a += ['-S'] + list(slist)
    a += list(extra)
    return a


def expected(files, sw, slist, ext=None, rev=False):
    """files: menu indices present. -> ordered list of menu indices the options select."""
    groups = sorted({ref.GROUP_DIGIT[g] for g in slist})
    sel = []
    for i in files:
        name, eid, sev, flags = MENU[i][:4]
        if ext and os.path.splitext(name)[1] != ext:
            continue
        if ref.selected(sev, flags, *[bool(x) for x in sw], groups=groups):
            sel.append(i)
    sel.sort(key=lambda i: MENU[i][0], reverse=rev)
    return sel


def check_combo(d, files, sw, slist, extra, want_x=False):
    """Run -n, -l, -a for one option set; return (list of problems, n_selected, transitions)."""
    probs = []
    ext = None
    rev = '-r' in extra
    if '-e' in extra:
        ext = extra[extra.index('-e') + 1]
    want = expected(files, sw, slist, ext, rev)
    want_eids = ['0x%08X' % MENU[i][1] for i in want]
    rn = clidrv.run_main(argv_for(d, '-n', sw, slist, extra), isolate=True)
    rl = clidrv.run_main(argv_for(d, '-l', sw, slist, extra), isolate=True)
    ra = clidrv.run_main(argv_for(d, '-a', sw, slist, extra), isolate=True)
    trans = 3
    for nm, r in (('-n', rn), ('-l', rl), ('-a', ra)):
        if r.status != 0 or r.exc:
            probs.append(('%s exit' % nm, 'status %r exc %r' % (r.status, r.exc)))
    try:
        count = strictjson.loads(rn.stdout)['Number of PELs found']
        lst = strictjson.loads(rl.stdout, object_pairs_hook=lambda p: p)
        lst_keys = [k for k, _ in lst]
        lst_map = {k: dict(v) for k, v in lst}
        docs = strictjson.loads(ra.stdout)
    except Exception as e:
        probs.append(('unparsable', '%s' % e))
        return probs, len(want), trans
    all_eids = [x['Private Header']['Entry Id'] for x in docs]
    if not (count == len(lst_keys) == len(docs)):
        probs.append(('count-mismatch', 'count %r, list %d, all %d' % (count, len(lst_keys), len(docs))))
    if [int(k, 16) for k in lst_keys] != [int(k, 16) for k in all_eids]:
        probs.append(('list-vs-all', 'list %r, all %r' % (lst_keys, all_eids)))
    if [int(k, 16) for k in all_eids] != [int(k, 16) for k in want_eids]:
        probs.append(('all-vs-model', '-a shows %r, expected (file-name order%s, selection rule) %r' %
                      (all_eids, ' reversed' if rev else '', want_eids)))
    if [int(k, 16) for k in lst_keys] != [int(k, 16) for k in want_eids]:
        probs.append(('list-vs-model', '-l shows %r, expected %r' % (lst_keys, want_eids)))
    if count != len(want):
        probs.append(('count-vs-model', '-n says %r, expected %d' % (count, len(want))))
    for x in docs:
        e = lst_map.get(x['Private Header']['Entry Id'])
        if e is None:
            continue
        pairs = [('PLID', x['Private Header']['Platform Log Id']), ('CreatorID', x['Private Header']['Creator Subsystem']),
                 ('Subsystem', x['User Header']['Subsystem']), ('Commit Time', x['Private Header']['Committed at']),
                 ('Sev', x['User Header']['Event Severity']), ('CompID', x['Private Header']['Created by'])]
        if 'Primary SRC' in x:
            pairs.append(('SRC', x['Primary SRC']['Reference Code']))
        elif 'SRC' in e:
            probs.append(('list-field', 'list shows SRC %r for a PEL without primary SRC' % e['SRC']))
        for k, v in pairs:
            if e.get(k) != v:
                probs.append(('list-field', '%s: list %r, full decode %r' % (k, e.get(k), v)))
    if want_x:
        for mode in ('-l', '-a'):
            rx = clidrv.run_main(argv_for(d, mode, sw, slist, list(extra) + ['-x']))
            trans += 1
            blocks = clidrv.split_hex_blocks(rx.stdout)
            if blocks is None:
                probs.append(('hex-markers', '%s -x output is not a sequence of Begin/End blocks' % mode))
                continue
            try:
                got = [rhex.read_default(b) for b in blocks]
            except Exception as e:
                probs.append(('hex-unreadable', '%s -x: %s' % (mode, e)))
                continue
            if got != [pel_bytes(i) for i in want]:
                probs.append(('hex-blocks', '%s -x: %d blocks, expected the %d selected files in order' % (mode, len(got), len(want))))
    return probs, len(want), trans


def eval_case(case):
    impl.ensure(False)
    files = [i for i in range(8) if case['mask'] >> i & 1]
    with tempfile.TemporaryDirectory(prefix='c08_', dir=clidrv.odd_root()) as d:
        for i in files:
            with open(os.path.join(d, MENU[i][0]), 'wb') as f:
                f.write(pel_bytes(i))
        core.arm(60)
        probs, n, _ = check_combo(d, files, case['sw'], case['slist'], case['extra'], case.get('x', False))
        core.disarm()
    return [{'key': 'C08:' + p[0], 'what': '%s: %s (dir %s, options %s)' % (p[0], p[1], [MENU[i][0] for i in files],
             argv_for('D', 'MODE', case['sw'], case['slist'], case['extra'])[3:]), 'case': case} for p in probs[:3]]


def run_chunk(chunk):
    routed = subchunk.route(__name__, chunk)
    if routed is not None:
        return routed
    res = ChunkResult()
    impl.ensure(False)
    if chunk['k'] == 'subproc':
        return _subproc(res)
    mask = chunk['mask']
    files = [i for i in range(8) if mask >> i & 1]
    thorough = chunk['tier'] == 'thorough'
    trans = 0
    with tempfile.TemporaryDirectory(prefix='c08_', dir=clidrv.odd_root()) as d:
        for i in files:
            with open(os.path.join(d, MENU[i][0]), 'wb') as f:
                f.write(pel_bytes(i))
        big = (mask == 255) or bin(mask).count('1') == 2 or thorough
        for si, sw in enumerate(SWITCHES):
            if si % chunk.get('parts', 1) != chunk.get('part', 0):
                continue
            slists = [[], [ONE_GROUPS[(si + mask) % 7]]]
            if thorough:
                slists += [S_LISTS['two'], S_LISTS['all']]
            for slist in slists:
                extras = [()]
                if big:
                    extras += [('-r',), ('-e', '.pel'), ('-e', '.pel', '-r')]
                    if thorough or mask == 255:
                        extras += [('-e', '.txt'), ('-e', '.none')]
                for extra in extras:
                    want_x = big and (si % 8 == 0 or si % 8 == 5 or mask == 255) and len(slist) <= 1
                    case = {'mask': mask, 'sw': list(sw), 'slist': slist, 'extra': list(extra), 'x': want_x}
                    core.arm(60)
                    probs, n, t = check_combo(d, files, sw, slist, list(extra), want_x)
                    core.disarm()
                    trans += t
                    res.case(nontrivial_key=json.dumps(case) if n else None,
                             outcome='bad:' + probs[0][0] if probs else 'agree:%d' % min(n, 3),
                             sample=case if res.evals % 700 == 1 else None)
                    for p in probs[:2]:
                        res.violation('C08:' + p[0], '%s: %s (dir %s, options %s)' % (
                            p[0], p[1], [MENU[i][0] for i in files], argv_for('D', 'MODE', sw, slist, extra)[3:]), case)
    res.extra['states'] = 1 if chunk.get('part', 0) == 0 else 0
    res.extra['transitions'] = trans
    return res


def _subproc(res):
    n_ok = 0
    trans = 0
    with tempfile.TemporaryDirectory(prefix='c08s_', dir=clidrv.odd_root()) as d:
        for i in range(8):
            with open(os.path.join(d, MENU[i][0]), 'wb') as f:
                f.write(pel_bytes(i))
        combos = [('-n', (0, 0, 0, 0, 0, 0), [], ()), ('-l', (0, 0, 0, 0, 0, 0), [], ()), ('-a', (0, 0, 0, 0, 0, 0), [], ()),
                  ('-l', (1, 0, 0, 0, 0, 0), [], ('-r',)), ('-a', (1, 0, 0, 0, 0, 0), [], ('-e', '.pel')),
                  ('-l', (0, 0, 1, 1, 0, 1), ['Recovered'], ()), ('-a', (0, 0, 0, 1, 0, 1), [], ('-r',)),
                  ('-a', (1, 0, 0, 0, 0, 0), [], ('-x',)), ('-l', (0, 1, 0, 0, 1, 0), ['Symptom'], ('-x',)),
                  ('-n', (0, 0, 0, 0, 1, 1), [], ()), ('-l', (0, 0, 0, 0, 0, 1), ['Critical', 'Informational'], ()),
                  ('-a', (0, 0, 1, 0, 0, 0), [], ('-e', '.txt', '-r'))]
        for mode, sw, slist, extra in combos:
            argv = argv_for(d, mode, sw, slist, extra)
            rc, so, se = clidrv.run_subprocess(argv)
            r = clidrv.run_main(argv, isolate=True)
            trans += 1
            case = {'subprocess': True, 'argv': argv[2:]}
            res.case(nontrivial_key=json.dumps(case), outcome='subproc:%s' % rc)
            if (rc, so) != (r.status, r.stdout):
                res.violation('C08:conformance', 'real executable and in-process driver disagree for %s' % argv[2:], case)
            else:
                n_ok += 1
    res.extra['traces_validated_against_impl'] = n_ok
    res.extra['transitions'] = trans
    return res
