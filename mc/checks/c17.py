"""C17 - an I/O drawer dump is partitioned into ILOG and trace regions (E1 over layouts)."""
import itertools
import json
import os
import shutil
import struct
import subprocess
import tempfile

from mc import subchunk, core, impl, clidrv
from mc.core import ChunkResult
from mc.ref import hexdump as rhex

PROPERTY = 'C17'
LEVEL = 'exploration'
ENGINE = 'E1'
TECHNIQUE = ('bounded-exhaustive enumeration of dump layouts: 7 ILOG parts x every ordered selection of <= 3 (thorough 4) '
             'distinct buffer names x buffer shapes, through the real parse_dump_data with the stand-alone decoders wrapped to '
             'record the exact slices handed out; region model from the statement; file route in both hex formats with padded/'
             'truncated short last lines; CLI subprocess conformance')
LEVEL_TEXT = ('Every layout is decoded by the real code; the slices actually passed to the ILOG and trace decoders must be '
              'contiguous, disjoint, in address order and cover the input, must equal the regions of an independent model '
              '(earliest header per name, sorted), and the output must be the concatenation of the stand-alone decoders\' '
              'output on those regions under the stated headings. The same layouts written as hex-dump text in both supported '
              'formats must decode to the same lines.')
LEVEL_NOTE = 'the same buffer name occurring twice is outside the statement; stand-alone decoders are checked by C14/C15 and trusted here'
RULE = ('layout = ILOG part (7) x ordered selection of distinct names (157 / 517) x shape per buffer in {header only, header + '
        'entry, truncated to 20 bytes, declared size beyond region} (all shape combinations for <= 2 buffers, rotated above); '
        'file route: every 7th layout x 2 formats x padded/truncated x upper/lower. Non-trivial: at least one trace region; '
        'distinct by dump bytes.')
ASSUMPTIONS = []

START = bytes([0x02, 0x20, 0x01, 0x42])
NAMES = ['IICS', 'IICM', 'POWR', 'FANS', 'INFO', 'ERRL']
DIV = '-------------------------------------------------------------------------'
ILOGS = [
    b'',
    bytes.fromhex('8ADF0F19010000DE'),
    bytes.fromhex('8ADF0F19010000DE00010002'),
    bytes.fromhex('00010002') + b'INFO' + bytes.fromhex('8ADF0F1901040000'),
    START + b'XXXX' + bytes.fromhex('8ADF0F1901040000'),
    bytes.fromhex('8ADF0F19010000DE000100020304') + START[:2],
    bytes.fromhex('0001000201040000') + b'FANS' + START,
]


def buf(name, shape, tag):
    ent = struct.pack('>HHHHII', 0x8AAB, 0x0100 + tag, 4, 0x4654, 32403714, 324) + struct.pack('>I', 0xfa040000 + tag) + struct.pack('>I', 24)
    if shape == 'hdr':
        body, size = b'', 32
    elif shape == 'entry':
        body, size = ent, 32 + len(ent)
    elif shape == 'big':
        body, size = ent, 4096
    else:
        body, size = b'', 32
    h = START + name.encode() + b' ' * 8 + b'\0' * 4 + struct.pack('>III', size, tag, 0)
    b = h + body
    if shape == 'trunc':
        b = b[:20]
    return b


SHAPES = ['hdr', 'entry', 'trunc', 'big']


def bounds(tier):
    return {'ilog_parts': len(ILOGS), 'max_buffers': 3 if tier == 'quick' else 4, 'shapes': SHAPES}


def selections(maxn):
    out = [()]
    for n in range(1, maxn + 1):
        out += list(itertools.permutations(range(6), n))
    return out


def plan(tier, seed):
    maxn = 3 if tier == 'quick' else 4
    ch = [{'k': 'layouts', 'ilog': i, 'maxn': maxn, 'tier': tier} for i in range(len(ILOGS))]
    ch.append({'k': 'cli'})
    # the same under python -O (assertions stripped, __debug__ false)
    ch += [dict(c, optimize=True) for c in [{'k': 'layouts', 'ilog': 0, 'maxn': 3, 'tier': 'quick'}, {'k': 'cli'}]]
    return ch


def build(case):
    if 'raw' in case:
        return bytes.fromhex(case['raw'])
    b = ILOGS[case['ilog']]
    for i, (n, s) in enumerate(zip(case['names'], case['shapes'])):
        b += buf(NAMES[n], SHAPES[s], i + 1)
    return b


def model_regions(data):
    offs = sorted({o for o in (data.find(START + n.encode()) for n in NAMES) if o != -1})
    if not offs:
        return (0, len(data)), []
    return (0, offs[0]), [(o, offs[i + 1] if i + 1 < len(offs) else len(data)) for i, o in enumerate(offs)]


_paths = {}


def paths():
    """small synthetic PTE header / string file (the shipped ones cost 20 ms per parse); the CLI chunk uses the shipped ones"""
    if 'd' not in _paths:
        from mc.ref import cheader
        d = tempfile.mkdtemp(prefix='c17f_', dir=clidrv.scratch_root())
        cheader.write_header(os.path.join(d, 'pte.h'), [('010000**', 'Begin power on, node type = 0x%02X', [4]),
                                                        ('01040000', 'Power on complete', []), ('E*******', 'error %d', [2])], [('f', 1)])
        with open(os.path.join(d, 'strings'), 'w') as f:
            f.write('#FSP_TRACE_v2|||x|||y\n32403714||E> Dev 0x%X: Fail count = %d||fan.cpp(324)\n27601234||Cmd Data: 0x%X||pow.cpp(2764)\n')
        _paths['d'] = d
    return os.path.join(_paths['d'], 'pte.h'), os.path.join(_paths['d'], 'strings')


def cleanup():
    if 'd' in _paths:
        shutil.rmtree(_paths.pop('d'), ignore_errors=True)


def expected_lines(data, hdr, strf):
    from io_drawer.ilog import parse_ilog_data
    from io_drawer.trace import parse_trace_data
    if not data:
        return []
    (a, b), traces = model_regions(data)
    lines = ['ILOG', ''] + parse_ilog_data(memoryview(data)[a:b], hdr) + ['', DIV, '']
    for (x, y) in traces:
        lines += ['Trace', ''] + parse_trace_data(memoryview(data)[x:y], strf) + ['', DIV, '']
    return lines


def eval_case(case):
    impl.ensure(False)
    import io_drawer.dump as dump
    if 'cli' in case:          # command-line cases are replayed by re-running the command-line chunk
        return [v for v in _cli(ChunkResult()).violations if v['case'] == case]
    data = build(case)
    hdr, strf = paths()
    out = []
    bad = lambda what, detail: out.append({'key': 'C17:' + what, 'what': '%s: %s' % (what, detail), 'case': case})
    if case.get('file'):
        return _file_case(case, data, dump, hdr, strf, bad) or out
    rec = []
    oi, ot = dump.parse_ilog_data, dump.parse_trace_data

    def wi(d, h):
        rec.append(('ilog', bytes(d)))
        return oi(d, h)

    def wt(d, s):
        rec.append(('trace', bytes(d)))
        return ot(d, s)
    dump.parse_ilog_data, dump.parse_trace_data = wi, wt
    try:
        core.arm(30)
        view = memoryview(data)
        if case.get('window'):
            # the dump is a window into a larger buffer (e.g. a section payload): what lies around it - further headers
            # included - is not part of the dump
            pre = bytes.fromhex('0220014246414e53') + b'\x11' * 9        # a complete trace header start + name, then filler
            post = bytes.fromhex('02200142504f5752') + b'\x22' * 5
            holder = (bytearray if case['window'] == 'bytearray' else bytes)(pre + data + post)
            view = memoryview(holder)[len(pre):len(pre) + len(data)]
        got = dump.parse_dump_data(view, hdr, strf)
        core.disarm()
    except Exception as e:
        core.disarm()
        bad('exception', repr(e))
        return out
    finally:
        dump.parse_ilog_data, dump.parse_trace_data = oi, ot
    (a, b), traces = model_regions(data)
    LAST['n'] = len(traces)
    if case.get('dup'):
        # the same buffer name twice: only the ILOG clause and the partition are constrained
        if rec:
            if rec[0] != ('ilog', data[a:b]):
                bad('ilog-region', 'ILOG region is %d bytes, everything before the earliest header is %d bytes' % (len(rec[0][1]), b))
            if b''.join(d for _, d in rec) != data:
                bad('partition', 'slices handed to the decoders do not concatenate to the input')
        from io_drawer.ilog import parse_ilog_data
        head = ['ILOG', ''] + parse_ilog_data(memoryview(data)[a:b], hdr) + ['', DIV, '']
        if got[:len(head)] != head:
            bad('ilog-region', 'output does not begin with the ILOG decode of everything before the earliest header')
        return out
    want = expected_lines(data, hdr, strf)
    if got != want:
        i = next((i for i, (g, w) in enumerate(zip(got, want)) if g != w), min(len(got), len(want)))
        bad('output', 'line %d: %r, expected %r (regions ilog=%s traces=%s)' % (
            i, got[i] if i < len(got) else None, want[i] if i < len(want) else None, (a, b), traces))
    if rec:
        joined = b''.join(d for _, d in rec)
        if joined != data:
            bad('partition', 'slices handed to the decoders do not concatenate to the input (%d of %d bytes)' % (len(joined), len(data)))
        kinds = [k for k, _ in rec]
        if kinds != ['ilog'] + ['trace'] * len(traces):
            bad('regions', 'decoders called as %s, model has 1 ILOG + %d trace regions' % (kinds, len(traces)))
        else:
            want_slices = [data[a:b]] + [data[x:y] for x, y in traces]
            if [d for _, d in rec] != want_slices:
                bad('regions', 'slice boundaries differ from the region model %s' % ([(a, b)] + traces))
    elif data:
        pass   # decoders not called through the module names: only the output comparison applies
    return out


def _file_case(case, data, dump, hdr, strf, bad):
    fmt = dump.HEX_DUMP_LINE_FORMATS[case['fmt']]
    lines = rhex.render(data, fmt, case['pad'], case['upper'])
    if case.get('ins') is not None:
        pos, text = case['ins']
        pos = min(pos, len(lines)) if pos >= 0 else len(lines)
        lines = lines[:pos] + [text] + lines[pos:]
    d = tempfile.mkdtemp(prefix='c17_', dir=clidrv.scratch_root())
    try:
        p = os.path.join(d, 'dump.txt')
        with open(p, 'w') as f:
            f.write(''.join(l + '\n' for l in lines) if not case.get('nonl') else '\n'.join(lines))
        try:
            core.arm(30)
            got = dump.parse_dump_file(p, hdr, strf)
            want = dump.parse_dump_data(memoryview(data), hdr, strf) if data else []
            core.disarm()
        except Exception as e:
            core.disarm()
            bad('file-exception', repr(e))
            return None
        LAST['n'] = len(model_regions(data)[1])
        if got != want:
            bad('file-route', 'decoding the dump file (format %d, pad=%s, upper=%s) differs from decoding its raw bytes' % (
                case['fmt'], case['pad'], case['upper']))
    finally:
        shutil.rmtree(d, ignore_errors=True)
    return None


LAST = {'n': 0}


def _do(res, case, step=499):
    LAST['n'] = 0
    vs = eval_case(case)
    res.case(nontrivial_key=json.dumps(case) if LAST['n'] else None, outcome=vs[0]['key'] if vs else 'ok:%d' % min(LAST['n'], 4),
             sample=case if res.evals % step == 1 else None)
    res.add(vs)


def run_chunk(chunk):
    routed = subchunk.route(__name__, chunk)
    if routed is not None:
        return routed
    res = ChunkResult()
    impl.ensure(False)
    if chunk['k'] == 'cli':
        return _cli(res)
    il = chunk['ilog']
    count = 0
    for names in selections(chunk['maxn']):
        n = len(names)
        if n <= 2 or (chunk['tier'] == 'thorough' and n == 3):
            shape_sets = list(itertools.product(range(4), repeat=n))
        else:
            shape_sets = [tuple((count + i) % 4 for i in range(n)), tuple((count + 2 * i + 1) % 4 for i in range(n))]
        for shapes in shape_sets:
            case = {'ilog': il, 'names': list(names), 'shapes': list(shapes)}
            _do(res, case)
            count += 1
            if count % 5 == 0:
                _do(res, dict(case, window='bytes' if count % 10 else 'bytearray'))
            if count % 7 == 0:
                for fmt in (0, 1):
                    for pad in (True, False):
                        _do(res, dict(case, file=True, fmt=fmt, pad=pad, upper=bool(count % 2), nonl=bool(count % 3 == 0)))
    for n1, n2 in itertools.product(range(6), repeat=2):
        for s1 in range(4):
            _do(res, {'ilog': il, 'names': [n1, n2, n1], 'shapes': [s1, (s1 + 1) % 4, 1], 'dup': True})
    if il in (1, 2, 3):
        # file route with a comment / blank / whitespace line before the first, between and after the data lines
        for names, shapes in (([3, 2], [1, 1]), ([], []), ([4], [0])):
            for fmt in (0, 1):
                for pos in (0, 1, 2, -1):
                    for text in ('# I/O drawer dump', '', '   ', '// 00 11 22', '; AB',
                                 # lines that follow the format for a few columns before they break it: no byte of theirs is data
                                 'Date: 2024-01-01', 'Begin of dump', '0000:  be careful, partial dump', 'Feb 12 10:11:12 dump taken'):
                        _do(res, {'ilog': il, 'names': names, 'shapes': shapes, 'file': True, 'fmt': fmt, 'pad': bool(pos % 2),
                                  'upper': True, 'ins': [pos, text]})
    if il == 1:
        # file route: every byte value in the first dump line (its text column may look like format punctuation)
        for v in range(256):
            raw = (bytes([v, 0x11, v, 0x22]) * 4 + bytes([v]) * 5 + buf('INFO', 'entry', 1)).hex()
            for fmt in (0, 1):
                _do(res, {'raw': raw, 'file': True, 'fmt': fmt, 'pad': bool(v % 2), 'upper': bool(v % 3)})
    if il == 0:
        _do(res, {'raw': ''})
        _do(res, {'raw': '', 'file': True, 'fmt': 0, 'pad': True, 'upper': True})
        for nlen in range(1, 20):
            _do(res, {'raw': (START + b'INFO' + b' ' * 12)[:nlen].hex()})
            _do(res, {'raw': (b'\0' * 3 + START + b'ERRL' + b' ' * 12)[:nlen].hex()})
            _do(res, {'raw': (START + b'INFO' + b' ' * 12)[:nlen].hex(), 'file': True, 'fmt': nlen % 2, 'pad': bool(nlen % 3), 'upper': True})
    cleanup()
    return res


def _cli(res):
    n_ok = 0
    import io_drawer.dump as dump
    d = tempfile.mkdtemp(prefix='c17c_', dir=clidrv.scratch_root())
    try:
        for i, case in enumerate([{'ilog': 1, 'names': [3, 2], 'shapes': [1, 1]}, {'ilog': 2, 'names': [], 'shapes': []},
                                  {'ilog': 0, 'names': [4], 'shapes': [0]}, {'ilog': 5, 'names': [5, 0, 1], 'shapes': [2, 1, 3]}]):
            data = build(case)
            for t in ('mex', 'nimitz'):
                for fmt in (0, 1):
                    p = os.path.join(d, 'dump%d_%d.txt' % (i, fmt))
                    with open(p, 'w') as f:
                        f.write(''.join(l + '\n' for l in rhex.render(data, dump.HEX_DUMP_LINE_FORMATS[fmt], True, True)))
                    env = dict(os.environ, PYTHONPATH=core.MODULES, PYTHONDONTWRITEBYTECODE='1')
                    pr = subprocess.run([core.PY, '-m', 'io_drawer.dump', '-t', t, p], capture_output=True, text=True, env=env, timeout=60)
                    from io_drawer.drawer_type import DRAWER_TYPES
                    dt = [x for x in DRAWER_TYPES if x.name == t][0]
                    want = dump.parse_dump_data(memoryview(data), dt.get_header_file_path(), dt.get_trace_string_file_path())
                    c = dict(case, cli=t, fmt=fmt)
                    res.case(nontrivial_key=json.dumps(c), outcome='cli:%d' % pr.returncode)
                    if pr.returncode != 0 or pr.stdout.split('\n')[:-1] != want:
                        res.violation('C17:cli', 'python -m io_drawer.dump -t %s output differs from parse_dump_data on the raw bytes (rc=%d)'
                                      % (t, pr.returncode), c)
                    else:
                        n_ok += 1
        # -d / -s name the PTE table and the trace strings independently: either, both or neither may be given, and each
        # region is decoded with the file named for it (the drawer type's own file where none is named)
        from mc.ref import cheader
        from io_drawer.drawer_type import DRAWER_TYPES
        hdr = os.path.join(d, 'custom_pte.h')
        cheader.write_header(hdr, [('0104****', 'custom table entry %d', [3]), ('********', 'custom catch all', [])], [('f0', 1), ('f1', 2)])
        strs = os.path.join(d, 'custom_strings')
        with open(strs, 'w') as f:
            f.write('#FSP_TRACE_v2|||custom|||BUILD:verif\n32403714||custom trace string %x||z.cpp(1)\n')
        for i, case in enumerate([{'ilog': 1, 'names': [3, 2], 'shapes': [1, 1]}, {'ilog': 3, 'names': [5, 0, 1], 'shapes': [1, 3, 1]}]):
            data = build(case)
            p = os.path.join(d, 'opt%d.txt' % i)
            with open(p, 'w') as f:
                f.write(''.join(l + '\n' for l in rhex.render(data, dump.HEX_DUMP_LINE_FORMATS[i % 2], True, True)))
            for t in ('mex', 'nimitz'):
                dt = [x for x in DRAWER_TYPES if x.name == t][0]
                for use_d, use_s in itertools.product((False, True), repeat=2):
                    for long_opts in (False, True):
                        argv = [core.PY, '-m', 'io_drawer.dump', '-t', t, p]
                        if use_d:
                            argv += ['--header-file' if long_opts else '-d', hdr]
                        if use_s:
                            argv += ['--string-file' if long_opts else '-s', strs]
                        env = dict(os.environ, PYTHONPATH=core.MODULES, PYTHONDONTWRITEBYTECODE='1')
                        pr = subprocess.run(argv, capture_output=True, text=True, env=env, timeout=60)
                        want = dump.parse_dump_data(memoryview(data), hdr if use_d else dt.get_header_file_path(),
                                                    strs if use_s else dt.get_trace_string_file_path())
                        c = dict(case, cli=t, header_file=use_d, string_file=use_s, long=long_opts)
                        res.case(nontrivial_key=json.dumps(c), outcome='cli-files:%d' % pr.returncode)
                        if pr.returncode != 0 or pr.stdout.split('\n')[:-1] != want:
                            res.violation('C17:cli-files', 'io_drawer.dump -t %s%s%s does not decode each region with the file named for it'
                                          % (t, ' -d <file>' if use_d else '', ' -s <file>' if use_s else ''), c)
                        else:
                            n_ok += 1
        # empty input gives no output, also through the command line: empty file, file without any dump line
        for name, text in (('empty.txt', ''), ('nolines.txt', '# only a comment\n\nnot a dump line\n'), ('blank.txt', '\n\n')):
            p = os.path.join(d, name)
            with open(p, 'w') as f:
                f.write(text)
            for t in ('mex', 'nimitz'):
                env = dict(os.environ, PYTHONPATH=core.MODULES, PYTHONDONTWRITEBYTECODE='1')
                pr = subprocess.run([core.PY, '-m', 'io_drawer.dump', '-t', t, p], capture_output=True, text=True, env=env, timeout=60)
                pr2 = subprocess.run([core.PY, os.path.join(core.MODULES, 'io_drawer', 'dump.py'), '-t', t, p], capture_output=True, text=True,
                                     env=env, timeout=60)
                c = {'cli': t, 'file': name}
                res.case(nontrivial_key=json.dumps(c), outcome='cli-empty:%d' % pr.returncode)
                if pr.returncode != 0 or pr.stdout != '' or pr2.stdout != '' or pr2.returncode != 0:
                    res.violation('C17:cli-empty', 'dump tool on %s (no data bytes) printed %r (rc=%d); empty input must give no output'
                                  % (name, (pr.stdout or pr2.stdout)[:40], pr.returncode), c)
                else:
                    n_ok += 1
    finally:
        shutil.rmtree(d, ignore_errors=True)
    res.extra['traces_validated_against_impl'] = n_ok
    return res
