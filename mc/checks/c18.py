"""C18 - parser modules: chosen by name, fed the right data, contained (E1 dispatch product + containment sequences)."""
import itertools
import json
from mc import strictjson
import sys

from mc import subchunk, core, pelgen, decode, impl, imphook
from mc.core import ChunkResult
from mc.ref import hexdump as rhex

PROPERTY = 'C18'
LEVEL = 'exploration'
ENGINE = 'E1'
TECHNIQUE = ('bounded-exhaustive enumeration of the dispatch space (65 module-name-forming creators x 7 components x 10 sub-types x '
             '4 versions, UD and ED; SRC creators x reference-code types) with a recording sys.meta_path finder that serves a '
             'fixture module for whatever name the decoder asks for; containment: all behaviour assignments (5^3) x all orders '
             'of three sections served by two modules, followed by a well-behaved PEL; shipped m2c00 over sub-types x versions x '
             'payloads vs. the stand-alone decoders; plug-ins disabled: empty import log over the same space')
LEVEL_TEXT = ('The finder sees every import the decoder attempts and the fixture records every call, so the module name and the '
              'arguments are observed, not inferred; the whole identity-tuple product is run with plug-ins on (name and argument '
              'oracle) and off (no import, no call, no new sys.modules entry). Containment is decided by comparing each document '
              'with the all-well-behaved document section by section for every assignment of behaviours to sections and every '
              'section order, and by decoding a well-behaved PEL afterwards.')
LEVEL_NOTE = ('creator bytes that cannot form a module name are covered by C04 (hex-dump fallback); parser modules are Python '
              'modules served from memory, equivalent to modules on sys.path for the import system')
RULE = ('dispatch: creators [A-Za-z0-9_] x components {0000,00AB,2000,2C00,E500,ABCD,FFFF} x sub-types {0,1,2,3,4,5,72,73,84,255} x '
        'versions {0,1,2,255} x {UD, ED} x plug-ins {on, off}; SRC: 65 creators x 5 reference-code types x word counts; osrc '
        'forwarding for 6 component bytes + BC; containment: behaviours {ok, raise, ImportError in call, None, null}^3 x 6 orders '
        '+ SRC parser behaviours; m2c00: 3+2 sub-types x 4 versions x 4 payloads x direct/parsePEL. Non-trivial: a parser module '
        'is (or would be) consulted; distinct by case.')
ASSUMPTIONS = ['"returns nothing" covers None, JSON null and the empty string']

import string
NAME_CREATORS = string.ascii_uppercase + string.ascii_lowercase + string.digits + '_' + '\xe9\xdc'   # + two Latin-1 letters (creator bytes >= 0x80)
COMPS = [0x0000, 0x00AB, 0x2000, 0x2C00, 0xE500, 0xABCD, 0xFFFF]
SUBS = [0, 1, 2, 3, 4, 5, 72, 73, 84, 255]
VERS = [0, 1, 2, 255]
PAYLOAD = bytes(range(0x41, 0x41 + 13))
SENT = {'t': 'MT', 'mtm': 'SENTINEL', 'sn': 'S'}


def bounds(tier):
    return {'creators': len(NAME_CREATORS), 'components': len(COMPS), 'subtypes': len(SUBS), 'versions': len(VERS),
            'containment_assignments': 5 ** 3, 'orders': 6}


def plan(tier, seed):
    ch = []
    step = 8 if tier == 'quick' else 4
    for i in range(0, len(NAME_CREATORS), step):
        ch.append({'k': 'dispatch', 'creators': NAME_CREATORS[i:i + step], 'plugins': True})
        ch.append({'k': 'dispatch', 'creators': NAME_CREATORS[i:i + step], 'plugins': False})
    ch += [{'k': 'src'}, {'k': 'osrc'}, {'k': 'm2c00'}, {'k': 'src_contain'}]
    for b0 in range(len(BEH_BYTES)):
        for b1 in range(len(BEH_BYTES)):
            ch.append({'k': 'contain', 'b0': b0, 'b1': b1})
    # the same under python -O (assertions stripped, __debug__ false)
    ch += [dict(c, optimize=True) for c in [{'k': 'src'}, {'k': 'osrc'}, {'k': 'm2c00'}, {'k': 'dispatch', 'creators': NAME_CREATORS[:8], 'plugins': True}]]
    return ch


def is_builtin(creator, comp):
    from pel.peltool.pel_values import creatorIDs
    return creatorIDs.get(creator) == 'BMC' and comp == 0x2000


def plugin_modules():
    return sorted(n for n in sys.modules if n.split('.')[0] in imphook.PKGS and '.' in n)


def classify(case, what):
    if case.get('k') == 'src_contain' and case.get('beh') in ('none',):
        return 'F15:src-parser-returning-none-breaks-whole-pel'
    if case.get('k') == 'contain' and 2 in case.get('behs', []) and what in ('later-pel-differs', 'other-section-changed'):
        return 'F10:importerror-in-parser-call-treated-as-absent'
    if case.get('k') == 'contain' and 2 in case.get('behs', []) and what == 'no-error-note':
        return 'F10:importerror-in-parser-call-treated-as-absent'
    return 'C18:' + what


def eval_case(case, fresh=True):
    if fresh or case['k'] in ('contain', 'src_contain', 'src_seq'):
        impl.fresh(False)      # freshly imported decoder modules: no parser cache carried over
        impl._current['registry'] = False
    else:
        impl.ensure(False)
    try:
        k = case['k']
        if k == 'dispatch':
            return _dispatch(case)
        if k == 'src':
            return _src(case)
        if k == 'osrc':
            return _osrc(case)
        if k == 'm2c00':
            return _m2c00(case)
        if k == 'contain':
            return _contain(case)
        if k == 'src_contain':
            return _src_contain(case)
        if k == 'src_seq':
            return _src_seq(case)
        raise KeyError(k)
    finally:
        imphook.uninstall()


def _bad(out, case, what, detail):
    out.append({'key': classify(case, what), 'what': '%s: %s' % (what, detail), 'case': case})


def _dispatch(case):
    out = []
    cr, comp, sub, ver, kind, plugins = case['creator'], case['comp'], case['sub'], case['ver'], case['kind'], case['plugins']
    imphook.install(serve_all=True, override_shipped=True)
    if not plugins:
        imphook.forget_modules()      # (see _src) nothing loaded beforehand: an import would show in the log
        imphook.reset_logs()
    before = plugin_modules()
    sec = {'t': kind, 'comp': comp, 'sub': sub, 'ver': ver, 'payload': PAYLOAD.hex()}
    pel_creator = cr
    if kind == 'ED':
        sec['creator'] = cr
        pel_creator = 'T'
    r = decode.parse(pelgen.encode_pel(pelgen.pel_from_spec({'creator': pel_creator, 'sections': [sec, SENT]})), plugins=plugins)
    if r['kind'] != 'doc':
        _bad(out, case, 'not-decoded', '%s %s' % (r['kind'], r.get('msg')))
        return out
    calls = [c for c in imphook.CALLS if c[1] == 'parseUDToJson']
    ud_imports = [n for n in imphook.IMPORTS if n.startswith('udparsers.')]
    name = '%s%04x' % (cr.lower(), comp)
    want_mod = 'udparsers.%s.%s' % (name, name)
    if not plugins:
        if imphook.IMPORTS or imphook.CALLS:
            _bad(out, case, 'import-with-plugins-disabled', 'imports %s calls %s' % (imphook.IMPORTS[:3], [c[:2] for c in imphook.CALLS[:3]]))
        if plugin_modules() != before:
            _bad(out, case, 'sysmodules-with-plugins-disabled', 'sys.modules gained %s' % sorted(set(plugin_modules()) - set(before)))
        return out
    if is_builtin(cr, comp):
        if ud_imports or calls:
            _bad(out, case, 'builtin-consulted-module', 'built-in BMC format imported %s' % ud_imports)
        return out
    LAST['nt'] = True
    # (a module already imported earlier in this process is not looked up again; the fixture records its own name)
    if any(not want_mod.startswith(n) for n in ud_imports) or (ud_imports and ud_imports[-1] != want_mod) or \
            (not ud_imports and want_mod not in sys.modules):
        _bad(out, case, 'module-name', 'imports attempted %s, expected %s' % (ud_imports, want_mod))
        return out
    if len(calls) != 1:
        _bad(out, case, 'call-count', '%d calls of parseUDToJson, expected 1' % len(calls))
        return out
    c = calls[0]
    if c[0] != want_mod or (c[2], c[3], c[4]) != (sub, ver, PAYLOAD.hex()):
        _bad(out, case, 'arguments', 'called %s(%r, %r, %s), expected %s(%r, %r, %s)' % (c[0], c[2], c[3], c[4], want_mod, sub, ver, PAYLOAD.hex()))
    ent = r['doc'][pelgen.expected_keys(pelgen.pel_from_spec({'sections': [sec, SENT]}))[2]]
    if ent.get('Fixture') != name or ent.get('Payload') != PAYLOAD.hex():
        _bad(out, case, 'output-not-shown', 'section shows %r' % {k: v for k, v in ent.items() if k not in ('Section Version', 'Sub-section type', 'Created by')})
    return out


def _src(case):
    out = []
    cr, ascii_, wc, plugins = case['creator'], case['ascii'], case['wc'], case['plugins']
    imphook.install(serve_all=True, override_shipped=True)
    if not plugins:
        # a module that an earlier case already loaded would be handed out again without an observable import: start from
        # nothing loaded, so that "no parser module is imported" is decided by the import log
        imphook.forget_modules()
        imphook.reset_logs()
    words = [0x0A0B0C01 + i * 0x01010101 for i in range(8)]
    src = {'t': case.get('t', 'PS'), 'ascii': ascii_.ljust(32), 'words': words, 'wc': wc}
    if not plugins:
        # with callouts that name a maintenance procedure: the callout parser module is a parser module too
        src['callouts'] = [pelgen.CALLOUT_PROC, pelgen.CALLOUT_FULL]
    r = decode.parse(pelgen.encode_pel(pelgen.pel_from_spec({'creator': cr, 'sections': [src, SENT]})), plugins=plugins)
    if r['kind'] != 'doc':
        _bad(out, case, 'not-decoded', '%s %s' % (r['kind'], r.get('msg')))
        return out
    calls = [c for c in imphook.CALLS if c[1] == 'parseSRCToJson']
    if not plugins:
        if imphook.IMPORTS or imphook.CALLS:
            _bad(out, case, 'import-with-plugins-disabled', 'imports %s calls %s' % (imphook.IMPORTS[:3], [c[:2] for c in imphook.CALLS[:3]]))
        _no_descriptions(out, case, r['doc'].get('Primary SRC' if src['t'] == 'PS' else 'Secondary SRC'))
        return out
    LAST['nt'] = True
    name = cr.lower() + 'src'
    want_mod = 'srcparsers.%s.%s' % (name, name)
    src_imports = [n for n in imphook.IMPORTS if n.startswith('srcparsers.')]
    if (src_imports and src_imports[-1] != want_mod) or (not src_imports and want_mod not in sys.modules):
        _bad(out, case, 'src-module-name', 'imports attempted %s, expected %s' % (src_imports, want_mod))
        return out
    want_words = ['%08X' % w for w in words[:max(0, min(wc, 9) - 1)]]
    want_words += ['00000000'] * (8 - len(want_words))
    if len(calls) != 1 or calls[0][0] != want_mod or calls[0][2].strip() != ascii_.strip() or list(calls[0][3:]) != want_words:
        _bad(out, case, 'src-arguments', 'calls %s, expected %s(%r, %s)' % (calls, want_mod, ascii_, want_words))
    key = 'Primary SRC' if src['t'] == 'PS' else 'Secondary SRC'
    det = r['doc'][key].get('SRC Details')
    if not isinstance(det, dict) or det.get('Fixture') != name:
        _bad(out, case, 'src-details', 'SRC Details %r' % (det,))
    return out


def _no_descriptions(out, case, srcdoc):
    """with parser modules disabled no callout carries a procedure description (only a callout parser supplies one)"""
    def walk(x):
        if isinstance(x, dict):
            if 'Procedure' in x and 'Description' in x:
                return x
            for v in x.values():
                f = walk(v)
                if f:
                    return f
        elif isinstance(x, list):
            for v in x:
                f = walk(v)
                if f:
                    return f
        return None
    f = walk(srcdoc)
    if f:
        _bad(out, case, 'callout-parser-with-plugins-disabled', 'procedure %r shown with description %r' % (f.get('Procedure'), f.get('Description')))


def _osrc(case):
    out = []
    ascii_ = case['ascii']
    imphook.install(serve_all=True, override_shipped=False)
    words = [0x0A0B0C01 + i * 0x01010101 for i in range(8)]
    src = {'t': 'PS', 'ascii': ascii_.ljust(32), 'words': words}
    if case.get('plugins') is False:
        # BMC reference codes with parser modules disabled: neither the shipped dispatcher nor a component parser is loaded
        imphook.forget_modules()
        imphook.reset_logs()
        before = plugin_modules()
        src['callouts'] = [pelgen.CALLOUT_PROC, pelgen.CALLOUT_FULL]
        r = decode.parse(pelgen.encode_pel(pelgen.pel_from_spec({'creator': case.get('creator', 'O'), 'sections': [src, SENT]})), plugins=False)
        LAST['nt'] = True
        if r['kind'] != 'doc':
            _bad(out, case, 'not-decoded', '%s %s' % (r['kind'], r.get('msg')))
        elif imphook.IMPORTS or imphook.CALLS or plugin_modules() != before:
            _bad(out, case, 'import-with-plugins-disabled', 'imports %s, calls %s, sys.modules gained %s' % (
                imphook.IMPORTS[:3], [c[:2] for c in imphook.CALLS[:3]], sorted(set(plugin_modules()) - set(before))))
        else:
            _no_descriptions(out, case, r['doc'].get('Primary SRC'))
        return out
    r = decode.parse(pelgen.encode_pel(pelgen.pel_from_spec({'creator': case.get('creator', 'O'), 'sections': [src, SENT]})))
    if r['kind'] != 'doc':
        _bad(out, case, 'not-decoded', '%s %s' % (r['kind'], r.get('msg')))
        return out
    LAST['nt'] = True
    calls = [c for c in imphook.CALLS if c[1] == 'parseSRCToJson']
    if ascii_[:2] == 'BC':
        want_mod = 'srcparsers.bsrc.bsrc'
    else:
        n = 'o' + ascii_[4:6].lower() + '00'
        want_mod = 'srcparsers.%s.%s' % (n, n)
    if want_mod == 'srcparsers.oe500.oe500':
        # shipped hardware-diagnostics parser (C20 checks its content)
        if 'Signature Description' not in (r['doc']['Primary SRC'].get('SRC Details') or {}):
            _bad(out, case, 'osrc-forward', 'reference code %s not routed to the shipped oe500 parser' % ascii_)
        return out
    want_words = ['%08X' % w for w in words]
    if len(calls) != 1 or calls[0][0] != want_mod or calls[0][2].strip() != ascii_.strip() or list(calls[0][3:]) != want_words:
        _bad(out, case, 'osrc-forward', 'calls %s, expected %s(%r, %s)' % ([c[:3] for c in calls], want_mod, ascii_, want_words))
    return out


def _m2c00(case):
    out = []
    sub, ver, payload, route = case['sub'], case['ver'], bytes.fromhex(case['payload']), case['route']
    from io_drawer.drawer_type import DRAWER_TYPES
    from io_drawer.hlog import parse_hlog_data
    from io_drawer.ilog import parse_ilog_data
    from io_drawer.trace import parse_trace_data
    dt = [d for d in DRAWER_TYPES if d.user_data_version == ver]
    if route == 'direct':
        from udparsers.m2c00.m2c00 import parseUDToJson
        try:
            text = parseUDToJson(sub, ver, memoryview(payload))
            doc = strictjson.loads(text)
        except Exception as e:
            _bad(out, case, 'm2c00-error', repr(e))
            return out
    else:
        sec = {'t': 'UD', 'comp': 0x2C00, 'sub': sub, 'ver': ver, 'payload': payload.hex()}
        r = decode.parse(pelgen.encode_pel(pelgen.pel_from_spec({'creator': 'M', 'sections': [sec, SENT]})))
        if r['kind'] != 'doc':
            _bad(out, case, 'not-decoded', '%s %s' % (r['kind'], r.get('msg')))
            return out
        doc = {k: v for k, v in r['doc']['User Data'].items() if k not in ('Section Version', 'Sub-section type', 'Created by')}
        if not payload:
            return out     # nothing to decode; the section just has to appear
    LAST['nt'] = True
    if not isinstance(doc, dict):
        _bad(out, case, 'm2c00-not-object', 'returned %r' % (doc,))
        return out
    names = {72: 'History Log', 73: 'ILOG', 84: 'Trace'}
    if sub in names:
        if not payload:
            want = {names[sub]: []}
        elif not dt:
            want = None     # error object
        else:
            mv = memoryview(payload)
            if sub == 72:
                want = {names[sub]: parse_hlog_data(mv, dt[0].get_header_file_path())}
            elif sub == 73:
                want = {names[sub]: parse_ilog_data(mv, dt[0].get_header_file_path())}
            else:
                want = {names[sub]: parse_trace_data(mv, dt[0].get_trace_string_file_path())}
        if want is None:
            if 'Error' not in doc or rhex.read_default(doc.get('Data', [])) != payload:
                _bad(out, case, 'm2c00-error-object', 'unknown drawer version %d: %r' % (ver, list(doc)))
        elif doc != want:
            _bad(out, case, 'm2c00-route', 'sub-type %d version %d: keys %s, expected the stand-alone %s decode' % (sub, ver, list(doc), names[sub]))
    else:
        if list(doc) != ['Data'] or rhex.read_default(doc['Data']) != payload:
            _bad(out, case, 'm2c00-unsupported', 'sub-type %d: %r' % (sub, list(doc)))
    return out


BEH_BYTES = [0x00, 0x01, 0x02, 0x03, 0x04, 0x0E, 0x0C]      # ok, raise, ImportError in call, None, null, 'null\\n', ' '  (imphook 'by-payload')
BEH_NAMES = ['ok', 'raise', 'importerror', 'none', 'null', 'null+newline', 'blank']


def _contain_pel(behs, order, creator='B'):
    comps = [0x1111, 0x1111, 0x2222]
    secs = []
    for idx in order:
        secs.append({'t': 'UD', 'comp': comps[idx], 'sub': idx + 1, 'ver': 1,
                     'payload': (bytes([BEH_BYTES[behs[idx]]]) + bytes([0xA0 + idx]) * (5 + idx)).hex()})
    return {'creator': creator, 'sections': secs + [SENT]}


def _contain(case):
    out = []
    behs, order = case['behs'], case['order']
    table = {'udparsers.b1111.b1111': 'by-payload', 'udparsers.b2222.b2222': 'by-payload'}
    imphook.install(serve_all=False, behaviour=table)
    LAST['nt'] = True
    # reference: every section well behaved, from a fresh state
    ok_spec = _contain_pel([0, 0, 0], order)
    ref = decode.parse(pelgen.encode_pel(pelgen.pel_from_spec(ok_spec)))
    impl.fresh(False)
    imphook.install(serve_all=False, behaviour=table)
    spec = _contain_pel(behs, order)
    from mc import statefp
    before = statefp.process_state()
    r = decode.parse(pelgen.encode_pel(pelgen.pel_from_spec(spec)))
    after = statefp.process_state()
    if after != before:
        _bad(out, case, 'process-state-changed', 'decoding with parser behaviours %s left interpreter-wide state changed: %s' % (
            [BEH_NAMES[b] for b in behs], [x for x in after if x not in before]))
        sys.stdout, sys.stderr = sys.__stdout__, sys.__stderr__
    if r['kind'] != 'doc' or ref['kind'] != 'doc':
        _bad(out, case, 'not-decoded', 'behaviours %s: %s %s' % ([BEH_NAMES[b] for b in behs], r['kind'], r.get('msg')))
        return out
    keys = pelgen.expected_keys(pelgen.pel_from_spec(spec))
    if list(r['doc']) != keys:
        _bad(out, case, 'keys', '%s expected %s' % (list(r['doc']), keys))
        return out
    for pos, idx in enumerate(order):
        k = keys[2 + pos]
        ent = r['doc'][k]
        sec = spec['sections'][pos]
        if behs[idx] == 0:
            if ent != ref['doc'][k]:
                _bad(out, case, 'other-section-changed', '%s (well-behaved) differs from the all-well-behaved document: %r' % (
                    k, {x: ent[x] for x in ent if x not in ('Section Version', 'Sub-section type', 'Created by')}))
        else:
            payload = pelgen.payload_of(sec)
            try:
                got = rhex.read_default(ent.get('Data'))
            except Exception:
                got = None
            if got != payload:
                _bad(out, case, 'payload-lost', '%s (%s): payload not recoverable from %r' % (k, BEH_NAMES[behs[idx]], ent.get('Data')))
            if not ent.get('Error'):
                _bad(out, case, 'no-error-note', '%s (%s): no Error note' % (k, BEH_NAMES[behs[idx]]))
    if r['doc'][keys[-1]] != ref['doc'][keys[-1]]:
        _bad(out, case, 'other-section-changed', 'sentinel section differs')
    # a well-behaved PEL decoded afterwards in the same process
    r2 = decode.parse(pelgen.encode_pel(pelgen.pel_from_spec(ok_spec)))
    if r2['kind'] != 'doc' or r2['doc'] != ref['doc']:
        _bad(out, case, 'later-pel-differs', 'a well-behaved PEL decoded after behaviours %s differs from its fresh decode' % [BEH_NAMES[b] for b in behs])
    return out


def _src_seq(case):
    """One SRC parser serves a failing primary SRC, then a well-behaved secondary SRC and a well-behaved later PEL."""
    out = []
    creator = case['creator']
    modname = 'srcparsers.%ssrc.%ssrc' % (creator.lower(), creator.lower())
    imphook.install(serve_all=False, behaviour={modname: 'by-payload'})
    LAST['nt'] = True

    def src(t, sel, tag):
        w = list(pelgen.SRC_DEFAULT_WORDS)
        w[7] = (tag << 8) | BEH_BYTES[sel]
        return {'t': t, 'ascii': 'B7001234'.ljust(32), 'words': w}
    ok_pel = {'creator': creator, 'sections': [src('PS', 0, 0x77), SENT]}
    ref = decode.parse(pelgen.encode_pel(pelgen.pel_from_spec(ok_pel)))
    impl.fresh(False)
    imphook.install(serve_all=False, behaviour={modname: 'by-payload'})
    spec = {'creator': creator, 'sections': [src('PS', case['first'], 0x11), src('SS', 0, 0x22), SENT]}
    from mc import statefp
    before = statefp.process_state()
    r = decode.parse(pelgen.encode_pel(pelgen.pel_from_spec(spec)))
    after = statefp.process_state()
    if after != before:
        _bad(out, case, 'process-state-changed', 'decoding with SRC parser behaviour %s left interpreter-wide state changed: %s' % (
            BEH_NAMES[case['first']], [x for x in after if x not in before]))
        sys.stdout, sys.stderr = sys.__stdout__, sys.__stderr__
    if r['kind'] != 'doc' or ref['kind'] != 'doc':
        _bad(out, case, 'not-decoded', 'primary SRC parser behaviour %s: %s %s' % (BEH_NAMES[case['first']], r['kind'], r.get('msg')))
        return out
    if case['first'] != 0 and r['doc']['Primary SRC'].get('SRC Details') is not None:
        _bad(out, case, 'src-details-from-failed-parser', 'Primary SRC shows SRC Details although the parser %s' % BEH_NAMES[case['first']])
    if not isinstance(r['doc']['Secondary SRC'].get('SRC Details'), dict):
        _bad(out, case, 'later-src-lost-parser', 'Secondary SRC (well-behaved) has no SRC Details after the primary SRC parser call %s' % BEH_NAMES[case['first']])
    r2 = decode.parse(pelgen.encode_pel(pelgen.pel_from_spec(ok_pel)))
    if r2['kind'] != 'doc' or r2['doc'] != ref['doc']:
        _bad(out, case, 'later-pel-differs', 'a well-behaved PEL decoded after SRC parser behaviour %s differs from its fresh decode' % BEH_NAMES[case['first']])
    return out


def _src_contain(case):
    out = []
    beh = case['beh']
    creator = case.get('creator', 'B')
    modname = 'srcparsers.%ssrc.%ssrc' % (creator.lower(), creator.lower())
    imphook.install(serve_all=False, behaviour={modname: beh})
    LAST['nt'] = True
    src = {'t': 'PS', 'ascii': 'BC8A1234'.ljust(32), 'callouts': [pelgen.CALLOUT_FULL]}
    ud = {'t': 'UD', 'comp': 0xABCD, 'payload': '010203'}
    spec = {'creator': creator, 'sections': [src, ud, dict(src, t='SS'), SENT]}
    r = decode.parse(pelgen.encode_pel(pelgen.pel_from_spec(spec)))
    imphook.install(serve_all=False, behaviour={modname: 'absent'})
    impl.fresh(False)
    imphook.install(serve_all=False, behaviour={modname: 'absent'})
    ref = decode.parse(pelgen.encode_pel(pelgen.pel_from_spec(spec)))
    if r['kind'] != 'doc':
        _bad(out, case, 'not-decoded', 'SRC parser behaviour %s made the PEL undecodable: %s %s' % (beh, r.get('type'), r.get('msg')))
        return out
    for k in r['doc']:
        a = dict(r['doc'][k]) if isinstance(r['doc'][k], dict) else r['doc'][k]
        b = ref['doc'].get(k)
        det = a.pop('SRC Details', None) if isinstance(a, dict) else None
        if a != b:
            _bad(out, case, 'other-section-changed', '%s differs from the document without SRC parser (beyond SRC Details)' % k)
        if beh in ('raise', 'importerror', 'none', 'null', 'empty', 'keyerror', 'nan', 'overflow', 'deep', 'hugeint', 'badjson',
                   'blank', 'newline', 'nullnl', 'nullsp') \
                and det is not None:
            _bad(out, case, 'src-details-from-failed-parser', '%s shows SRC Details %r although the parser %s' % (k, det, beh))
        if beh == 'obj' and k in ('Primary SRC', 'Secondary SRC') and not isinstance(det, dict):
            _bad(out, case, 'src-details-missing', '%s lacks SRC Details from a well-behaved parser' % k)
    return out


LAST = {'nt': False}


def _do(res, case, step=499):
    LAST['nt'] = False
    core.arm(60)
    vs = eval_case(case, fresh=(res.evals == 0))
    core.disarm()
    res.case(nontrivial_key=json.dumps(case, sort_keys=True) if LAST['nt'] else None,
             outcome=vs[0]['key'] if vs else 'ok:%s%s' % (case['k'], '' if case.get('plugins', True) else ':off'),
             sample=case if res.evals % step == 1 else None)
    res.add(vs)


def run_chunk(chunk):
    routed = subchunk.route(__name__, chunk)
    if routed is not None:
        return routed
    res = ChunkResult()
    k = chunk['k']
    if k == 'dispatch':
        i = 0
        for cr in chunk['creators']:
            for comp, sub, ver in itertools.product(COMPS, SUBS, VERS):
                i += 1
                kind = 'UD' if i % 3 else 'ED'
                _do(res, {'k': 'dispatch', 'creator': cr, 'comp': comp, 'sub': sub, 'ver': ver, 'kind': kind, 'plugins': chunk['plugins']})
    elif k == 'src':
        for cr in NAME_CREATORS:
            if cr in 'Oo':
                continue
            for i, ascii_ in enumerate(['BD8D1234', '11001234', 'BC8A0001', 'B700ABCD', 'X']):
                for plugins in (True, False):
                    _do(res, {'k': 'src', 'creator': cr, 'ascii': ascii_, 'wc': [9, 5, 1, 9, 2][i], 'plugins': plugins,
                              't': 'PS' if i % 2 == 0 else 'SS'}, step=199)
    elif k == 'osrc':
        for ascii_ in ['BD8D1234', 'BD2A5678', 'BDE51000', 'BDe5ABCD', '11001234', '1100E510', 'BC8A0001', 'BCE50002', 'B7001234']:
            for cr in ('O', 'o'):
                _do(res, {'k': 'osrc', 'ascii': ascii_, 'creator': cr}, step=3)
            _do(res, {'k': 'osrc', 'ascii': ascii_, 'creator': 'O', 'plugins': False}, step=3)
    elif k == 'm2c00':
        hl = bytes(range(1, 47))
        il = bytes.fromhex('8ADF0F19010000DE' '00010002E0040000')
        import struct
        tr = bytes([2, 0x20, 1, 0x42]) + b'INFO' + b' ' * 8 + bytes(4) + struct.pack('>III', 56, 1, 0) + \
            struct.pack('>HHHHII', 0x8AAB, 1, 4, 0x4654, 32403714, 324) + struct.pack('>I', 0xfa04beef) + struct.pack('>I', 24)
        for sub in (72, 73, 84, 1, 99):
            for ver in (1, 2, 0, 255):
                for payload in (b'', hl, il, tr, b'\xff' * 7):
                    for route in ('direct', 'pel'):
                        _do(res, {'k': 'm2c00', 'sub': sub, 'ver': ver, 'payload': payload.hex(), 'route': route}, step=37)
    elif k == 'contain':
        for b2 in range(len(BEH_BYTES)):
            for order in itertools.permutations(range(3)):
                _do(res, {'k': 'contain', 'behs': [chunk['b0'], chunk['b1'], b2], 'order': list(order)}, step=11)
    elif k == 'src_contain':
        for first in range(5):
            for cr in ('B', 'x'):
                _do(res, {'k': 'src_seq', 'first': first, 'creator': cr}, step=3)
        for beh in ('obj', 'raise', 'importerror', 'keyerror', 'none', 'null', 'empty', 'absent', 'import-raises',
                        'blank', 'newline', 'nullnl', 'nullsp', 'nan', 'overflow', 'deep', 'hugeint', 'badjson'):   # the last five: text that cannot enter the PEL document
            for cr in ('B', 'x'):
                _do(res, {'k': 'src_contain', 'beh': beh, 'creator': cr}, step=5)
    return res
