"""C12 - --clean never deletes a PEL whose output was not completely written (E3: fault and crash enumeration)."""
import itertools
import json
from mc import strictjson
import os
import shutil
import tempfile

from mc import subchunk, core, pelgen, impl, clidrv, faultio
from mc.core import ChunkResult

PROPERTY = 'C12'
LEVEL = 'fault_enumeration'
ENGINE = 'E3'
TECHNIQUE = ('exhaustive fault/crash enumeration over the recorded trace of environment operations (open, every raw write, '
             'close, unlink) of the real --json --clean and --file --clean paths, driven through main() over a genuine '
             'TextIOWrapper/BufferedWriter stack with a faulty raw sink: every single deviation (ENOSPC/EIO/EPIPE, short '
             'write, crash before/after) at every op; thorough: all pairs; real /dev/full, closed-pipe and read-only-'
             'directory subprocess runs for conformance')
LEVEL_TEXT = ('The fault-free run of each scenario records its op trace; every op is then perturbed in every way (3 errnos, '
              'short write, crash before, crash after), for three raw-write granularities (64 bytes, 1 KiB, unbounded), and '
              'the invariant is evaluated at the moment of each unlink: the complete expected output for that input must '
              'already have reached the sink and (for --json) the file must have been closed successfully. Inputs whose '
              'decode fails or that are filtered must never be unlinked. The ordering is read off the op log, so it is '
              'decided even when no fault fires.')
LEVEL_NOTE = ('kernel-level torn writes are out of scope; the raw sink models POSIX short writes and errors at the '
              'CPython raw-stream boundary; validated against real /dev/full, closed pipe and read-only directory runs')
RULE = ('scenarios = {--json, --json -o} x second file in {fine, undecodable, filtered, minimal} and --file x {fine, '
        'undecodable, filtered, bad header, missing} (JSON and --hex rendering; block-, line- and 16-byte-buffered stdout); x raw-write granularity {64, 1024, unbounded}; deviations = every op '
        'of the fault-free trace x {ENOSPC, EIO, EPIPE, short write, crash-before, crash-after}; thorough: all ordered pairs '
        'of deviations on the 1 KiB trace. Non-trivial: every deviated run; distinct by (scenario, schedule).')
ASSUMPTIONS = ['interpreter shutdown is modelled as a final flush of stdout after SystemExit']

GOOD1 = {'eid': 0x50000A01, 'plid': 0x50000A01, 'sections': [{'t': 'PS', 'callouts': [pelgen.CALLOUT_FULL]}, {'t': 'EH'}, {'t': 'MT'}]}
GOOD3 = {'eid': 0x50000A03, 'plid': 0x50000A03, 'sections': [{'t': 'PS'}, {'t': 'UD', 'comp': 0xABCD, 'payload': '00' * 300}]}
SECOND = {
    # a section whose (shipped) plug-in raises on the payload: the PEL still decodes, with an error note for that section
    'plugin-raises': {'eid': 0x50000A02, 'plid': 0x50000A02, 'sections': [
        {'t': 'PS'}, {'t': 'UD', 'comp': 0xE500, 'sub': 4, 'payload': '0102030405'},
        {'t': 'UD', 'comp': 0x2000, 'sub': 3, 'payload': (b'text line\n' * 30).hex()}]},
    'fine': {'eid': 0x50000A02, 'plid': 0x50000A02, 'sections': [{'t': 'PS'}, {'t': 'UD', 'comp': 0x2000, 'sub': 3, 'payload': (b'text line\n' * 40).hex()}]},
    'minimal': {'eid': 0x50000A02, 'plid': 0x50000A02, 'sections': []},
    'filtered': {'eid': 0x50000A02, 'plid': 0x50000A02, 'uh': {'sev': 0x40, 'flags': 0x6000}, 'sections': [{'t': 'PS'}]},
}
J_SECONDS = ['fine', 'undecodable', 'filtered', 'minimal', 'cut-at-boundary', 'cut-in-header', 'plugin-raises', 'short-length', 'zero-tail']
F_KINDS = ['fine', 'undecodable', 'filtered', 'badph', 'missing', 'cut-at-boundary', 'cut-in-header', 'plugin-raises', 'short-length', 'zero-tail']
# inputs for which no output may exist whatever the tool's own fault-free run produces (decided by construction, not by the tool)
NO_OUTPUT_KINDS = {'undecodable', 'badph', 'filtered', 'cut-at-boundary', 'cut-in-header', 'short-length', 'zero-tail'}
CHUNKS = [64, 1024, 0]


def second_bytes(kind):
    if kind == 'undecodable':
        return pelgen.encode_pel(pelgen.pel_from_spec(SECOND['fine']))[:100]
    if kind in ('cut-at-boundary', 'cut-in-header'):
        # truncated exactly in front of the last section / five bytes into its header (the section count still promises it)
        spec = pelgen.pel_from_spec(SECOND['fine'])
        start = pelgen.section_offsets(spec)[-1][0]
        return pelgen.encode_pel(spec)[:start + (0 if kind == 'cut-at-boundary' else 5)]
    if kind in ('short-length', 'zero-tail'):
        # complete in size, but the last section is damaged: its length field says 4 (less than its own header) / the file's
        # tail is zero-filled from that section on (as after a power loss): not a PEL that has a decoded output
        spec = pelgen.pel_from_spec(SECOND['fine'])
        b = bytearray(pelgen.encode_pel(spec))
        start = pelgen.section_offsets(spec)[-1][0]
        if kind == 'short-length':
            b[start + 2:start + 4] = b'\x00\x04'
        else:
            b[start:] = bytes(len(b) - start)
        return bytes(b)
    if kind == 'badph':
        return b'XX' + pelgen.encode_pel(pelgen.pel_from_spec(SECOND['fine']))[2:]
    return pelgen.encode_pel(pelgen.pel_from_spec(SECOND[kind]))


def bounds(tier):
    return {'scenarios': len(J_SECONDS) * 2 + len(F_KINDS), 'granularities': CHUNKS, 'deviation_kinds': 6,
            'pairs': tier == 'thorough'}


def plan(tier, seed):
    ch = []
    for K in CHUNKS:
        for mode in ('j', 'jo'):
            for sec in J_SECONDS:
                ch.append({'k': 'single', 'scen': {'mode': mode, 'second': sec, 'K': K}})
        for kind in F_KINDS:
            ch.append({'k': 'single', 'scen': {'mode': 'f', 'second': kind, 'K': K}})
        # an output file left behind by an earlier, failed run (truncated / garbage) already sits under the output name
        for mode in ('j', 'jo'):
            for stale in ('truncated', 'garbage', 'empty', 'longer'):
                ch.append({'k': 'single', 'scen': {'mode': mode, 'second': 'fine', 'K': K, 'stale': stale}})
        # stdout that reaches the device while the tool is still printing (terminal-like line buffering, tiny buffer),
        # for the JSON and the --hex rendering
        for kind in ('fine', 'filtered', 'undecodable'):
            for hexm in (False, True):
                for so in ('line', 'tiny'):
                    ch.append({'k': 'single', 'scen': {'mode': 'f', 'second': kind, 'K': K, 'hex': hexm, 'stdout': so}})
        ch.append({'k': 'single', 'scen': {'mode': 'f', 'second': 'fine', 'K': K, 'hex': True}})
        # no standard output at all (sys.stdout is None when descriptor 1 is closed): nothing can be printed, so nothing is removed
        for kind in F_KINDS:
            for hexm in (False, True):
                ch.append({'k': 'single', 'scen': {'mode': 'f', 'second': kind, 'K': K, 'hex': hexm, 'stdout': 'none'}})
    if tier == 'thorough':
        for mode in ('j', 'jo'):
            for sec in J_SECONDS:
                for part in range(4):
                    ch.append({'k': 'pairs', 'scen': {'mode': mode, 'second': sec, 'K': 1024}, 'part': part, 'parts': 4})
        for kind in F_KINDS:
            ch.append({'k': 'pairs', 'scen': {'mode': 'f', 'second': kind, 'K': 1024}, 'part': 0, 'parts': 1})
    ch.append({'k': 'subproc'})
    # the same under python -O (assertions stripped, __debug__ false)
    ch += [dict(c, optimize=True) for c in [c for c in ch if c['k'] == 'single' and c['scen']['K'] == CHUNKS[0] and not c['scen'].get('stdout')][:24]]
    return ch


class Run:
    """One execution of a scenario under a schedule."""

    def __init__(self, scen, schedule):
        self.scen = scen
        self.world = faultio.World({int(k): tuple(v) for k, v in schedule.items()}, scen['K'])
        self.root = tempfile.mkdtemp(prefix='c12_', dir=clidrv.odd_root())
        self.removed_at = {}     # input name -> dict(complete=bool, closed=bool)
        self.inputs = {}
        self.result = None

    def close(self):
        shutil.rmtree(self.root, ignore_errors=True)

    def build(self):
        pels = os.path.join(self.root, 'pels')
        os.mkdir(pels)
        os.mkdir(os.path.join(self.root, 'out'))
        if self.scen['mode'] == 'f':
            if self.scen['second'] != 'missing':
                self.inputs['p2_input'] = second_bytes(self.scen['second'])
        else:
            self.inputs['p1_input'] = pelgen.encode_pel(pelgen.pel_from_spec(GOOD1))
            self.inputs['p2_input'] = second_bytes(self.scen['second'])
            self.inputs['p3_input'] = pelgen.encode_pel(pelgen.pel_from_spec(GOOD3))
        for n, b in self.inputs.items():
            with open(os.path.join(pels, n), 'wb') as f:
                f.write(b)
        self.stale = {}
        if self.scen.get('stale') and self.expected_for_stale:
            outdir = pels if self.scen['mode'] == 'j' else os.path.join(self.root, 'out')
            for n, (sink, full) in self.expected_for_stale.items():
                content = {'truncated': full[:len(full) // 3], 'garbage': b'{"stale": true}\n' * 5, 'empty': b'',
                           'longer': full + b'\n{"left over from an earlier, longer document": true}\n' * 40}[self.scen['stale']]
                with open(os.path.join(outdir, sink), 'wb') as f:
                    f.write(content)
                self.stale[sink] = os.path.join(outdir, sink)

    def execute(self, expected=None):
        """expected: {input name: (sink name, full expected bytes)} from the fault-free run (None while recording)."""
        self.expected_for_stale = expected
        self.build()
        pels = os.path.join(self.root, 'pels')
        mode = self.scen['mode']
        world = self.world

        def on_remove(path):
            name = os.path.basename(path)
            dev = world.op('remove', name)
            info = {'complete': False, 'closed': False, 'op': len(world.log) - 1}
            if expected is not None and name in expected:
                sink, full = expected[name]
                info['complete'] = bytes(world.sinks.get(sink, b'')) == full
                info['closed'] = bool(world.closed_ok.get(sink)) if mode != 'f' else True
                if mode != 'f':
                    # what is on disk under the output name right now (a stale file from an earlier run does not count)
                    outdir = pels if mode == 'j' else os.path.join(self.root, 'out')
                    try:
                        with open(os.path.join(outdir, sink), 'rb') as fh:
                            info['complete'] = info['complete'] and fh.read() == full
                    except OSError:
                        info['complete'] = False
            self.removed_at[name] = info
            return lambda: world.after(dev, 'remove', name)      # crash-after fires once the real unlink is done

        stdout = None
        if mode == 'f':
            so = self.scen.get('stdout', 'block')
            stdout = clidrv.NO_STDOUT if so == 'none' else faultio.make_stdout(world, line_buffering=(so == 'line'), buffer_size=(16 if so == 'tiny' else 8192),
                                         backing_path=os.path.join(self.root, 'stdout.bin'))
            argv = ['-f', os.path.join(pels, 'p2_input'), '--clean'] + (['-x'] if self.scen.get('hex') else [])
        elif mode == 'j':
            argv = ['-p', pels, '-j', '--clean']
        else:
            argv = ['-p', pels, '-j', '--clean', '-o', os.path.join(self.root, 'out')]
        try:
            core.arm(30)
            r = clidrv.run_main(argv, order='sorted', stdout=stdout, open_fn=faultio.make_open(world), remove_hook=on_remove)
            core.disarm()
            self.result = r
            if mode == 'f' and not world.crashed and stdout is not clidrv.NO_STDOUT:
                # interpreter shutdown: flush what is still buffered
                try:
                    stdout.flush()
                    self.final_flush_ok = True
                except (OSError, ValueError):
                    self.final_flush_ok = False
        except faultio.Crash:
            core.disarm()
            self.result = None
        return self

    def outputs(self):
        """{input name: (sink name, bytes)} as produced by this (fault-free) run."""
        out = {}
        if self.scen['mode'] == 'f':
            if self.world.sinks.get('<stdout>'):
                out['p2_input'] = ('<stdout>', bytes(self.world.sinks['<stdout>']))
            return out
        for sink, data in self.world.sinks.items():
            for n in self.inputs:
                if sink.startswith(n + '.') and sink.endswith('.json'):
                    out[n] = (sink, bytes(data))
        return out

    def verdict(self, expected):
        probs = []
        pels = os.path.join(self.root, 'pels')
        for n, b in self.inputs.items():
            path = os.path.join(pels, n)
            if os.path.exists(path):
                with open(path, 'rb') as f:
                    if f.read() != b:
                        probs.append(('input-modified', '%s was modified' % n))
                continue
            info = self.removed_at.get(n)
            if n == 'p2_input' and self.scen['second'] in NO_OUTPUT_KINDS:
                probs.append(('removed-without-output', '%s (%s: not decodable / not selected) was removed' % (n, self.scen['second'])))
            elif n not in expected:
                probs.append(('removed-without-output', '%s was removed although no output is produced for it (%s)' %
                              (n, self.scen['second'])))
            elif info is None:
                probs.append(('removed-unlogged', '%s vanished without a logged unlink' % n))
            elif not info['complete']:
                probs.append(('removed-before-complete', '%s unlinked (op %d) before its output was completely written; op log %s' %
                              (n, info['op'], _fmt(self.world.log))))
            elif not info['closed']:
                probs.append(('removed-before-close', '%s unlinked (op %d) before its output file was closed successfully; op log %s' %
                              (n, info['op'], _fmt(self.world.log))))
        return probs


def _fmt(log):
    out = []
    for kind, name in log:
        tag = '%s(%s)' % (kind, 'in' if name.endswith('_input') else 'out')
        if out and out[-1][0] == tag:
            out[-1][1] += 1
        else:
            out.append([tag, 1])
    return ' '.join(t if n == 1 else '%s*%d' % (t, n) for t, n in out)


def classify(scen, key):
    return 'F9:' + ('json-clean-unlinks-before-close' if scen['mode'] != 'f' else 'file-clean-unlinks-unconditionally') \
        if key in ('removed-before-complete', 'removed-before-close', 'removed-without-output') else 'C12:' + key


_trace_cache = {}


def baseline(scen):
    k = json.dumps(scen, sort_keys=True)
    if k not in _trace_cache:
        if scen.get('stale'):
            # expected outputs come from the run without the stale file; the op trace from the run with it
            expected, _ = baseline({kk: v for kk, v in scen.items() if kk != 'stale'})
            run = Run(scen, {})
            try:
                run.execute(expected)
                log = list(run.world.log)
            finally:
                run.close()
            _trace_cache[k] = (expected, log)
            return _trace_cache[k]
        run = Run(scen, {})
        try:
            run.execute(None)
            expected = run.outputs()
            log = list(run.world.log)
        finally:
            run.close()
        _trace_cache[k] = (expected, log)
    return _trace_cache[k]


def eval_case(case):
    impl.ensure(False)
    scen = case['scen']
    expected, log = baseline(scen)
    run = Run(scen, case['schedule'])
    try:
        run.execute(expected)
        probs = run.verdict(expected)
        LAST['out'] = 'crash' if run.result is None else 'removed:%d' % len(run.removed_at)
    finally:
        run.close()
    return [{'key': classify(scen, k), 'what': '%s [scenario %s, schedule %s]' % (t, scen, case['schedule']), 'case': case}
            for k, t in probs]


LAST = {'out': ''}


def _do(res, case, step=211):
    vs = eval_case(case)
    res.case(nontrivial_key=json.dumps(case, sort_keys=True) if case['schedule'] else None,
             outcome=vs[0]['key'] if vs else 'ok:' + LAST['out'], sample=case if res.evals % step == 1 else None)
    res.add(vs)


def run_chunk(chunk):
    routed = subchunk.route(__name__, chunk)
    if routed is not None:
        return routed
    res = ChunkResult()
    impl.ensure(False)
    k = chunk['k']
    if k == 'subproc':
        return _subproc(res)
    scen = chunk['scen']
    expected, log = baseline(scen)
    res.extra['ops_in_traces'] = len(log)
    devs = faultio.deviations_for(log)
    if k == 'single':
        _do(res, {'scen': scen, 'schedule': {}})
        for i, d in devs:
            _do(res, {'scen': scen, 'schedule': {str(i): list(d)}})
        res.extra['single_deviations'] = len(devs)
    else:
        pairs = [(a, b) for a in devs for b in devs if a[0] < b[0]]
        for a, b in pairs[chunk['part']::chunk['parts']]:
            _do(res, {'scen': scen, 'schedule': {str(a[0]): list(a[1]), str(b[0]): list(b[1])}}, step=2111)
        res.extra['pair_deviations'] = len(pairs[chunk['part']::chunk['parts']])
    return res


def _subproc(res):
    """Real executable, real OS faults."""
    n_ok = 0
    root = tempfile.mkdtemp(prefix='c12s_', dir=clidrv.odd_root())
    try:
        def fresh(name, data):
            p = os.path.join(root, name)
            with open(p, 'wb') as f:
                f.write(data)
            return p
        good = pelgen.encode_pel(pelgen.pel_from_spec(GOOD1))
        runs = []
        # 1. -f good --clean > /dev/full : output cannot be written -> input must survive
        p = fresh('in_devfull', good)
        rc, _, se = clidrv.run_subprocess(['-f', p, '--clean'], stdout_path='/dev/full')
        runs.append(('-f --clean > /dev/full', os.path.exists(p), True, 'output-failed'))
        # 2. -f truncated --clean : decode fails
        p = fresh('in_trunc', good[:90])
        rc, so, se = clidrv.run_subprocess(['-f', p, '--clean'])
        runs.append(('-f <truncated> --clean', os.path.exists(p), True, 'decode-failed'))
        # 3. -f hidden --clean : filtered out
        p = fresh('in_hidden', second_bytes('filtered'))
        rc, so, se = clidrv.run_subprocess(['-f', p, '--clean'])
        runs.append(('-f <hidden> --clean', os.path.exists(p), True, 'filtered'))
        # 4. -j -c -o <dir> where the output file name is already taken by a directory: the open of the output fails
        #    (a read-only directory would not stop a root user)
        d = os.path.join(root, 'pels')
        os.mkdir(d)
        with open(os.path.join(d, 'in_ro'), 'wb') as f:
            f.write(good)
        outd = os.path.join(root, 'outd')
        os.mkdir(outd)
        os.mkdir(os.path.join(outd, 'in_ro.50000A01.json'))
        rc, so, se = clidrv.run_subprocess(['-p', d, '-j', '-c', '-o', outd])
        runs.append(('-j -c -o <dir where the output name is a directory>', os.path.exists(os.path.join(d, 'in_ro')), True, 'open-failed'))
        # 4b. fault-free --json --clean removes the input and leaves the JSON file
        outd2 = os.path.join(root, 'outd2')
        os.mkdir(outd2)
        rc, so, se = clidrv.run_subprocess(['-p', d, '-j', '-c', '-o', outd2])
        ok_json = os.path.exists(os.path.join(outd2, 'in_ro.50000A01.json'))
        runs.append(('-j -c -o (no fault)', os.path.exists(os.path.join(d, 'in_ro')) or not ok_json, False, 'ok'))
        # 5. -f good --clean with stdout a closed pipe
        p = fresh('in_pipe', good)
        import subprocess
        env = dict(os.environ, PYTHONPATH=core.MODULES, PYTHONDONTWRITEBYTECODE='1')
        r_fd, w_fd = os.pipe()
        os.close(r_fd)
        pr = subprocess.run([core.PY, clidrv.PELTOOL_PY, '-f', p, '--clean'], stdout=w_fd, stderr=subprocess.PIPE, env=env)
        os.close(w_fd)
        runs.append(('-f --clean | <closed pipe>', os.path.exists(p), True, 'output-failed'))
        # 5b/5c. the same with a small PEL whose whole document stays in the stdout buffer until the final flush
        small = pelgen.encode_pel(pelgen.pel_from_spec({'eid': 0x50000A09, 'sections': [{'t': 'PS'}]}))
        p = fresh('in_pipe_small', small)
        r_fd, w_fd = os.pipe()
        os.close(r_fd)
        pr = subprocess.run([core.PY, clidrv.PELTOOL_PY, '-f', p, '--clean'], stdout=w_fd, stderr=subprocess.PIPE, env=env)
        os.close(w_fd)
        runs.append(('-f <small> --clean | <closed pipe>', os.path.exists(p), True, 'output-failed'))
        p = fresh('in_devfull_small', small)
        rc, _, se = clidrv.run_subprocess(['-f', p, '--clean'], stdout_path='/dev/full')
        runs.append(('-f <small> --clean > /dev/full', os.path.exists(p), True, 'output-failed'))
        p = fresh('in_devfull_hex', small)
        rc, _, se = clidrv.run_subprocess(['-f', p, '-x', '--clean'], stdout_path='/dev/full')
        runs.append(('-f <small> -x --clean > /dev/full', os.path.exists(p), True, 'output-failed'))
        # 5d. no standard output at all (file descriptor 1 closed, as under cron or a service manager): the output cannot
        #     even be opened, nothing is printed anywhere
        for extra in ([], ['-x']):
            for data, tag in ((good, ''), (small, ' <small>')):
                p = fresh('in_closed%s%s' % ('_hex' if extra else '', '_small' if tag else ''), data)
                pr = subprocess.run([core.PY, clidrv.PELTOOL_PY, '-f', p, '--clean'] + extra, stderr=subprocess.PIPE, env=env,
                                    preexec_fn=lambda: os.close(1))
                runs.append(('-f%s%s --clean >&- (stdout closed)' % (tag, ' -x' if extra else ''), os.path.exists(p), True, 'output-failed'))
        # 6. fault-free real runs remove the input (non-vacuity)
        p = fresh('in_ok', good)
        rc, so, se = clidrv.run_subprocess(['-f', p, '--clean'])
        runs.append(('-f --clean (no fault)', os.path.exists(p), False, 'ok'))
        # 7. whenever the input is gone, the complete document must be there - also with assertions stripped (python -O)
        p = fresh('ref_in', good)
        rc, ref_out, se = clidrv.run_subprocess(['-f', p])
        ref_doc = strictjson.loads(ref_out)
        for opt in (False, True):
            tag = ' under python -O' if opt else ''
            d7 = os.path.join(root, 'pels7_%d' % opt)
            o7 = os.path.join(root, 'out7_%d' % opt)
            os.mkdir(d7)
            os.mkdir(o7)
            with open(os.path.join(d7, 'in7'), 'wb') as f:
                f.write(good)
            clidrv.run_subprocess(['-p', d7, '-j', '-c', '-o', o7], optimize=opt)
            removed = not os.path.exists(os.path.join(d7, 'in7'))
            try:
                with open(os.path.join(o7, 'in7.50000A01.json')) as f:
                    complete = strictjson.loads(f.read()) == ref_doc
            except Exception:
                complete = False
            case = {'subprocess': True, 'run': '-j -c -o (no fault)' + tag}
            res.case(nontrivial_key=json.dumps(case), outcome='subproc:complete=%s:removed=%s' % (complete, removed))
            if removed and not complete:
                res.violation('C12:removed-without-complete-output', 'real executable: --json --clean%s removed the input although the '
                              'JSON file is missing or incomplete' % tag, case)
            elif removed:
                n_ok += 1       # (keeping the input is always safe: not a violation, only no evidence)
            p = fresh('in7f_%d' % opt, good)
            rc, so, se = clidrv.run_subprocess(['-f', p, '--clean'], optimize=opt)
            removed = not os.path.exists(p)
            try:
                complete = strictjson.loads(so) == ref_doc
            except Exception:
                complete = False
            case = {'subprocess': True, 'run': '-f --clean (no fault)' + tag}
            res.case(nontrivial_key=json.dumps(case), outcome='subproc:complete=%s:removed=%s' % (complete, removed))
            if removed and not complete:
                res.violation('C12:removed-without-complete-output', 'real executable: --file --clean%s removed the input although the '
                              'printed document is incomplete' % tag, case)
            else:
                n_ok += 1
        for name, exists, must_exist, why in runs:
            case = {'subprocess': True, 'run': name}
            res.case(nontrivial_key=json.dumps(case), outcome='subproc:%s:%s' % (why, 'kept' if exists else 'removed'))
            if must_exist and not exists:
                res.violation('F9:file-clean-unlinks-unconditionally' if name.startswith('-f') else 'F9:json-clean-unlinks-before-close',
                              'real executable: %s removed the input although %s' % (name, why), case)
            else:
                n_ok += 1
    finally:
        shutil.rmtree(root, ignore_errors=True)
    res.extra['traces_validated_against_impl'] = n_ok
    return res
