"""C16 - history logs: full hex dump plus exactly the non-zero fields (E1)."""
import itertools
import json
import os
import tempfile

from mc import subchunk, core, impl, clidrv
from mc.core import ChunkResult
from mc.ref import cheader, hlog as rhlog, hexdump as rhex

PROPERTY = 'C16'
LEVEL = 'exploration'
ENGINE = 'E1'
TECHNIQUE = ('bounded-exhaustive enumeration: all field tables with <= 5 (thorough 6) fields of size 1/2, every data length '
             '0..total+2, every byte in {00,01,FF} jointly (3^n); both shipped tables re-read by an independent scanner with '
             'every length 0..48, each field alone / each adjacent pair non-zero; through the real parse_hlog_data vs. a '
             'reference field model and an independent hex-dump reader')
LEVEL_TEXT = ('For synthetic tables the whole space (table shape x data length x byte values) is enumerated; for the shipped '
              'tables every length and every single-field / adjacent-pair activation. The hex-dump part must give back the '
              'input bytes through a reader that shares no code with pel.hexdump, the field part must equal the reference '
              'lines exactly (name, value zero-padded to the declared width, declared order, stop at the first field that '
              'does not fit).')
LEVEL_NOTE = 'byte values beyond {00,01,80,FF} only in the single-field sweeps; header syntax variants: static / non-static, brace on same / next line, blanks in the closing line, a further array behind the table, names with blanks / tabs at their ends'
RULE = ('synthetic: size sequences of length 0..5 over {1,2} (63; thorough length 6: 127) x data length 0..total+2 x bytes in '
        '{00,01,FF}^len (len <= 7, else 3 fill patterns); shipped (mex, nimitz): lengths 0..48 x 3 fills, each field alone with '
        'value 1 / 0x80.. / max, each adjacent pair, high-byte-only and low-byte-only for 2-byte fields. Non-trivial: at '
        'least one non-zero field expected; distinct by (table, data).')
ASSUMPTIONS = ['header files follow the syntax of the shipped generated headers']


def bounds(tier):
    return {'synthetic_table_length': 5 if tier == 'quick' else 6, 'byte_alphabet': ['00', '01', 'FF'], 'shipped_lengths': '0..48'}


def plan(tier, seed):
    maxlen = 5 if tier == 'quick' else 6
    ch = []
    for n in range(0, maxlen + 1):
        for sizes in itertools.product((1, 2), repeat=n):
            ch.append({'k': 'syn', 'sizes': list(sizes)})
    ch.append({'k': 'rewrite'})
    ch.append({'k': 'shipped', 'type': 'mex'})
    ch.append({'k': 'shipped', 'type': 'nimitz'})
    # the same under python -O (assertions stripped, __debug__ false)
    ch += [dict(c, optimize=True) for c in [{'k': 'syn', 'sizes': [1, 2]}, {'k': 'syn', 'sizes': [2, 1, 2]}, {'k': 'rewrite'}]]
    return ch


_files = {}


def field_names(sizes, variant):
    """variant bit 2: every field of a given width carries the same name (reserved / pad fields repeat in real tables)"""
    if variant & 64:      # characters that some ways of splitting text into lines treat as line ends (only the line feed ends a line)
        seps = ['hl_rec\x1esep', 'vt\x0btab', 'nel\x85next', 'ls\u2028sep', 'ff\x0cfeed', 'fs\x1cgs\x1d']
        return [('%s #%d' % (seps[i % len(seps)], i), s) for i, s in enumerate(sizes)]
    if variant & 32:      # the name is the string literal as declared: blanks / tabs at its ends belong to it
        pat = [' hl_bay %d', 'hl_events (total) %d ', '\thl tab %d', '  two  blanks  %d  ', 'plain_%d']
        # ... and per cent signs in it are characters, not conversions
        pct = ['hl_fan_duty_over_90%', 'load %% of max', 'rate %d/s', '100%s', '%']
        return [((pat[i % len(pat)] % i) if i % 2 == 0 else pct[(i // 2) % len(pct)] + ' #%d' % i, s) for i, s in enumerate(sizes)]
    if variant & 8:
        return [('hl i2c bus-%d events (w=%d) over 85\u00b0C \u2211.' % (i, s), s) for i, s in enumerate(sizes)]   # punctuation, non-ASCII
    if variant & 4:
        return [('hl_reserved_w%d' % s, s) for s in sizes]
    return [('field_%d_w%d' % (i, s), s) for i, s in enumerate(sizes)]


def header_for(sizes, variant):
    key = (tuple(sizes), variant)
    if key not in _files:
        d = tempfile.mkdtemp(prefix='c16_', dir=clidrv.scratch_root())
        p = os.path.join(d, 'h.h')
        cheader.write_header(p, [('01040000', 'x', [])], field_names(sizes, variant),
                             static=bool(variant & 1), brace_same_line=bool(variant & 2),
                             end_line='  }  ;  ' if variant & 16 else '};', decoy=bool(variant & 16),
                             decoy_before=bool(variant & 2))
        _files[key] = p
    return _files[key]


def cleanup():
    import shutil
    for p in _files.values():
        shutil.rmtree(os.path.dirname(p), ignore_errors=True)
    _files.clear()


def shipped_path(t):
    from io_drawer.drawer_type import DRAWER_TYPES
    for dt in DRAWER_TYPES:
        if dt.name == t:
            return dt.get_header_file_path()
    raise KeyError(t)


def _rewrite_case(case):
    """The header file at ONE path is rewritten between decodes; each decode must use the field table as it is now."""
    from io_drawer.hlog import parse_hlog_data
    import shutil
    out = []
    d = tempfile.mkdtemp(prefix='c16r_', dir=clidrv.scratch_root())
    try:
        path = os.path.join(d, 'h.h')
        data = bytes([1, 2, 3, 4, 5, 6])
        for step, sizes in enumerate(case['tables']):
            fields = [('v%d_f%d' % (step, i), sz) for i, sz in enumerate(sizes)]
            cheader.write_header(path, [('01040000', 'x', [])], fields)
            lines = parse_hlog_data(memoryview(data), path)
            dump, flds = rhlog.split_output(lines)
            want = rhlog.field_lines(data, fields)
            LAST['n'] = len(want)
            if flds != want:
                out.append({'key': 'C16:stale-table', 'what': 'step %d (table %s written to the same path): fields %r, expected %r' % (step, sizes, flds, want), 'case': case})
                break
    finally:
        shutil.rmtree(d, ignore_errors=True)
    return out


def eval_case(case):
    impl.ensure(False)
    if 'tables' in case:
        return _rewrite_case(case)
    from io_drawer.hlog import parse_hlog_data
    data = bytes.fromhex(case['data'])
    if 'sizes' in case:
        path = header_for(case['sizes'], case.get('variant', 0))
        fields = field_names(case['sizes'], case.get('variant', 0))
    else:
        path = shipped_path(case['type'])
        fields = cheader.read_hlog_fields(path)
    out = []
    bad = lambda what, detail: out.append({'key': 'C16:' + what, 'what': '%s: %s' % (what, detail), 'case': case})
    try:
        core.arm()
        if case.get('via') == 'plugin':
            # the same bytes through the I/O drawer plug-in (user data sub-type 72, version = drawer type)
            from udparsers.m2c00.m2c00 import parseUDToJson
            from io_drawer.drawer_type import DRAWER_TYPES
            ver = [dt.user_data_version for dt in DRAWER_TYPES if dt.name == case['type']][0]
            lines = json.loads(parseUDToJson(72, ver, memoryview(data))).get('History Log')
            if not isinstance(lines, list):
                raise ValueError('plug-in returned no History Log lines: %r' % (lines,))
        elif case.get('via') in ('pel', 'pel_ed'):
            # ... and as the user data section of an I/O drawer log decoded by the tool (parsePEL hands it to the plug-in)
            from mc import pelgen, decode
            from io_drawer.drawer_type import DRAWER_TYPES
            ver = [dt.user_data_version for dt in DRAWER_TYPES if dt.name == case['type']][0]
            ed = case['via'] == 'pel_ed'
            # (pel_ed: the same log carried by an Extended User Data section, which names its creator itself)
            sec = {'t': 'ED', 'creator': 'M', 'comp': 0x2C00, 'sub': 72, 'ver': ver, 'payload': data.hex()} if ed else \
                {'t': 'UD', 'comp': 0x2C00, 'sub': 72, 'ver': ver, 'payload': data.hex()}
            r = decode.parse(pelgen.encode_pel(pelgen.pel_from_spec({'creator': 'O' if ed else 'M', 'sections': [sec]})))
            lines = (r.get('doc') or {}).get('Extended User Data' if ed else 'User Data', {}).get('History Log') if r['kind'] == 'doc' else None
            if not isinstance(lines, list):
                raise ValueError('the decoded log shows no History Log lines: %s %r' % (r['kind'], (r.get('doc') or {}).get('Extended User Data' if ed else 'User Data', r.get('msg'))))
        else:
            lines = parse_hlog_data(memoryview(data), path)
        core.disarm()
    except Exception as e:
        core.disarm()
        bad('exception', repr(e))
        return out
    try:
        dump, flds = rhlog.split_output(lines)
    except ValueError as e:
        bad('frame', str(e))
        return out
    try:
        back = rhex.read_default(dump)
    except Exception as e:
        back = None
    if back != data:
        bad('hexdump-lossy', 'hex dump part does not give back the %d input bytes' % len(data))
    want = rhlog.field_lines(data, fields)
    LAST['n'] = len(want)
    if flds != want:
        bad('fields', 'field lines %r, expected %r' % (flds[:6], want[:6]))
    return out


LAST = {'n': 0}


def _do(res, case, step=499):
    LAST['n'] = 0
    vs = eval_case(case)
    res.case(nontrivial_key=json.dumps(case) if LAST['n'] else None, outcome=vs[0]['key'] if vs else 'ok:%d' % min(LAST['n'], 3),
             sample=case if res.evals % step == 1 else None)
    res.add(vs)


def run_chunk(chunk):
    routed = subchunk.route(__name__, chunk)
    if routed is not None:
        return routed
    res = ChunkResult()
    impl.ensure(False)
    if chunk['k'] == 'rewrite':
        tbls = [[1, 1, 2], [2, 2], [1], [], [2, 1, 1, 1]]
        for order in itertools.permutations(range(len(tbls)), 3):
            _do(res, {'tables': [tbls[i] for i in order]}, step=13)
    elif chunk['k'] == 'syn':
        sizes = chunk['sizes']
        total = sum(sizes)
        for variant in (0, 1, 2, 3, 4, 5, 6, 7, 8, 11, 16, 19, 32, 35, 64, 67):
            for n in range(0, total + 3):
                if n <= 7 and variant in (0, 4):
                    for vals in itertools.product((0x00, 0x01, 0xff), repeat=n):
                        _do(res, {'sizes': sizes, 'variant': variant, 'data': bytes(vals).hex()}, step=1999)
                else:
                    for fill in (bytes(n), b'\x01' * n, bytes((i + 1) & 0xff for i in range(n))):
                        _do(res, {'sizes': sizes, 'variant': variant, 'data': fill.hex()})
        cleanup()
    else:
        t = chunk['type']
        fields = cheader.read_hlog_fields(shipped_path(t))
        res.extra['shipped_fields_' + t] = len(fields)
        total = sum(s for _, s in fields)
        for n in range(0, total + 3):
            for fill in (bytes(n), b'\xff' * n, bytes((i * 7 + 1) & 0xff for i in range(n))):
                _do(res, {'type': t, 'data': fill.hex()})
        # every length up to well past the full record, through the plug-in entry point too (it must not trim anything)
        for n in range(1, total + 24):
            for fill in (b'\xff' * n, bytes((i * 5 + 3) & 0xff for i in range(n)), bytes(n)):
                _do(res, {'type': t, 'data': fill.hex(), 'via': 'plugin'})
                if n % 3 == 1 or n >= total - 1:
                    _do(res, {'type': t, 'data': fill.hex(), 'via': 'pel'})
                if n % 3 == 2 or n >= total - 1:
                    _do(res, {'type': t, 'data': fill.hex(), 'via': 'pel_ed'})
        offs = []
        o = 0
        for name, s in fields:
            offs.append((o, s))
            o += s
        for i, (o, s) in enumerate(offs):
            for v in ([1, 0x80, 0xff] if s == 1 else [1, 0x80, 0xff, 0x100, 0x8000, 0xffff, 0xff00, 0x00ff]):
                d = bytearray(total)
                d[o:o + s] = v.to_bytes(s, 'big')
                _do(res, {'type': t, 'data': bytes(d).hex()})
                for cut in (o, o + s - 1, o + s):
                    _do(res, {'type': t, 'data': bytes(d[:cut]).hex()})
            if i + 1 < len(offs):
                o2, s2 = offs[i + 1]
                d = bytearray(total)
                d[o:o + s] = (0xA0 + i).to_bytes(s, 'big')
                d[o2:o2 + s2] = (0x0B).to_bytes(s2, 'big')
                _do(res, {'type': t, 'data': bytes(d).hex()})
    return res
