"""C02 - header-type sections display exactly the encoded values (E1: one-field sweeps + adjacent pairs)."""
import copy
import itertools
import json

from mc import subchunk, core, pelgen, decode, impl
from mc.core import ChunkResult

PROPERTY = 'C02'
LEVEL = 'exploration'
ENGINE = 'E1'
TECHNIQUE = ('bounded-exhaustive field sweeps (all 256 values of every coded byte, all action-flag words, all component '
             'ids, BCD bytes, boundary ids, text lengths, LP name/target counts) through the real parsePEL, compared with '
             'encoder-side field values')
LEVEL_TEXT = ('Each displayed field of the five fixed-layout sections is swept through its whole domain (8/16-bit) or a '
              'boundary alphabet (32/64-bit) while every other field holds a distinct position-revealing value; thorough '
              'adds all pairs of adjacent fields. The expected display is computed from field values by the formatting '
              'rules in the statement, never from the bytes. A width/offset/mask/neighbour error changes some swept value.')
LEVEL_NOTE = ('32/64-bit fields only through boundary alphabets; non-BCD timestamp nibbles and non-printable text not '
              'generated; display names come from a frozen copy of the published value tables, not from the repository under test')
RULE = ('base PEL (PH UH EH MT LP, all fields distinct) x one assignment: every coded byte 0..255, action flags (quick: '
        'stride 17 + single bits + bit pairs; thorough: all 65536), component ids (quick stride 257 + PHYP boundary rows; '
        'thorough all 65536) x creators O/H/x x registry absent/fixture, creator byte 0..127, each BCD byte 00..99 of 3 '
        'timestamps, id boundary alphabets (thorough: adjacent pairs), text length 0..width, LP name length x target '
        'count. Non-trivial: assignment differs from the base; distinct by assignment.')
ASSUMPTIONS = ['ids are compared numerically (digit case / zero padding free)', 'target partitions may be shown as one '
               'comma separated value, a list or numbered keys']

BASE = {
    'creator': 'O',
    'sections': [
        {'t': 'EH', 'ver': 2, 'sub': 3, 'comp': 0x4500, 'mtm': 'MTM-8CHR', 'sn': 'SERIAL12CHAR', 'fw': 'FWRELEASED16CHAR',
         'subfw': 'fwsubsystem16chr', 'reftime': '2021020304050607', 'sym': 'SYMPTOMID_01'},
        {'t': 'MT', 'ver': 4, 'sub': 5, 'comp': 0x4D00, 'mtm': 'mtm8char', 'sn': 'mtserial12ch'},
        {'t': 'LP', 'ver': 6, 'sub': 7, 'comp': 0x4C00, 'partid': 0x1A2B, 'logid': 0x3C4D5E6F, 'name': 'lparNAME',
         'targets': [0x0102, 0x0304, 0x0506]},
    ],
    'ver': 8, 'sub': 9,
    'uh': {'ver': 10, 'sub': 11},
}

B32 = [0, 1, 0xF, 0x10, 0x7F, 0x80, 0xFF, 0x100, 0x7FFF, 0x8000, 0xFFFF, 0x10000, 0x0FFFFFFF, 0x10000000, 0x7FFFFFFF,
       0x80000000, 0xFFFFFFFF, 0x01020304, 0xA1B2C3D4]
B64 = [0, 1, 0xFF, 0x100, 0xFFFFFFFF, 0x100000000, 0x0FFFFFFFFFFFFFFF, 0x1000000000000000, 0x7FFFFFFFFFFFFFFF,
       0x8000000000000000, 0xFFFFFFFFFFFFFFFF, 0x0102030405060708]
B16 = [0, 1, 0xF, 0x10, 0xFF, 0x100, 0x7FFF, 0x8000, 0xFFFF, 0x0102]

BYTE_FIELDS = [['uh', 'subsys'], ['uh', 'scope'], ['uh', 'sev'], ['uh', 'etype'], ['ver'], ['sub'], ['uh', 'ver'],
               ['uh', 'sub'], ['sec', 0, 'ver'], ['sec', 0, 'sub'], ['sec', 1, 'ver'], ['sec', 1, 'sub'],
               ['sec', 2, 'ver'], ['sec', 2, 'sub'], ['uh', 'pdomain'], ['uh', 'pvector'], ['logtype']]
ID_FIELDS = [(['obmc'], B32), (['cver'], B64), (['plid'], B32), (['eid'], B32), (['sec', 2, 'partid'], B16),
             (['sec', 2, 'logid'], B32)]
TEXT_FIELDS = [(['sec', 0, 'mtm'], 8), (['sec', 0, 'sn'], 12), (['sec', 0, 'fw'], 16), (['sec', 0, 'subfw'], 16),
               (['sec', 1, 'mtm'], 8), (['sec', 1, 'sn'], 12)]
TS_FIELDS = [['create'], ['commit'], ['sec', 0, 'reftime']]
COMP_FIELDS = [['comp'], ['uh', 'comp'], ['sec', 0, 'comp'], ['sec', 1, 'comp'], ['sec', 2, 'comp']]


def bounds(tier):
    return {'byte_fields': len(BYTE_FIELDS), 'flags': 'all 65536' if tier == 'thorough' else 'stride 17 + bits + pairs',
            'component_ids': 'all 65536 x 3 creators x 2 registry configs' if tier == 'thorough' else 'stride 257 + boundaries',
            'lp': 'all 256 name lengths x 256 counts' if tier == 'thorough' else '16 name lengths (all residues mod 4) x 57 counts',
            'id_pairs': tier == 'thorough'}


def plan(tier, seed):
    ch = [{'k': 'bytes', 'fields': BYTE_FIELDS[i:i + 3]} for i in range(0, len(BYTE_FIELDS), 3)]
    ch.append({'k': 'states'})
    ch.append({'k': 'multi'})
    ch.append({'k': 'creator'})
    ch.append({'k': 'ts'})
    ch.append({'k': 'ids', 'pairs': tier == 'thorough'})
    ch.append({'k': 'text'})
    ch.append({'k': 'text', 'optimize': True})                        # the same under python -O (assertions stripped)
    ch.append({'k': 'ids', 'pairs': False, 'optimize': True})
    if tier == 'quick':
        ch.append({'k': 'flags', 'vals': 'quick'})
        for reg in (False, True):
            for cr in ('O', 'H', 'x', 'B'):
                ch.append({'k': 'comp', 'creator': cr, 'reg': reg, 'lo': 0, 'hi': 65536, 'stride': 257})
        for nls in ((0, 1, 2, 3), (4, 5, 6, 7), (8, 9, 10, 11), (252, 253, 254, 255)):
            ch.append({'k': 'lp', 'namelens': list(nls), 'counts': sorted(set(range(0, 256, 5)) | {1, 2, 3, 4, 254, 255})})
    else:
        for lo in range(0, 65536, 4096):
            ch.append({'k': 'flags', 'lo': lo, 'hi': lo + 4096})
        for reg in (False, True):
            for cr in ('O', 'H', 'x', 'B'):
                for lo in range(0, 65536, 8192):
                    ch.append({'k': 'comp', 'creator': cr, 'reg': reg, 'lo': lo, 'hi': lo + 8192, 'stride': 1})
        for nl in range(0, 256, 4):
            ch.append({'k': 'lp', 'namelens': list(range(nl, nl + 4))})
    return ch


def apply(spec, path, value):
    if path[0] == 'uh':
        spec.setdefault('uh', {})[path[1]] = value
    elif path[0] == 'sec':
        spec['sections'][path[1]][path[2]] = value
    else:
        spec[path[0]] = value


def classify(msgs):
    for m in msgs:
        if m.startswith('Extended User Header: Reporting Machine Type') and '\\x00' in m:
            return 'F3:eh-machine-type-keeps-nul-padding'
        if m.startswith('Impacted Partition: Target LP*'):
            return 'F2:target-lp-overwritten'
    return 'C02:' + msgs[0].split(':')[0] + ':' + msgs[0].split(':')[1].strip()


def eval_case(case):
    if 'multi' in case:
        return _eval_multi(case)
    reg = bool(case.get('reg'))
    impl.ensure(reg)
    spec = copy.deepcopy(BASE)
    for path, value in case['set']:
        apply(spec, path, value)
    p = pelgen.pel_from_spec(spec)
    b = pelgen.encode_pel(p)
    r = decode.parse(b)
    if r['kind'] != 'doc':
        return [{'key': 'C02:not-decoded', 'what': 'well-formed PEL gave %s %s %s' % (r['kind'], r.get('type'), r.get('msg')),
                 'case': case}]
    doc = r['doc']
    env = {'compnames': impl.compnames() if reg else None}
    msgs = []
    cr = p['creator']
    for name, m in (('Private Header', pelgen.check_ph(p, doc.get('Private Header'), env)),
                    ('User Header', pelgen.check_uh(p, doc.get('User Header'), env)),
                    ('Extended User Header', pelgen.check_eh(p['sections'][0], doc.get('Extended User Header'), cr, env)),
                    ('Failing MTMS', pelgen.check_mt(p['sections'][1], doc.get('Failing MTMS'), cr, env)),
                    ('Impacted Partition', pelgen.check_lp(p['sections'][2], doc.get('Impacted Partition'), cr, env))):
        msgs.extend('%s: %s' % (name, x) for x in m)
    if msgs:
        return [{'key': classify(msgs), 'what': '; '.join(msgs[:3]), 'case': case}]
    return []


MULTI_KINDS = ['EH', 'MT', 'LP', 'UD', 'ZZ']


def _multi_section(kind, pos):
    """A section of the kind whose every field value depends on its position in the log."""
    if kind == 'EH':
        return {'t': 'EH', 'ver': 2 + pos, 'sub': pos, 'comp': 0x4500 + pos, 'mtm': 'MTM-%dCHR' % pos, 'sn': 'SERIAL%dxCHAR' % pos,
                'fw': 'FWRELEASE%d' % pos, 'subfw': 'fwsub%d' % pos, 'reftime': '202102030405060%d' % pos, 'sym': 'SYMPTOM_%d' % pos * (pos + 1)}
    if kind == 'MT':
        return {'t': 'MT', 'ver': 4 + pos, 'sub': 5 + pos, 'comp': 0x4D00 + pos, 'mtm': 'mtm%dchar' % pos, 'sn': 'mtserial%d' % pos}
    if kind == 'LP':
        return {'t': 'LP', 'ver': 6 + pos, 'sub': 7 + pos, 'comp': 0x4C00 + pos, 'partid': 0x1A20 + pos, 'logid': 0x3C4D5E60 + pos,
                'name': 'lpar%d' % pos * (1 + pos % 2), 'targets': [0x0100 * (pos + 1) + i for i in range(pos + 1)]}
    if kind == 'UD':
        return {'t': 'UD', 'comp': 0xABC0 + pos, 'payload': bytes([0x50 + pos] * (3 + pos)).hex()}
    return {'t': 'ZZ', 'comp': 0x00F0 + pos, 'payload': bytes([0x60 + pos] * (2 + pos)).hex()}


def _eval_multi(case):
    """Header-type sections that occur several times in one log, next to each other or with other sections in between:
    each is displayed, in its place, with exactly its own values."""
    impl.ensure(False)
    secs = [_multi_section(MULTI_KINDS[k], pos) for pos, k in enumerate(case['multi'])]
    p = pelgen.pel_from_spec({'creator': 'O', 'sections': secs})
    r = decode.parse(pelgen.encode_pel(p))
    if r['kind'] != 'doc':
        return [{'key': 'C02:not-decoded', 'what': 'well-formed PEL gave %s %s %s' % (r['kind'], r.get('type'), r.get('msg')), 'case': case}]
    doc = r['doc']
    keys = pelgen.expected_keys(p)
    if list(doc) != keys:
        return [{'key': 'C02:sections', 'what': 'sections shown %s, encoded %s' % (list(doc)[2:], keys[2:]), 'case': case}]
    msgs = []
    for sec, name in zip(secs, keys[2:]):
        fn = {'EH': pelgen.check_eh, 'MT': pelgen.check_mt, 'LP': pelgen.check_lp}.get(sec['t'])
        if fn:
            msgs.extend('%s: %s' % (name, x) for x in fn(sec, doc.get(name), 'O', {'compnames': None}))
    if msgs:
        return [{'key': 'C02:' + msgs[0].split(':')[0].rstrip(' 0123456789') + ':' + msgs[0].split(':')[1].strip(), 'what': '; '.join(msgs[:3]), 'case': case}]
    return []


def _do(res, sets, reg=False, nontrivial=True, every=503):
    case = {'set': sets, 'reg': reg}
    core.arm()
    vs = eval_case(case)
    core.disarm()
    res.case(nontrivial_key=json.dumps(case) if nontrivial else None, outcome=vs[0]['key'] if vs else 'ok',
             sample=case if res.evals % every == 1 else None)
    res.add(vs)


TEXT_CHARS = 'ABCDEFGHIJKLMNOPQRSTUVWXYZabcdefghijklmnopqrstuvwxyz0123456789-_. /'


def run_chunk(chunk):
    routed = subchunk.route(__name__, chunk)
    if routed is not None:
        return routed
    res = ChunkResult()
    k = chunk['k']
    if k == 'multi':
        for n in (2, 3, 4):
            for combo in itertools.product(range(len(MULTI_KINDS)), repeat=n):
                if len(set(combo)) == n:
                    continue            # nothing occurs twice
                case = {'multi': list(combo)}
                core.arm()
                vs = eval_case(case)
                core.disarm()
                res.case(nontrivial_key=json.dumps(case), outcome=vs[0]['key'] if vs else 'ok', sample=case if res.evals % 97 == 1 else None)
                res.add(vs)
        return res
    if k == 'bytes':
        _do(res, [], nontrivial=False)
        for f in chunk['fields']:
            for v in range(256):
                _do(res, [[f, v]])
    elif k == 'states':
        for v in range(256):
            _do(res, [[['uh', 'states'], 0xAB000000 | (0x5A << 16) | (3 << 8) | v]])
            _do(res, [[['uh', 'states'], 0xCD000000 | (0xA5 << 16) | (v << 8) | 2]])
            _do(res, [[['uh', 'states'], (v << 24) | (v << 16) | 0x0103]])
    elif k == 'creator':
        # PHYP component ids are two ASCII bytes: every pair over a byte alphabet (letters, digits, NUL, high bit)
        grid = [0x00, 0x01, 0x20, 0x30, 0x31, 0x39, 0x41, 0x42, 0x4C, 0x5A, 0x61, 0x7A, 0x7E, 0x7F]
        for hi in grid:
            for lo in grid:
                for cr in ('H', 'O'):
                    _do(res, [[['creator'], cr], [['comp'], (hi << 8) | lo], [['uh', 'comp'], (lo << 8) | hi],
                              [['sec', 0, 'comp'], (hi << 8) | lo], [['sec', 1, 'comp'], (lo << 8) | hi], [['sec', 2, 'comp'], (hi << 8) | lo]])
        for c in range(256):
            for comp in (0x4142, 0x0041, 0x4100, 0x3100):
                _do(res, [[['creator'], chr(c)], [['comp'], comp], [['uh', 'comp'], comp ^ 0x0303]])
    elif k == 'ts':
        for f in TS_FIELDS:
            for pos in range(8):
                for v in range(100):
                    base = bytearray.fromhex('2099' + '1231' + '235958' + '77')
                    base[pos] = (v // 10) << 4 | (v % 10)
                    _do(res, [[f, bytes(base).hex()]])
    elif k == 'ids':
        for f, alpha in ID_FIELDS:
            for v in alpha:
                _do(res, [[f, v]])
        if chunk['pairs']:
            for (f1, a1), (f2, a2) in zip(ID_FIELDS, ID_FIELDS[1:]):
                for v1, v2 in itertools.product(a1, a2):
                    _do(res, [[f1, v1], [f2, v2]])
            for v1, v2 in itertools.product(range(0, 256, 5), repeat=2):
                _do(res, [[['uh', 'sev'], v1], [['uh', 'etype'], v2]])
                _do(res, [[['uh', 'subsys'], v1], [['uh', 'scope'], v2]])
    elif k == 'text':
        for f, width in TEXT_FIELDS:
            for n in range(width + 1):
                _do(res, [[f, TEXT_CHARS[width:width + n]]])
                _do(res, [[f, (TEXT_CHARS * 2)[n:n + n]]])
        # blanks are printable text: at the start, at the end, alone, inside
        for f, width in TEXT_FIELDS + [(['sec', 0, 'sym'], 16), (['sec', 2, 'name'], 12)]:
            for v in (' lead', 'trail ', ' ', '  both  ', 'in side', ' x'[:width], ('end' + ' ' * width)[:width], (' ' * width)):
                if len(v) <= width:
                    _do(res, [[f, v]])
        for n in range(0, 81, 4):
            _do(res, [[['sec', 0, 'sym'], (TEXT_CHARS * 2)[:n]]])
            for short in (1, 2, 3):
                if n - short >= 0:
                    _do(res, [[['sec', 0, 'sym'], (TEXT_CHARS * 2)[:n - short]], [['sec', 0, 'symlen'], n]])
        for n in range(0, 253, 4):
            _do(res, [[['sec', 2, 'name'], (TEXT_CHARS * 4)[:n]]])
            if n:
                _do(res, [[['sec', 2, 'name'], (TEXT_CHARS * 4)[:n - 1]], [['sec', 2, 'namelen'], n]])
    elif k == 'flags':
        if chunk.get('vals') == 'quick':
            vals = set(range(0, 65536, 17)) | {1 << i for i in range(16)} | \
                {(1 << i) | (1 << j) for i in range(16) for j in range(i)} | {0xFFFF, 0}
        else:
            vals = range(chunk['lo'], chunk['hi'])
        for v in sorted(vals):
            _do(res, [[['uh', 'flags'], v]])
    elif k == 'comp':
        vals = set(range(chunk['lo'], chunk['hi'], chunk['stride']))
        if chunk['stride'] != 1:
            vals |= {0, 1, 0xFF, 0x100, 0x4100, 0x0041, 0x4141, 0x00FF, 0xFF00, 0xFFFF, 0x1000, 0x2000, 0x3100, 0x3200,
                     0xE500, 0x0100}
        for v in sorted(vals):
            for f in COMP_FIELDS[:2]:
                _do(res, [[['creator'], chunk['creator']], [f, v]], reg=chunk['reg'])
        for v in sorted(vals)[::max(1, len(vals) // 300)]:
            for f in COMP_FIELDS[2:]:
                _do(res, [[['creator'], chunk['creator']], [f, v]], reg=chunk['reg'])
        impl.ensure(False)
    elif k == 'lp':
        for nl in chunk['namelens']:
            for cnt in chunk.get('counts', range(256)):
                targets = [((i * 257 + cnt) & 0xffff) or 0x8001 for i in range(cnt)]
                _do(res, [[['sec', 2, 'name'], (TEXT_CHARS * 4)[:nl]], [['sec', 2, 'targets'], targets]], every=97)
    return res
