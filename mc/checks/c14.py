"""C14 - ILOG entries with the first matching table message (E1: synthetic tables fully enumerated + shipped tables)."""
import itertools
import json
import os
import shutil
import tempfile

from mc import subchunk, core, impl, clidrv
from mc.core import ChunkResult
from mc.ref import cheader, ilog as rilog

PROPERTY = 'C14'
LEVEL = 'exploration'
ENGINE = 'E1'
TECHNIQUE = ('bounded-exhaustive enumeration: all PTE tables of <= 2 (thorough 3) entries over a 29-entry overlapping-pattern '
             'alphabet x a 684-entry ILOG alphabet (timestamps x sequence numbers x PTEs around every pattern boundary), '
             'zero entries and trailing partial lengths; both shipped tables with every wildcard fill in a 7-value alphabet x '
             'reported-bit x error-nibble variants and all one-nibble near misses; real parse_ilog_data vs. an independent '
             'decoder and an independent header-file scanner')
LEVEL_TEXT = ('The decoder is compared line by line with a reference decoder written from the statement (first match in '
              'file order, exact-or-cleared per entry, designated parameter bytes, raw format on formatting error, suffix '
              'rule) on the complete product of small tables and an entry alphabet that sits on both sides of every pattern '
              'distinction; for the shipped tables every entry is hit through every wildcard fill and missed through every '
              'one-nibble deviation, and the table as read by the repository is compared with an independent scan.')
LEVEL_NOTE = ('PTE values outside the derived alphabets and header syntax beyond the shipped style are not explored; CPython '
              '%-formatting trusted')
RULE = ('synthetic: tables = all sequences of length 0..2 (quick) / 0..3 (thorough) over 29 (pattern, message, params) entries (incl. line-separator characters inside a description, multi-digit parameter numbers, a non-wildcard metacharacter, reported-error catch-all), '
        'each in 2 syntax variants; data = blob of all alphabet entries, the reversed blob with all-zero entries '
        'interleaved, each with trailing partial lengths 0..7. shipped: per table entry, wildcard runs filled jointly with '
        '{0,1,4,5,9,A,F} x reported bit {as is,set,clear} x top nibble {as is,E}; literal patterns x 8 positions x 2 '
        'replacement nibbles. Non-trivial: a decoded entry whose expected description is not "Undefined"; distinct by '
        '(table, entry).')
ASSUMPTIONS = ['header files follow the syntax of the shipped generated headers']

ALPHA = [
    ('E0040000', 'exact reported', []),
    ('E0000000', 'exact cleared form, byte3=%d', [3]),
    ('E00*0000', 'wild reported nibble', []),
    ('E*******', 'any error %02X %d', [2, 4]),
    ('********', 'catch all', []),
    ('0100****', 'chars %c%c', [3, 4]),
    ('e0000000', 'lower case pattern', []),
    ('0100**00', 'swapped %d %d', [4, 3]),
    ('0100**01', 'bare percent % and \\"quoted\\"', []),
    ('0101****', 'arity mismatch %d %d', [3]),
    ('0101**00', 'param zero and five %d', [0, 5, 4]),
    ('E1040000', '   padded message   ', []),
    ('E20*0190', 'VRM %d fault, rail %d', [3]),
    ('E3******', 'no conversion but a parameter', [4]),
    # parameter numbers of more than one digit designate no PTE byte (a PTE has bytes 1..4) and are discarded as numbers
    ('0102**00', 'two-digit parameter %d|%d', [12]),
    ('0102****', 'byte three %d and a two-digit number', [3, 14]),
    # only '*' is a wildcard: other characters of a pattern stand for themselves
    ('0103.***', 'a dot is not a wildcard', []),
    ('E5******', 'reported-error catch-all below which nothing is defined', []),
    # parameter numbers are C integer literals: a hex literal or a signed number is one number (26, -1: outside 1..4)
    ('0104**00', 'hex literal parameter %d', ['0x1A']),
    ('0104****', 'byte four %d, minus one, hex three %d', [4, '-1', '0x3']),
    ('0105****', 'leading zeros: byte three %d, byte four %d', ['03', '004']),
    # a description without (valid) parameters is still a format string: an escaped per cent sign is one per cent sign
    ('0106**00', 'fan duty 100%% - full speed', []),
    ('0106****', 'escaped %% and a discarded parameter', [7]),
    ('E6******', 'reported at the 50%% threshold', []),
    # a matching entry whose description is empty or blank is still the match ('Undefined' is for "none matches")
    ('0107**00', '', []),
    ('0107****', '   ', []),
    ('E7******', '', [3]),
    # a table entry is one line of the file: only a line feed ends it, not the other characters str.splitlines() breaks at
    ('0108**00', 'form\x0cfeed, vt\x0b, byte three %d', [3]),
    ('0108****', 'rs\x1e nel\x85 ls\u2028 ps\u2029 in one description', []),
]
TS = [0, 1, 3599, 3600, 65534, 65535]
SEQ = [0, 0xBEEF]


def pte_alphabet():
    out = []
    for n0 in (0x0, 0xE):
        for n1 in (0, 1):
            for n3 in (0, 4, 5):
                for n7 in (0, 1):
                    out.append((n0 << 28) | (n1 << 24) | (n3 << 16) | n7)
    out += [0x01004142, 0x01014142, 0x0101FF00, 0xFFFFFFFF, 0x00000000, 0xE1040000, 0xE1000000, 0xE0041234, 0xF0040000, 0xE20C0190, 0xE2080190, 0xE30C7704, 0xE3087704,
            0x01022A00, 0x01022A2B, 0x01042A00, 0x01042A2B, 0x01052A2B, 0x0103A000, 0x01030000, 0xE4040000, 0xE4000000, 0xEF0C0001,
            0x01062A00, 0x01062A2B, 0xE60C7704, 0xE6087704, 0x01072A00, 0x01072A2B, 0xE70C7704, 0xE7087704, 0x01082A00, 0x01082A2B]
    return out


PTES = pte_alphabet()


def entries_blob():
    b = bytearray()
    for ts in TS:
        for seq in SEQ:
            for pte in PTES:
                b += ts.to_bytes(2, 'big') + seq.to_bytes(2, 'big') + pte.to_bytes(4, 'big')
    return bytes(b)


def bounds(tier):
    return {'synthetic_table_length': 2 if tier == 'quick' else 3, 'alphabet_entries': len(ALPHA),
            'ilog_entry_alphabet': len(TS) * len(SEQ) * len(PTES), 'shipped_fill_values': '0,1,4,5,9,A,F' if tier == 'thorough' else '0,5,F'}


def plan(tier, seed):
    ch = [{'k': 'syn', 'first': None}]
    for i in range(len(ALPHA)):
        ch.append({'k': 'syn', 'first': i, 'maxlen': 2 if tier == 'quick' else 3})
    ch.append({'k': 'rewrite'})
    for t in ('mex', 'nimitz'):
        ch.append({'k': 'table', 'type': t})
        for part in range(8):
            ch.append({'k': 'shipped', 'type': t, 'part': part, 'parts': 8, 'fills': '05F' if tier == 'quick' else '01459AF'})
    # the same under python -O (assertions stripped, __debug__ false)
    ch += [dict(c, optimize=True) for c in [{'k': 'syn', 'first': None}, {'k': 'syn', 'first': 0, 'maxlen': 2}, {'k': 'rewrite'}, {'k': 'table', 'type': 'mex'}]]
    return ch


def shipped_path(t):
    from io_drawer.drawer_type import DRAWER_TYPES
    for dt in DRAWER_TYPES:
        if dt.name == t:
            return dt.get_header_file_path()
    raise KeyError(t)


def compare(got, want, data):
    """first differing line"""
    if len(got) != len(want):
        return 'line count %d, expected %d' % (len(got), len(want))
    for i, (g, w) in enumerate(zip(got, want)):
        if g != w:
            return 'line %d: %r, expected %r' % (i, g, w)
    return None


def _c_int(x):
    """value of a parameter number as written in the header: decimal (leading zeros allowed), hex, signed"""
    try:
        return int(str(x), 10)
    except ValueError:
        return int(str(x), 0)


def table_model(idx):
    """table as the reference understands it: message blanks stripped and \\" unescaped, params 1..4 only"""
    out = []
    for i in idx:
        pat, msg, params = ALPHA[i]
        nums = [_c_int(x) for x in params]
        out.append((pat, msg.strip().replace('\\"', '"'), tuple(x for x in nums if 1 <= x <= 4)))
    return out


def _rewrite_case(case):
    """The header file at ONE path is rewritten between decodes; each decode must use the table as it is now."""
    from io_drawer.ilog import parse_ilog_data
    out = []
    d = tempfile.mkdtemp(prefix='c14r_', dir=clidrv.scratch_root())
    try:
        path = os.path.join(d, 'pte.h')
        data = entries_blob()[:8 * 60]
        for step, tbl in enumerate(case['tables']):
            cheader.write_header(path, [ALPHA[i] for i in tbl], [('f', 1)])
            got = parse_ilog_data(memoryview(data), path)
            want = rilog.decode(data, table_model(tbl))
            LAST['defined'] = sum(1 for w in want[2:] if ' Undefined' not in w)
            LAST['lines'] = len(want) - 2
            diff = compare(got, want, data)
            if diff:
                out.append({'key': 'C14:stale-table', 'what': 'step %d (table %s written to the same path): %s' % (step, tbl, diff), 'case': case})
                break
    finally:
        shutil.rmtree(d, ignore_errors=True)
    return out


def eval_case(case):
    impl.ensure(False)
    if 'tables' in case:
        return _rewrite_case(case)
    from io_drawer.ilog import parse_ilog_data
    data = bytes.fromhex(case['data']) if 'data' in case else _named_blob(case['blob'])
    tmpd = None
    if 'table' in case:
        tmpd = tempfile.mkdtemp(prefix='c14_', dir=clidrv.scratch_root())
        path = os.path.join(tmpd, 'pte.h')
        cheader.write_header(path, [ALPHA[i] for i in case['table']], [('f', 1)], static=bool(case.get('variant', 0) & 1),
                             brace_same_line=bool(case.get('variant', 0) & 2), decoy_before=bool(case.get('variant', 0) & 1))
        table = table_model(case['table'])
    else:
        path = shipped_path(case['type'])
        table = _shipped_table(case['type'])
    out = []
    try:
        core.arm(60)
        got = parse_ilog_data(memoryview(data), path)
        core.disarm()
        want = rilog.decode(data, table)
        LAST['defined'] = sum(1 for w in want[2:] if ' Undefined' not in w)
        LAST['lines'] = len(want) - 2
        diff = compare(got, want, data)
        if diff:
            out.append({'key': 'C14:output', 'what': diff, 'case': case})
    except Exception as e:
        core.disarm()
        out.append({'key': 'C14:exception', 'what': repr(e), 'case': case})
    finally:
        if tmpd:
            shutil.rmtree(tmpd, ignore_errors=True)
    return out


LAST = {'defined': 0, 'lines': 0}
_tables = {}


def _shipped_table(t):
    if t not in _tables:
        _tables[t] = cheader.read_pte_table(shipped_path(t))
    return _tables[t]


def _named_blob(name):
    blob = entries_blob()
    kind, tail = name
    if kind == 'fwd':
        b = blob
    else:
        ents = [blob[i:i + 8] for i in range(0, len(blob), 8)][::-1]
        b = b''.join(e + (bytes(8) if i % 3 == 0 else b'') for i, e in enumerate(ents))
    return b + b'\xE0\x04\x00\x00\x11\x22\x33'[:tail]


def _do(res, case, step=97):
    vs = eval_case(case)
    res.evals += max(1, LAST['lines'])
    res.nontrivial_count += LAST['defined']
    res.outcomes.add(vs[0]['key'] if vs else 'ok')
    if res.extra.get('calls', 0) % step == 0 and len(res.samples) < 2:
        res.samples.append({k: (v if k != 'data' else v[:64] + '...') for k, v in case.items()})
    res.bump('calls')
    res.add(vs)


def fills_for(pattern, fills):
    """PTE values for one table pattern: wildcard runs filled jointly."""
    out = set()
    runs = []
    i = 0
    while i < len(pattern):
        if pattern[i] == '*':
            j = i
            while j < len(pattern) and pattern[j] == '*':
                j += 1
            runs.append((i, j))
            i = j
        else:
            i += 1
    if not runs:
        out.add(pattern)
    else:
        for combo in itertools.product(fills, repeat=len(runs)):
            p = list(pattern)
            for (a, b), f in zip(runs, combo):
                for k in range(a, b):
                    p[k] = f
            out.add(''.join(p))
    vals = set()
    for h in out:
        try:
            v = int(h, 16)
        except ValueError:
            continue
        for rep in (v, v | 0x00040000, v & ~0x00040000):
            vals.add(rep)
            vals.add((rep & 0x0FFFFFFF) | 0xE0000000)
    return vals


def run_chunk(chunk):
    routed = subchunk.route(__name__, chunk)
    if routed is not None:
        return routed
    res = ChunkResult()
    impl.ensure(False)
    k = chunk['k']
    if k == 'syn':
        if chunk['first'] is None:
            tables = [[]]
        else:
            tables = []
            for n in range(0, chunk['maxlen']):
                for tail in itertools.product(range(len(ALPHA)), repeat=n):
                    tables.append([chunk['first']] + list(tail))
        for ti, tbl in enumerate(tables):
            for blob in (('fwd', 0), ('rev', ti % 8)):
                _do(res, {'table': tbl, 'variant': ti % 4, 'blob': list(blob)})
            if ti % 16 == 0:
                for tail in range(1, 8):
                    _do(res, {'table': tbl, 'variant': 1, 'blob': ['fwd', tail]})
                for n in range(0, 17):
                    _do(res, {'table': tbl, 'variant': 2, 'data': entries_blob()[:n].hex()})
    elif k == 'rewrite':
        tbls = [[0, 3], [3, 0], [4], [], [1, 2, 5]]
        for order in itertools.permutations(range(len(tbls)), 3):
            _do(res, {'tables': [tbls[i] for i in order]}, step=13)
    elif k == 'table':
        t = chunk['type']
        from io_drawer.ilog import PTETable
        path = shipped_path(t)
        mine = _shipped_table(t)
        theirs = [(e.pte_pattern, e.message_format, tuple(e.params)) for e in PTETable(path).entries]
        res.evals += len(mine)
        res.nontrivial_count += len(mine)
        res.extra['shipped_entries_' + t] = len(mine)
        res.outcomes.add('table-read')
        res.samples.append({'type': t, 'first_entry': list(mine[0])})
        if mine != theirs:
            i = next((i for i, (a, b) in enumerate(zip(mine, theirs)) if a != b), min(len(mine), len(theirs)))
            res.violation('C14:table-read', 'table read by the repository differs from an independent scan at entry %d: %r vs %r'
                          % (i, theirs[i] if i < len(theirs) else None, mine[i] if i < len(mine) else None), {'type': t, 'k': 'table'})
        declared = cheader.declared_pte_table_size(path)
        if declared is not None and declared - 1 != len(theirs):
            res.violation('C14:table-size', '%d entries read, header declares PTE_TABLE_SIZE %d' % (len(theirs), declared), {'type': t, 'k': 'table'})
    elif k == 'shipped':
        t = chunk['type']
        table = _shipped_table(t)
        ptes = set()
        for i, (pat, msg, params) in enumerate(table):
            if i % chunk['parts'] != chunk['part']:
                continue
            ptes |= fills_for(pat, chunk['fills'])
            if '*' not in pat:
                for pos in range(8):
                    for r in '0F':
                        if pat[pos].upper() != r:
                            ptes.add(int(pat[:pos] + r + pat[pos + 1:], 16))
        ptes = sorted(ptes)
        for lo in range(0, len(ptes), 512):
            blob = b''.join((lo + j & 0xffff).to_bytes(2, 'big') + (j & 0xffff).to_bytes(2, 'big') + p.to_bytes(4, 'big')
                            for j, p in enumerate(ptes[lo:lo + 512]))
            _do(res, {'type': t, 'data': blob.hex()}, step=7)
    return res
