"""C03 - SRC words, flags and every callout (E1 over SRC structures)."""
import itertools
import json

from mc import subchunk, core, pelgen, decode, impl
from mc.core import ChunkResult

PROPERTY = 'C03'
LEVEL = 'exploration'
ENGINE = 'E1'
TECHNIQUE = ('bounded-exhaustive enumeration of SRC structures (word boundary values, all 256 flag bytes, word counts, SRC '
             'types x status bits, the full single-callout product, all callout sequences <= 3 over a 12-shape alphabet, '
             'registry and maintenance-procedure configurations) through the real parsePEL vs. encoder-side values')
LEVEL_TEXT = ('Every SRC in the stated product is encoded from field values, decoded by the real code inside a PEL that '
              'continues with two sentinel sections, and compared field by field; callout shapes are enumerated completely '
              '(FRU flag sets x FRU type x PCE x MRU count x location length x priority) and in every order up to three, so '
              'every (previous callout shape, next callout) interaction occurs. Registry messages are checked against a '
              'fixture registry including out-of-order and repeated placeholders.')
LEVEL_NOTE = ('32-bit words only through a boundary alphabet; callouts without FRU identity are not legal and not '
              'generated; registry messages with literal braces are outside the statement; calloutparsers.ocallouts '
              'procedure table trusted as data')
RULE = ('PEL = PH UH SRC MT UD; SRC from: 8 words x 19 boundary values, 256 header flag bytes, word count 1..9, 5 '
        'reference-code types x 8 status-bit sets, single callouts = 12 FRU flag sets x 16 FRU types x 4 PCE x 5 MRU x 4 '
        'location lengths x 7 priorities (quick: reduced by fixing type/priority except in their own sweep), all callout '
        'sequences of length 0..3 over 12 shapes, 9 reason codes x 2 registry configs x 3 word sets, 10 procedure names '
        'x plugins on/off. Non-trivial: callouts present or a non-default field; distinct by spec.')
ASSUMPTIONS = ['"%N" in a registry message names the N-th listed argument source']

WORDS = pelgen.SRC_DEFAULT_WORDS
FRU_FLAGSETS = [f for f in range(16) if not (f & 0x08 and f & 0x02)]
FRU_TYPES = [t << 4 for t in range(16)]
PCES = [None, {'mtm': '9105-22A', 'sn': 'PCESERIAL001', 'name': '', 'namelen': 0},
        {'mtm': 'MT', 'sn': 'S', 'name': 'pce1', 'namelen': 4}, {'mtm': '', 'sn': 'ONLYSN', 'name': 'pcename8'}]
MRUS = [None, 0, 1, 2, 15]
LOCS = [0, 4, 16, 80]
PRIOS = [0x48, 0x4D, 0x41, 0x42, 0x43, 0x4C, 0x00]
LOCTXT = 'U78DA.ND0.WZS003K-P0-C12-T3-' * 4


def mk_callout(fl, typ, pce, nmru, loclen, prio, tag=0):
    c = {'prio': prio, 'loc': LOCTXT[tag:tag + loclen], 'loclen': loclen,
         'fru': {'flags': typ | fl, 'pn': ('BMC%04d' % (tag + 1)) if fl & 2 else 'PN%05d' % tag, 'ccin': 'C%03d' % tag,
                 'sn': 'SN%010d' % tag}}
    if pce is not None:
        c['pce'] = dict(pce)
    if nmru is not None:
        c['mru'] = {'ids': [[0x48 + i, 0x01010101 * (i + 1) + tag] for i in range(nmru)]}
    return c


def seq_alphabet():
    a = []
    a.append(mk_callout(0x08, 0x10, None, None, 16, 0x48, 1))          # FRU only
    a.append(mk_callout(0x0D, 0x10, None, None, 0, 0x4D, 2))           # FRU all fields, no loc
    a.append(mk_callout(0x02, 0x40, None, None, 0, 0x4C, 3))           # procedure only
    a.append(mk_callout(0x08, 0x20, PCES[2], None, 4, 0x41, 4))        # ends with PCE
    a.append(mk_callout(0x09, 0x90, PCES[3], None, 16, 0x42, 5))       # ends with PCE (8-char name)
    a.append(mk_callout(0x08, 0x10, None, 2, 16, 0x43, 6))             # ends with MRU
    a.append(mk_callout(0x04, 0xC0, None, 0, 0, 0x48, 7))              # ends with empty MRU
    a.append(mk_callout(0x0C, 0x10, PCES[2], 1, 80, 0x4D, 8))          # FRU+PCE+MRU, long loc
    a.append(mk_callout(0x00, 0xE0, None, None, 4, 0x4C, 9))           # FRU header only
    a.append(mk_callout(0x01, 0xB0, None, 15, 0, 0x00, 10))            # 15 MRUs, invalid priority
    c = mk_callout(0x08, 0x10, None, None, 4, 0x48, 11)
    c['flags'] = 0x45                                                   # callout size 0x14.. see below
    a.append(c)
    a.append(mk_callout(0x0D, 0xA0, PCES[3], 2, 4, 0x41, 12))
    return a


SEQ = seq_alphabet()
# a callout whose first two bytes (size, flags) read 'PE': size 0x50 = 80 bytes, flags 0x45
PE_LOOKALIKE = {'prio': 0x48, 'loc': LOCTXT[:48], 'loclen': 48, 'flags': 0x45,
                'fru': {'flags': 0x1D, 'pn': 'PN-PE', 'ccin': 'PECC', 'sn': 'PESERIAL'}}
REASONS = ['1234', '2001', '2002', '2003', '3003', '4004', '9999']
TYPES = ['BD', '11', 'BC', 'B7', 'A7']
WORDSETS = [WORDS, [0, 0, 0, 0, 0, 1, 0xFFFFFFFF, 0x80000000], [0xDEADBEEF] * 8]
SENTINELS = [{'t': 'MT', 'mtm': 'SENTINEL', 'sn': 'AFTER-SRC'}, {'t': 'UD', 'comp': 0xABCD, 'sub': 4,
                                                                  'payload': bytes(range(0x70, 0x70 + 19)).hex()}]


def bounds(tier):
    return {'single_callout_product': 'full' if tier == 'thorough' else 'reduced (type and priority swept separately)',
            'callout_sequences': '0..3 over %d shapes' % len(SEQ), 'words': '8 x 19', 'flags': 256}


def plan(tier, seed):
    ch = [{'k': 'words'}, {'k': 'flags'}, {'k': 'types'}, {'k': 'registry'}, {'k': 'maint'}, {'k': 'summary'}, {'k': 'many'}, {'k': 'layout'}]
    for i in range(len(SEQ) + 1):
        ch.append({'k': 'seq', 'first': i})
    if tier == 'quick':
        for fl in FRU_FLAGSETS:
            ch.append({'k': 'single', 'fl': [fl], 'types': [0x10], 'prios': [0x48]})
        ch.append({'k': 'single_tp'})
    else:
        for fl in FRU_FLAGSETS:
            for t in range(0, 16, 4):
                ch.append({'k': 'single', 'fl': [fl], 'types': FRU_TYPES[t:t + 4], 'prios': PRIOS})
    # the same decoders with assertions stripped (python -O): callouts with every substructure, flag sets, many callouts
    ch += [{'k': 'seq', 'first': 0, 'optimize': True}, {'k': 'many', 'optimize': True}, {'k': 'single_tp', 'optimize': True},
           {'k': 'words', 'optimize': True}]
    return ch


def classify(case, msgs):
    src = case['src']
    for c in src.get('callouts') or []:
        p = c.get('pce')
        if p and p.get('namelen', 1) == 0 and not p.get('name'):
            if any('not-decoded' in m for m in msgs):
                return 'F11:pce-name-length-zero'
    if case.get('reg') and any('Error Details.Message' in m for m in msgs):
        ref = src.get('ascii', '')[4:8]
        if ref in ('2002', '2003'):
            return 'F13:registry-placeholders-filled-positionally'
    first = msgs[0]
    return 'C03:' + first.split(':')[0][:60]


def _layout_section(kind, pos):
    if kind in ('PS', 'SS'):
        words = [(w + 0x01010101 * pos) & 0xFFFFFFFF for w in pelgen.SRC_DEFAULT_WORDS]
        words[0] = pelgen.SRC_DEFAULT_WORDS[0]
        return {'t': kind, 'ascii': ('BD8D%04X' % (0x2000 + pos)).ljust(32), 'words': words,
                'callouts': [SEQ[(pos * 3 + i) % len(SEQ)] for i in range(pos % 3 + 1)]}
    if kind == 'UD':
        return {'t': 'UD', 'comp': 0xABC0 + pos, 'sub': 4, 'payload': bytes([0x70 + pos] * (4 + pos)).hex()}
    return {'t': 'MT', 'mtm': 'MT-POS-%d' % pos, 'sn': 'BETWEEN-SRC%d' % pos}


def _eval_layout(case):
    """Every primary or secondary SRC section of a log, wherever it stands: several secondary SRCs, next to each other or
    with other sections in between, each shown in its place with its own words, flags and callouts."""
    impl.ensure(False)
    secs = [_layout_section(k, pos) for pos, k in enumerate(case['layout'])]
    p = pelgen.pel_from_spec({'creator': 'O', 'sections': secs})
    r = decode.parse(pelgen.encode_pel(p))
    if r['kind'] != 'doc':
        return [{'key': 'C03:not-decoded', 'what': 'well-formed PEL gave %s %s %s' % (r['kind'], r.get('type'), r.get('msg')), 'case': case}]
    doc = r['doc']
    want = pelgen.expected_keys(p)
    msgs = []
    if list(doc.keys()) != want:
        msgs.append('keys: %r, expected %r' % (list(doc.keys()), want))
    else:
        from calloutparsers.ocallouts.ocallouts import procedures
        env = {'registry': None, 'plugins': True, 'compnames': None, 'maint': procedures}
        for sec, k in zip(secs, want[2:]):
            msgs.extend('%s: %s' % (k, x) for x in pelgen.check_entry(sec, doc[k], 'O', env))
    if msgs:
        return [{'key': 'C03:' + msgs[0].split(':')[0].rstrip(' 0123456789'), 'what': '; '.join(msgs[:3]), 'case': case}]
    return []


def eval_case(case):
    if 'layout' in case:
        return _eval_layout(case)
    reg = bool(case.get('reg'))
    impl.ensure(reg)
    creator = case.get('creator', 'O')
    plugins = case.get('plugins', True)
    src = dict(case['src'])
    src.setdefault('t', 'PS')
    secs = [src] + SENTINELS
    p = pelgen.pel_from_spec({'creator': creator, 'sections': secs})
    try:
        b = pelgen.encode_pel(p)
    except ValueError:
        return None       # callout too large for its one-byte size: not a legal SRC
    r = decode.parse(b, plugins=plugins)
    msgs = []
    if r['kind'] != 'doc':
        msgs.append('not-decoded: well-formed PEL gave %s %s %s' % (r['kind'], r.get('type'), r.get('msg')))
    else:
        doc = r['doc']
        want = pelgen.expected_keys(p)
        if list(doc.keys()) != want:
            msgs.append('keys: %r, expected %r' % (list(doc.keys()), want))
        else:
            env = {'registry': impl.registry_entries() if reg else None, 'plugins': plugins,
                   'compnames': impl.compnames() if reg else None}
            if creator == 'O' and plugins:
                from calloutparsers.ocallouts.ocallouts import procedures
                env['maint'] = procedures
            msgs.extend('%s: %s' % (want[2], x) for x in pelgen.check_src(src, doc[want[2]], creator, env))
            for s, k in zip(secs[1:], want[3:]):
                msgs.extend('sentinel %s: %s' % (k, x) for x in pelgen.check_entry(s, doc[k], creator, env))
            if r['index'] != len(b):
                msgs.append('cursor: %d of %d' % (r['index'], len(b)))
            if not plugins:
                for c in (doc[want[2]].get('Callout Section') or {}).get('Callouts', []):
                    if 'Description' in c:
                        msgs.append('Description shown although parser plugins are disabled')
    if msgs:
        return [{'key': classify(case, msgs), 'what': '; '.join(msgs[:3]), 'case': case}]
    return []


def _do(res, src, nontrivial=True, every=401, **kw):
    case = dict(kw, src=src)
    core.arm()
    vs = eval_case(case)
    core.disarm()
    if vs is None:
        res.bump('skipped_oversize_callout')
        return
    res.case(nontrivial_key=json.dumps(case, sort_keys=True) if nontrivial else None,
             outcome=vs[0]['key'] if vs else 'ok', sample=case if res.evals % every == 1 else None)
    res.add(vs)


def run_chunk(chunk):
    routed = subchunk.route(__name__, chunk)
    if routed is not None:
        return routed
    res = ChunkResult()
    k = chunk['k']
    if k == 'layout':
        for n in (1, 2, 3, 4):
            for tail in itertools.product(['SS', 'UD', 'MT'], repeat=n):
                if tail.count('SS') < 1:
                    continue
                for first in (['PS'], []):
                    case = {'layout': first + list(tail)}
                    core.arm()
                    vs = eval_case(case)
                    core.disarm()
                    res.case(nontrivial_key=json.dumps(case), outcome=vs[0]['key'] if vs else 'ok', sample=case if res.evals % 37 == 1 else None)
                    res.add(vs)
        return res
    if k == 'words':
        for t in ('PS', 'SS'):
            for typ in ('BD8D', 'BC8A', 'B700'):
                for i in range(8):
                    for v in [0, 1, 0xF, 0x10, 0x7F, 0x80, 0xFF, 0x100, 0x7FFF, 0x8000, 0xFFFF, 0x10000, 0x0FFFFFFF,
                              0x10000000, 0x7FFFFFFF, 0x80000000, 0xFFFFFFFF, 0x01020304, 0xA1B2C3D4]:
                        w = list(WORDS)
                        w[i] = v
                        _do(res, {'t': t, 'words': w, 'ascii': (typ + '1234').ljust(32)})
    elif k == 'flags':
        for fl in range(256):
            for wc in (9, 3):
                src = {'flags': fl & 0xFE, 'wc': wc, 'srcver': fl ^ 0x5A}
                if fl & 1:
                    src['callouts'] = [SEQ[fl % len(SEQ)]]
                _do(res, src)
        for wc in range(1, 10):
            for t in ('PS', 'SS'):
                _do(res, {'t': t, 'wc': wc, 'callouts': [SEQ[wc]]})
                _do(res, {'t': t, 'wc': wc})
    elif k == 'types':
        for typ in TYPES:
            for bits in range(8):
                w = list(WORDS)
                w[3] = (0x20000000 if bits & 4 else 0) | (0x02000000 if bits & 2 else 0) | (0x01000000 if bits & 1 else 0) \
                    | 0x00C00004
                for creator in ('O', 'B', 'H'):
                    _do(res, {'words': w, 'ascii': (typ + '8D1234').ljust(32)}, creator=creator)
                w2 = list(w)
                w2[3] ^= 0xDC3FFFFB   # every other bit flipped: status bits must not leak from neighbours
                _do(res, {'words': w2, 'ascii': (typ + '8D1234').ljust(32)})
        for ascii_ in ('BD8D1234', 'BD8D1234' + ' ' * 8 + 'TAIL', 'X', 'BD8D1234'.ljust(32, '\0')[:31] + ' '):
            _do(res, {'ascii': ascii_.ljust(32)})
    elif k == 'registry':
        for reg in (False, True):
            for typ in ('BD', '11', 'BC', 'B7'):
                for reason in REASONS:
                    for ws in WORDSETS:
                        _do(res, {'words': ws, 'ascii': (typ + '8D' + reason).ljust(32)}, reg=reg)
                        _do(res, {'t': 'SS', 'words': ws, 'ascii': (typ + '8D' + reason).ljust(32),
                                  'callouts': [SEQ[0]]}, reg=reg)
        impl.ensure(False)
    elif k == 'maint':
        names = ['BMC%04d' % i for i in range(0, 10)] + ['bmc0001', 'NOPE']
        for name in names:
            for plugins in (True, False):
                for creator in ('O', 'B'):
                    c = mk_callout(0x02, 0x40, None, None, 0, 0x4D, 0)
                    c['fru']['pn'] = name
                    _do(res, {'callouts': [c, SEQ[0]]}, plugins=plugins, creator=creator)
                    _do(res, {'callouts': [SEQ[5], c]}, plugins=plugins, creator=creator)
    elif k == 'many':
        # callout subsections on both sides of the 255-word / 1 KiB and the 16 KiB marks
        big = mk_callout(0x0D, 0x10, PCES[3], 15, 80, 0x48, 20)
        for n in (4, 5, 6, 7, 8, 10, 12, 16, 32, 64, 100, 200):
            for t in ('PS', 'SS'):
                _do(res, {'t': t, 'callouts': [SEQ[i % len(SEQ)] for i in range(n)]})
                if n <= 64:
                    cs = []
                    for i in range(n):
                        c = json.loads(json.dumps(big))
                        c['loc'] = (LOCTXT * 2)[i:i + 80]
                        c['fru']['sn'] = 'SN%010d' % i
                        cs.append(c)
                    _do(res, {'t': t, 'callouts': cs})
    elif k == 'summary':
        _summary(res)
    elif k == 'seq':
        alpha = SEQ + [PE_LOOKALIKE]
        if chunk['first'] == len(SEQ):
            _do(res, {'callouts': []})
            for a in alpha:
                _do(res, {'callouts': [a]})
                _do(res, {'t': 'SS', 'callouts': [a]})
            for a in alpha:
                _do(res, {'callouts': [a, PE_LOOKALIKE]})
                _do(res, {'callouts': [PE_LOOKALIKE, a]})
        else:
            a = SEQ[chunk['first']]
            for b in SEQ:
                _do(res, {'callouts': [a, b]})
                for c in SEQ:
                    _do(res, {'callouts': [a, b, c]})
    elif k == 'single':
        for fl in chunk['fl']:
            for typ in chunk['types']:
                for prio in chunk['prios']:
                    for pi, pce in enumerate(PCES):
                        for nm in MRUS:
                            for ll in LOCS:
                                _do(res, {'callouts': [mk_callout(fl, typ, pce, nm, ll, prio, fl + pi)]}, every=997)
    elif k == 'single_tp':
        for typ in FRU_TYPES:
            for prio in PRIOS + [0x49, 0xFF]:
                for fl in (0x08, 0x02, 0x0D):
                    _do(res, {'callouts': [mk_callout(fl, typ, PCES[2], 1, 4, prio, 3)]})
    return res


def _summary(res):
    """peltool list-mode summary: 'SRC' and 'Message' of the primary SRC (observe_at #2)."""
    for reg in (False, True):
        pt = impl.ensure(reg)
        from pel.datastream import DataStream
        for typ in ('BD', '11', 'BC'):
            for reason in REASONS:
                src = {'t': 'PS', 'ascii': (typ + '8D' + reason).ljust(32), 'words': WORDSETS[1]}
                for lead in ([], [SENTINELS[1]]):
                    p = pelgen.pel_from_spec({'sections': lead + [src, SENTINELS[0]]})
                    b = pelgen.encode_pel(p)
                    cfg = decode.config()
                    case = {'summary': True, 'src': src, 'reg': reg, 'lead': len(lead)}
                    core.arm()
                    try:
                        eid, summ = pt.parsePELSummary(DataStream(b, byte_order='big', is_signed=False), cfg)
                        err = None
                    except Exception as e:
                        eid, summ, err = None, None, repr(e)
                    core.disarm()
                    msgs = []
                    if err or not isinstance(summ, dict):
                        msgs.append('summary failed: %s' % err)
                    else:
                        if summ.get('SRC') != (typ + '8D' + reason):
                            msgs.append('summary SRC %r, encoded %r' % (summ.get('SRC'), typ + '8D' + reason))
                        want = pelgen.registry_expect(impl.registry_entries(), reason, typ, WORDSETS[1]) if reg else None
                        if want and summ.get('Message') != want['Message']:
                            msgs.append('summary Message %r, expected %r' % (summ.get('Message'), want['Message']))
                        if not want and 'Message' in summ:
                            msgs.append('summary Message %r shown without registry entry' % summ.get('Message'))
                    res.case(nontrivial_key=json.dumps(case, sort_keys=True), outcome='summary:' + ('bad' if msgs else 'ok'))
                    if msgs:
                        key = 'F13:registry-placeholders-filled-positionally' if reason in ('2002', '2003') and \
                            all('Message' in m for m in msgs) else 'C03:summary'
                        res.violation(key, '; '.join(msgs), case)
    impl.ensure(False)
