"""C19 - decoding a PEL gives the same result whatever was decoded before (E2: explicit-state search over decode histories)."""
import collections
import itertools
import json
from mc import strictjson
import os
import shutil
import tempfile

from mc import core, pelgen, decode, impl, imphook, statefp, clidrv, subchunk
from mc.core import ChunkResult

PROPERTY = 'C19'
LEVEL = 'model_checking'
ENGINE = 'E2'
TECHNIQUE = ('explicit-state breadth-first search over decode histories on the real decoder: a state is the canonical '
             'fingerprint of every module-level mutable object of the repository\'s packages (parser caches, registries, class '
             'attributes, mutable defaults, functools caches, loaded plug-in modules), a transition decodes one PEL of a 30-PEL '
             'x {plug-ins on, off} event alphabet; each state is rebuilt by restoring the pristine module state (verified by '
             'fingerprint and against a separate interpreter) and replaying its shortest history; every transition\'s document is compared with the fresh-interpreter document; all event sequences '
             'of length 2 (thorough 3) additionally run without state merging')
LEVEL_TEXT = ('History independence is a reachability question over the decoder\'s hidden state, so the check enumerates that '
              'state space: from every distinct fingerprint every event is fired, to a fix-point or the depth bound, and each '
              'produced document must equal the one a separate fresh interpreter produces for the same PEL and options. The '
              'fingerprint is generic (everything mutable at module/class scope), so state hoisted there by a change joins the '
              'search automatically; the un-merged depth-2 pass guards against state the fingerprint cannot see. Directory '
              'modes (-a, -a -r, -l) are compared with per-file decodes.')
LEVEL_NOTE = ('depth bound 2 (quick) / 4 (thorough) beyond which only fingerprint-distinct states are extended; state kept '
              'outside the repository\'s modules (e.g. in the interpreter) is covered only by the un-merged depth-2 pass')
RULE = ('events = 38 PELs (with the fixture message registry loaded; built-in JSON, fixture parser ok / raising / ImportError in call / None / absent module, callouts '
        'module ok / raising, SRC parser ok / raising, two-target LP, PEL truncated mid-SRC / mid-LP, BMC PEL with shipped '
        'parsers, I/O-drawer PEL, hw-diags PEL) x plug-ins {on, off}; BFS over fingerprints from each first event; plus all '
        'event sequences of length 2 (thorough 3) without merging; plus 3 directory runs. Non-trivial: a transition taken from a non-initial '
        'state; distinct by (state fingerprint, event).')
ASSUMPTIONS = ['a state is the set of module-level/class-level mutable objects of pel.*, io_drawer.*, udparsers.*, srcparsers.*, '
               'calloutparsers.* plus which plug-in modules are loaded']

BEHAVIOUR = {'udparsers.b1111.b1111': 'by-payload', 'calloutparsers.bcallouts.bcallouts': 'by-payload',
             'srcparsers.bsrc.bsrc': 'by-payload', 'udparsers.b4444.b4444': 'obj',
             'udparsers.b5555.b5555': 'import-missing-dependency', 'udparsers.b6666.b6666': 'import-raises'}


def _ud(sel, tag):
    return {'t': 'UD', 'comp': 0x1111, 'sub': 1, 'ver': 1, 'payload': (bytes([sel]) + bytes([tag]) * 6).hex()}


def _proc(name):
    return {'prio': 0x4D, 'loc': 'U1-P1', 'fru': {'flags': 0x42, 'pn': name}}


def _src(w9low, callouts=None, ascii_='BC8A1234'):
    w = list(pelgen.SRC_DEFAULT_WORDS)
    w[7] = 0x11223300 | w9low
    d = {'t': 'PS', 'ascii': ascii_.ljust(32), 'words': w}
    if callouts is not None:
        d['callouts'] = callouts
    return d


def pel_specs():
    full = pelgen.pel_from_spec({'creator': 'B', 'eid': 0x500000B1, 'sections': [_src(0, [_proc('OKPROC1'), pelgen.CALLOUT_FULL]),
                                                                                  {'t': 'LP', 'name': 'lp', 'targets': [1, 2]}]})
    full_bytes = pelgen.encode_pel(full)
    offs = pelgen.section_offsets(full)
    specs = collections.OrderedDict()
    specs['bmc_json'] = {'creator': 'O', 'eid': 0x50000001, 'sections': [{'t': 'PS'}, {'t': 'UD', 'comp': 0x2000, 'sub': 1, 'payload': pelgen.json_payload({'k': 'v1'})}]}
    specs['ud_ok'] = {'creator': 'B', 'eid': 0x50000002, 'sections': [_ud(0, 0xA1), _ud(0, 0xA2)]}
    specs['ud_raise'] = {'creator': 'B', 'eid': 0x50000003, 'sections': [_ud(1, 0xB1), _ud(0, 0xB2)]}
    specs['ud_importerror'] = {'creator': 'B', 'eid': 0x50000004, 'sections': [_ud(2, 0xC1), _ud(0, 0xC2)]}
    specs['ud_none'] = {'creator': 'B', 'eid': 0x50000005, 'sections': [_ud(3, 0xD1), _ud(4, 0xD2)]}
    specs['ud_absent'] = {'creator': 'B', 'eid': 0x50000006, 'sections': [{'t': 'UD', 'comp': 0x3333, 'payload': 'e1e2e3'}]}
    specs['ud_other_mod'] = {'creator': 'B', 'eid': 0x50000007, 'sections': [{'t': 'UD', 'comp': 0x4444, 'payload': 'f1f2'}]}
    specs['co_ok'] = {'creator': 'B', 'eid': 0x50000008, 'sections': [_src(0, [_proc('OKPROC1'), _proc('OKPROC2')], 'B7001111')]}
    specs['co_raise'] = {'creator': 'B', 'eid': 0x50000009, 'sections': [_src(0, [_proc('RAISE01'), _proc('OKPROC3')], 'B7002222')]}
    specs['co_importerror'] = {'creator': 'B', 'eid': 0x50000024, 'sections': [_src(0, [_proc('IMPERR1'), _proc('OKPROC5')], 'B7005555')]}
    specs['co_none'] = {'creator': 'B', 'eid': 0x5000000A, 'sections': [_src(0, [_proc('NONE001'), _proc('OKPROC4')], 'B7003333')]}
    mru1 = {'prio': 0x48, 'loc': 'U1', 'fru': {'flags': 0x18, 'pn': 'PN-MRU1'}, 'mru': {'ids': [[0x48, 0x11110001], [0x4C, 0x11110002]]}}
    mru2 = {'prio': 0x4D, 'loc': '', 'fru': {'flags': 0x18, 'pn': 'PN-MRU2'}, 'mru': {'ids': [[0x48, 0x22220001]]},
            'pce': {'mtm': '9105-22A', 'sn': 'PCE2', 'name': 'pce2'}}
    specs['src_ok'] = {'creator': 'B', 'eid': 0x5000000B, 'sections': [_src(0, [mru1])]}
    specs['src_raise'] = {'creator': 'B', 'eid': 0x5000000C, 'sections': [_src(1), dict(_src(0), t='SS')]}
    specs['src_importerror'] = {'creator': 'B', 'eid': 0x5000000D, 'sections': [_src(2)]}
    specs['lp2'] = {'creator': 'H', 'eid': 0x5000000E, 'sections': [{'t': 'LP', 'name': 'lparname', 'targets': [0x0A0B, 0x0C0D]},
                                                                  {'t': 'LP', 'name': '', 'targets': [0x0E0F]}]}
    specs['bmc_shipped'] = {'creator': 'O', 'eid': 0x5000000F, 'sections': [
        {'t': 'PS', 'ascii': 'BD8DE510'.ljust(32), 'callouts': [{'prio': 0x48, 'loc': '', 'fru': {'flags': 0x42, 'pn': 'BMC0002'}}]},
        {'t': 'UD', 'comp': 0xE500, 'sub': 1, 'payload': ((1).to_bytes(4, 'big') + bytes(range(12))).hex()},
        {'t': 'UD', 'comp': 0xE500, 'sub': 99, 'payload': 'abcd'}]}
    specs['iodrawer'] = {'creator': 'M', 'eid': 0x50000010, 'sections': [
        {'t': 'UD', 'comp': 0x2C00, 'sub': 73, 'ver': 1, 'payload': '8ADF0F19010000DE'},
        {'t': 'UD', 'comp': 0x2C00, 'sub': 72, 'ver': 9, 'payload': '0102'}]}
    # I/O drawer logs whose PTEs match several entries of the (shared, shipped) table: the last one of the first log hits the
    # wildcard entry EA0884**, the first one of the second log has an exact entry EA088403 ahead of that wildcard; the
    # third repeats both in one log and adds a trace / a history log decoded with the shared string file / field table
    specs['iodrawer_wild'] = {'creator': 'M', 'eid': 0x50000025, 'sections': [
        {'t': 'UD', 'comp': 0x2C00, 'sub': 73, 'ver': 1, 'payload': '000100020100000000020003EA088410'}]}
    specs['iodrawer_exact'] = {'creator': 'M', 'eid': 0x50000026, 'sections': [
        {'t': 'UD', 'comp': 0x2C00, 'sub': 73, 'ver': 1, 'payload': '00030004EA0884030004000515BC0102'}]}
    specs['iodrawer_mixed'] = {'creator': 'M', 'eid': 0x50000027, 'sections': [
        {'t': 'UD', 'comp': 0x2C00, 'sub': 73, 'ver': 2, 'payload': '00050006EA08841000060007EA088403'},
        {'t': 'UD', 'comp': 0x2C00, 'sub': 73, 'ver': 2, 'payload': '00070008EA088403'},
        {'t': 'UD', 'comp': 0x2C00, 'sub': 72, 'ver': 1, 'payload': '0102030405060708090a'},
        {'t': 'ED', 'creator': 'M', 'comp': 0x2C00, 'sub': 73, 'ver': 1, 'payload': '00080009EA088403'}]}
    # SRCs that declare fewer than nine valid words and go to a parser that shows the words it is handed (the shipped
    # hardware-diagnostics parser prints words 6..8): the words beyond the count are zeroes, whatever was decoded before
    specs['o_e5_wc5'] = {'creator': 'O', 'eid': 0x50000028, 'sections': [
        {'t': 'PS', 'ascii': 'BD8DE511'.ljust(32), 'wc': 5, 'words': [0x020000E0, 0x2A0B0003, 0x00000030, 0x00C00004, 0x20DA0020, 0x0007BEEF, 0x03050001, 0x12345678]}]}
    specs['o_e5_wc2'] = {'creator': 'O', 'eid': 0x50000029, 'sections': [
        {'t': 'PS', 'ascii': 'BD8DE512'.ljust(32), 'wc': 2, 'words': [0x020000E0, 0x11111111, 0x22222222, 0x33333333, 0x44444444, 0x55555555, 0x66666666, 0x77777777]},
        {'t': 'SS', 'ascii': 'BD8DE513'.ljust(32), 'wc': 7}]}
    # pairs that share one component of a parser-cache key but differ in another (creator vs component vs code type)
    specs['o_bc_e5'] = {'creator': 'O', 'eid': 0x50000011, 'sections': [{'t': 'PS', 'ascii': 'BC8AE510'.ljust(32)}]}
    specs['o_bd_2a'] = {'creator': 'O', 'eid': 0x50000012, 'sections': [{'t': 'PS', 'ascii': 'BD2A1234'.ljust(32), 'callouts': [mru2]},
                                                                 {'t': 'EH'}, {'t': 'MT'}, {'t': 'UD', 'comp': 0x2000, 'sub': 3, 'payload': b'text\nlines'.hex()}]}
    specs['o_bc_2a'] = {'creator': 'O', 'eid': 0x50000013, 'sections': [{'t': 'PS', 'ascii': 'BC2A1234'.ljust(32)}]}
    specs['o_ud_2c00'] = {'creator': 'O', 'eid': 0x50000014, 'sections': [
        {'t': 'UD', 'comp': 0x2C00, 'sub': 72, 'ver': 1, 'payload': '0102030405'},
        {'t': 'ED', 'creator': 'M', 'comp': 0x2C00, 'sub': 72, 'ver': 1, 'payload': '0102030405'}]}
    specs['x_ud_1111'] = {'creator': 'x', 'eid': 0x50000015, 'sections': [
        dict(_ud(0, 0xE1)), {'t': 'ED', 'creator': 'B', 'comp': 0x1111, 'sub': 1, 'ver': 1, 'payload': '00e2e2e2'},
        {'t': 'PS', 'ascii': 'B7004444'.ljust(32), 'callouts': [_proc('OKPROC9')]}]}
    specs['b_ud_e500'] = {'creator': 'B', 'eid': 0x50000016, 'sections': [
        {'t': 'UD', 'comp': 0xE500, 'sub': 1, 'payload': ((1).to_bytes(4, 'big') + bytes(range(12))).hex()},
        {'t': 'UD', 'comp': 0x2000, 'sub': 1, 'payload': pelgen.json_payload({'k': 'not builtin for B'})}]}
    # the same numeric component id under creators that display it differently (PHYP: two ASCII characters)
    specs['phyp_ascii'] = {'creator': 'H', 'eid': 0x50000018, 'comp': 0x4142, 'uh': {'comp': 0x4344},
                           'sections': [{'t': 'PS', 'comp': 0x4546}, {'t': 'MT', 'comp': 0x4142}]}
    specs['o_same_comp'] = {'creator': 'O', 'eid': 0x50000019, 'comp': 0x4344, 'uh': {'comp': 0x4142},
                            'sections': [{'t': 'PS', 'comp': 0x4142}, {'t': 'UD', 'comp': 0x4546, 'payload': '0a0b'}]}
    # PELs that only a --severities option selects (informational, not reportable)
    specs['info_a'] = {'creator': 'O', 'eid': 0x5000001A, 'uh': {'sev': 0x00, 'flags': 0x0000}, 'sections': [{'t': 'PS', 'ascii': 'BD8D0A0A'.ljust(32)}]}
    specs['info_b'] = {'creator': 'B', 'eid': 0x5000001B, 'uh': {'sev': 0x10, 'flags': 0x0000}, 'sections': [{'t': 'PS', 'ascii': 'BC8A0B0B'.ljust(32)}]}
    specs['info_c'] = {'creator': 'O', 'eid': 0x5000001C, 'uh': {'sev': 0x00, 'flags': 0x4000}, 'sections': [{'t': 'MT'}]}
    # shipped plug-ins that raise on their payload (too few signatures for the count; unknown drawer version)
    specs['hw_raise'] = {'creator': 'O', 'eid': 0x50000017, 'sections': [
        {'t': 'UD', 'comp': 0xE500, 'sub': 1, 'payload': ((5).to_bytes(4, 'big') + bytes(range(12))).hex()},
        {'t': 'UD', 'comp': 0xE500, 'sub': 2, 'payload': ((1).to_bytes(4, 'big') + bytes(range(9))).hex()},
        {'t': 'ED', 'creator': 'M', 'comp': 0x2C00, 'sub': 84, 'ver': 7, 'payload': '0102030405060708'}]}
    # parser modules that are installed but fail while being loaded (every consultation must fail the same way), and
    # built-in formats fed bytes they cannot decode
    specs['ud_loadfail'] = {'creator': 'B', 'eid': 0x5000001D, 'sections': [
        {'t': 'UD', 'comp': 0x5555, 'payload': 'a1a2'}, _ud(0, 0xA3), {'t': 'UD', 'comp': 0x5555, 'payload': 'a4'}]}
    specs['ud_import_raises'] = {'creator': 'B', 'eid': 0x5000001E, 'sections': [
        {'t': 'ED', 'creator': 'B', 'comp': 0x6666, 'payload': 'b1b2'}, {'t': 'UD', 'comp': 0x6666, 'payload': 'b3'}]}
    specs['bmc_undecodable'] = {'creator': 'O', 'eid': 0x5000001F, 'sections': [
        {'t': 'UD', 'comp': 0x2000, 'sub': 1, 'payload': b'{"a": "caf\xe9"}\0\0'.hex()},
        {'t': 'UD', 'comp': 0x2000, 'sub': 3, 'payload': b'  two\nlines \xff\n'.hex()},
        {'t': 'UD', 'comp': 0x2000, 'sub': 1, 'payload': b'{"v": 1e999}'.hex()},
        {'t': 'LP', 'name': 'lpar5', 'targets': [1]}]}
    # built-in text whose last character is cut off in the middle of its UTF-8 sequence (no padding behind it): the lost
    # bytes belong to this section of this log, whatever text is decoded next (o_bd_2a, bmc_undecodable, this log again)
    specs['bmc_text_cut'] = {'creator': 'O', 'eid': 0x5000002A, 'sections': [
        {'t': 'UD', 'comp': 0x2000, 'sub': 3, 'payload': b'fan 3 at 80 \xe2\x82'.hex()}, {'t': 'MT'},
        {'t': 'UD', 'comp': 0x2000, 'sub': 3, 'payload': b'\xac trailing\nline \xf0\x9f'.hex()}]}
    # reference codes with an entry in the message registry (error details, hex-word descriptions), twice the same reason code
    regw = list(pelgen.SRC_DEFAULT_WORDS)
    specs['reg_2001_a'] = {'creator': 'O', 'eid': 0x50000020, 'sections': [{'t': 'PS', 'ascii': 'BD8D2001'.ljust(32), 'words': regw}]}
    specs['reg_2001_b'] = {'creator': 'B', 'eid': 0x50000021, 'sections': [
        {'t': 'PS', 'ascii': 'BD602001'.ljust(32), 'words': [w ^ 0x01010101 for w in regw]}, {'t': 'MT'}]}
    specs['reg_3003_power'] = {'creator': 'O', 'eid': 0x50000022, 'sections': [{'t': 'PS', 'ascii': '11003003'.ljust(32), 'words': regw}]}
    specs['reg_2003'] = {'creator': 'O', 'eid': 0x50000023, 'sections': [{'t': 'PS', 'ascii': 'BD8D2003'.ljust(32), 'words': regw},
                                                                     {'t': 'SS', 'ascii': 'BD8D2001'.ljust(32), 'words': regw}]}
    raw = collections.OrderedDict()
    for k, s in specs.items():
        raw[k] = pelgen.encode_pel(pelgen.pel_from_spec(s))
    raw['trunc_mid_src'] = full_bytes[:offs[2][0] + 120]
    raw['trunc_mid_lp'] = full_bytes[:offs[3][0] + 18]
    return raw


PELS = pel_specs()
NAMES = list(PELS)
EVENTS = [(n, True) for n in NAMES] + [(n, False) for n in NAMES]


def bounds(tier):
    return {'events': len(EVENTS), 'depth': 2 if tier == 'quick' else 4, 'unmerged_sequence_length': 2 if tier == 'quick' else 3}


def plan(tier, seed):
    ch = [{'k': 'bfs', 'first': i, 'depth': 2 if tier == 'quick' else 4} for i in range(len(EVENTS))]
    for i in range(len(EVENTS)):
        ch.append({'k': 'pairs', 'first': i, 'depth': 2 if tier == 'quick' else 3})
    ch.append({'k': 'dir'})
    ch.append({'k': 'fresh_process'})
    # the same under python -O (assertions stripped, __debug__ false)
    ch += [dict(c, optimize=True) for c in [{'k': 'dir'}, {'k': 'bfs', 'first': 0, 'depth': 2}]]
    return ch


_pristine = {}


def reset(hard=False):
    """Back to the state of freshly imported modules.  The first call (and hard=True) really purges and re-imports; later
    calls restore the captured module-level state in place, and the fingerprint must then equal the pristine one."""
    if hard or 'snap' not in _pristine:
        # with the fixture message registry and component-id tables: they are module-level data shared by every decode
        impl.fresh(True)
        impl._current['registry'] = True
        imphook.install(serve_all=False, behaviour=BEHAVIOUR)
        _pristine['snap'] = statefp.Snapshot()
        _pristine['fp'] = statefp.fingerprint()
        _pristine['n'] = 0
        return
    _pristine['snap'].restore()
    imphook.install(serve_all=False, behaviour=BEHAVIOUR)
    _pristine['n'] += 1
    if _pristine['n'] % 64 == 1 and statefp.fingerprint() != _pristine['fp']:
        raise RuntimeError('state restore did not reach the pristine fingerprint: %s' % (
            sorted(set(statefp.snapshot()) ^ set(_pristine.get('lines', [])))[:6],))


def observe(ev):
    name, plugins = EVENTS[ev] if isinstance(ev, int) else ev
    r = decode.parse(PELS[name], plugins=plugins)
    if r['kind'] == 'doc':
        return ['doc', r['text']]
    if r['kind'] == 'exc':
        return ['exc', r['type']]
    return [r['kind'], '']


_ref = {}


def reference(ev, hard=False):
    """Observation for event `ev` from freshly imported (hard) / restored-to-pristine modules."""
    if ev not in _ref:
        reset(hard=hard)
        _ref[ev] = observe(ev)
    return _ref[ev]


def classify(hist, ev):
    names = [EVENTS[h][0] for h in hist]
    target = EVENTS[ev][0]
    if any(n in ('co_raise',) for n in names) and target.startswith('co_'):
        return 'F10:callouts-module-disabled-after-one-failure'
    if 'co_raise' in names and target in ('trunc_mid_lp', 'trunc_mid_src'):
        return 'F10:callouts-module-disabled-after-one-failure'
    return 'C19:history-dependent-output'


def explain(a, b):
    if a[0] != b[0]:
        return 'outcome %s vs fresh %s' % (a, b if b[0] != 'doc' else 'doc')
    if a[0] == 'doc':
        la, lb = a[1].split('\n'), b[1].split('\n')
        for i, (x, y) in enumerate(zip(la, lb)):
            if x != y:
                return 'line %d: %r vs fresh %r' % (i, x.strip(), y.strip())
        return 'length %d vs fresh %d lines' % (len(la), len(lb))
    return '%s vs fresh %s' % (a, b)


def eval_case(case):
    if case.get('k') == 'dir':
        return _dir_case(case)
    hist, ev = case['history'], case['event']
    want = reference(ev)
    reset()
    for h in hist:
        observe(h)
    got = observe(ev)
    imphook.uninstall()
    if got != want:
        return [{'key': classify(hist, ev), 'what': 'after history %s, event %s: %s' % (
            [('%s%s' % (EVENTS[h][0], '' if EVENTS[h][1] else '/noplugins')) for h in hist],
            '%s%s' % (EVENTS[ev][0], '' if EVENTS[ev][1] else '/noplugins'), explain(got, want)), 'case': case}]
    return []


def _empty():
    return {'trans': 0, 'nontrivial': 0, 'viol': [], 'states': [], 'outcomes': [], 'samples': [], 'cut': 0}


def _merge(a, b):
    a['trans'] += b['trans']
    a['nontrivial'] += b['nontrivial']
    a['viol'] += b['viol'][:max(0, 30 - len(a['viol']))]
    a['states'] = sorted(set(a['states']) | set(b['states']))
    a['outcomes'] = sorted(set(a['outcomes']) | set(b['outcomes']))
    a['samples'] = (a['samples'] + b['samples'])[:3]
    a['cut'] += b['cut']


def _fire(ev, hist, refs):
    before = statefp.process_state()
    got = observe(ev)
    after = statefp.process_state()
    r = _empty()
    if after != before:
        r['viol'].append({'key': 'C19:process-state-changed', 'what': 'decoding %s left interpreter-wide state changed: %s' % (
            EVENTS[ev], [x for x in after if x not in before]), 'case': {'history': hist, 'event': ev}})
    r['trans'] = 1
    r['nontrivial'] = 1 if hist else 0
    r['outcomes'] = ['same:' + got[0] if got == refs[ev] else 'differs']
    if got != refs[ev]:
        r['viol'].append({'key': classify(hist, ev), 'what': 'after history %s, event %s: %s' % (
            [EVENTS[h] for h in hist], EVENTS[ev], explain(got, refs[ev])), 'case': {'history': hist, 'event': ev}})
    return r


def _goto(hist):
    reset()
    for h in hist:
        observe(h)


def _explore(first, depth, refs, merge_states, init_fp):
    """Breadth-first over histories starting with `first`.  A state is rebuilt by restoring the pristine module state and
    replaying its (shortest) history; with merging, only fingerprint-new states are extended."""
    total = _empty()
    seen = {init_fp}
    frontier = collections.deque([[]])
    while frontier:
        hist = frontier.popleft()
        events = [first] if not hist else range(len(EVENTS))
        for ev in events:
            core.arm(60)
            _goto(hist)
            r = _fire(ev, hist, refs)
            fp = statefp.fingerprint() if merge_states else None
            core.disarm()
            if merge_states:
                r['states'] = [fp]
            if (len(hist) * 7 + ev) % 29 == 0 and not total['samples']:
                r['samples'].append({'history': [list(EVENTS[h]) for h in hist], 'event': list(EVENTS[ev]), 'state_after': fp})
            _merge(total, r)
            new = (fp not in seen) if merge_states else True
            if merge_states:
                seen.add(fp)
            if new:
                if len(hist) + 1 < depth:
                    frontier.append(hist + [ev])
                elif merge_states:
                    total['cut'] += 1
    return total


def run_chunk(chunk):
    res = ChunkResult()
    k = chunk['k']
    if k == 'dir':
        for case in ({'k': 'dir', 'args': ['-a', '-E']}, {'k': 'dir', 'args': ['-a', '-E', '-r']}, {'k': 'dir', 'args': ['-a', '-E', '-P']},
                     {'k': 'dir', 'args': ['-l', '-E']}, {'k': 'dir', 'args': ['-l', '-E', '-r']},
                     {'k': 'dir', 'args': ['-a', '-S', 'Informational', 'Recovered']},
                     {'k': 'dir', 'args': ['-a', '-r', '-S', 'Informational', 'Recovered']},
                     {'k': 'dir', 'args': ['-a', '-O', '-H', '-S', 'Informational']}, {'k': 'dir', 'args': ['-l', '-r', '-S', 'Recovered', 'Informational']}):
            core.arm(120)
            vs = _dir_case(case)
            core.disarm()
            res.case(nontrivial_key=json.dumps(case), outcome=vs[0]['key'] if vs else 'ok:dir', sample=case)
            res.add(vs)
        res.extra['transitions'] = 5 * len(NAMES)
        return res
    if k == 'fresh_process':
        return _fresh_process(res)
    reset(hard=True)
    refs = []
    for e in range(len(EVENTS)):
        reset()
        refs.append(observe(e))                # fresh-state observation of every event
    reset()
    init_fp = statefp.fingerprint()
    first = chunk['first']
    merge = (k == 'bfs')
    depth = chunk['depth']                     # 'pairs': every event sequence of that length, no state merging
    out = _explore(first, depth, refs, merge, init_fp)
    res.evals += out['trans']
    res.nontrivial_count += out['nontrivial']
    res.outcomes.update(out['outcomes'])
    res.samples.extend(out['samples'][:2])
    for v in out['viol']:
        res.violation(v['key'], v['what'], v['case'])
    res.extra['transitions'] = out['trans']
    if merge:
        res.extra['states_list'] = sorted(set(out['states']) | {init_fp})
        res.extra['bfs_frontier_states_not_extended'] = out['cut']
        res.extra['bfs_chunks'] = 1
    else:
        res.extra['unmerged_histories'] = out['trans']
    imphook.uninstall()
    return res


def finish(tier, seed, agg):
    states = agg.extra.pop('states_list', [])
    agg.extra.pop('bfs_chunks', 0)
    cut = agg.extra.get('bfs_frontier_states_not_extended', 0)
    return {'states': len(set(states)), 'fixpoint_reached': cut == 0, 'max_depth': bounds(tier)['depth']}


def _dir_case(case):
    """-a / -l over a directory holding every event PEL == the per-file fresh decodes, in the order listed."""
    out = []
    d = tempfile.mkdtemp(prefix='c19_', dir=clidrv.scratch_root())
    try:
        for i, n in enumerate(NAMES):
            with open(os.path.join(d, 'f%02d_%s' % (i, n)), 'wb') as f:
                f.write(PELS[n])
        plugins = '-P' not in case['args']
        want = []
        from mc.ref import select as rsel
        a = case['args']
        groups = [rsel.GROUP_DIGIT[g] for g in a if g in rsel.GROUP_DIGIT]
        for n in NAMES:
            ref = reference((n, plugins))
            if ref[0] == 'doc':
                docj = strictjson.loads(ref[1])
                uhb = PELS[n][48 + 10], int.from_bytes(PELS[n][48 + 18:48 + 20], 'big')     # severity byte, action flags
                if rsel.selected(uhb[0], uhb[1], every='-E' in a, s='-s' in a, N='-N' in a, H='-H' in a, t='-t' in a,
                                 only='-O' in a, groups=groups):
                    want.append(docj)
        if '-r' in case['args']:
            want.reverse()
        reset()
        r = clidrv.run_main(['-p', d] + case['args'])
        imphook.uninstall()
        try:
            got = strictjson.loads(r.stdout)
        except Exception as e:
            return [{'key': 'C19:dir-not-json', 'what': '%s: %s' % (case['args'], e), 'case': case}]
        if '-l' in case['args']:
            wantl = {x['Private Header']['Entry Id']: x.get('Primary SRC', {}).get('Reference Code') for x in want}
            # list mode stops at the primary SRC, so PELs damaged further on are listed too: compare the fully decodable ones
            gotl = {k: v.get('SRC') for k, v in got.items() if k in wantl}
            if gotl != wantl or list(gotl) != list(wantl):
                out.append({'key': 'C19:dir-list', 'what': '-l entries %r, per-file decodes give %r' % (gotl, wantl), 'case': case})
        elif got != want:
            idx = next((i for i, (a, b) in enumerate(zip(got, want)) if a != b), min(len(got), len(want)))
            key = 'C19:history-dependent-output'
            if idx < len(got) and idx < len(want):
                eid = want[idx]['Private Header']['Entry Id']
                if eid in ('0x50000008', '0x5000000A') or ('-r' not in case['args'] and int(eid, 16) in (0x5000000A,)):
                    key = 'F10:callouts-module-disabled-after-one-failure'
            out.append({'key': key, 'what': '%s: document %d (entry %s) differs from the per-file decode' % (
                case['args'], idx, want[idx]['Private Header']['Entry Id'] if idx < len(want) else '?'), 'case': case})
    finally:
        shutil.rmtree(d, ignore_errors=True)
    return out


def _fresh_process(res):
    """Reference observations from a genuinely separate interpreter must equal the in-process fresh re-import."""
    r = subchunk.spawn('mc.checks.c19', {'k': 'refs_only'}, False)
    if 'harness_error' in r:
        raise RuntimeError(r['harness_error'])
    theirs = r['extra']['refs']
    n_ok = 0
    for i in range(len(EVENTS)):
        mine = reference(i)
        case = {'history': [], 'event': i, 'fresh_process': True}
        res.case(nontrivial_key=json.dumps(case), outcome='fresh:' + mine[0])
        if core.h8(json.dumps(mine)) != theirs[i]:
            res.violation('C19:fresh-import-differs-from-fresh-process', 'event %s' % (EVENTS[i],), case)
        else:
            n_ok += 1
    res.extra['traces_validated_against_impl'] = n_ok
    imphook.uninstall()
    return res


_orig_run_chunk = run_chunk


def run_chunk(chunk):       # noqa: F811  (adds the sub-interpreter entry point)
    routed = subchunk.route(__name__, chunk)
    if routed is not None:
        return routed
    if chunk['k'] == 'refs_only':
        res = ChunkResult()
        res.extra['refs'] = [core.h8(json.dumps(reference(i, hard=True))) for i in range(len(EVENTS))]   # purge + re-import per event
        res.evals = len(EVENTS)
        imphook.uninstall()
        return res
    return _orig_run_chunk(chunk)
