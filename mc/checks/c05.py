"""C05 - malformed PELs are rejected cleanly (E3: every truncation, every single-byte corruption, both optimisation levels)."""
import io
import itertools
import json
from mc import strictjson
import os
import sys
import tempfile

from mc import core, pelgen, decode, impl, clidrv, subchunk
from mc.core import ChunkResult

PROPERTY = 'C05'
LEVEL = 'fault_enumeration'
ENGINE = 'E3'
TECHNIQUE = ('exhaustive single-deviation enumeration on the real decoder: every proper prefix and every single-byte '
             'corruption (8 / 255 replacement values) of each base PEL, all byte strings of length <= 2, in two interpreter '
             'configurations (python, python -O), at the parsePEL seam and through main() -f; thorough adds pairs '
             '(size/count byte, other byte)')
LEVEL_TEXT = ('The deviation space of each base PEL (one per section type plus an all-sections PEL) is enumerated '
              'completely: every truncation offset and every offset x replacement value, each under a per-case alarm, in a '
              'normal and in a -O interpreter (separate process, optimisation verified). Outcome must be a JSON document, an '
              'empty result or an ordinary Exception; a proper prefix must never yield a document and the stream cursor '
              'must never pass the end. The CLI layer checks exit status, stdout/stderr discipline and absence of escaping '
              'exceptions on the same deviations, with subprocess conformance replays.')
LEVEL_NOTE = ('random byte strings only up to length 2 (plus length <= 4 over a 4-byte alphabet); multi-byte corruptions '
              'only as pairs involving a size/count byte (thorough)')
RULE = ('for each base PEL and each of {python, python -O}: all proper prefixes; all offsets x replacement values {00, FF, '
        '^01, ^80, +1, -1, 7F, 80} (thorough: all 255); all byte strings of length <= 2 and length <= 4 over {00,50,48,FF}; '
        'CLI -f on every prefix and on corruptions at stride; subprocess replays. Non-trivial: the deviated input differs '
        'from a well-formed PEL; distinct by (base, deviation, config).')
ASSUMPTIONS = ['which exception type/message is raised is free', 'a corrupted PEL that still decodes only has to '
               'terminate and print JSON']

EXTRA = [
    {'creator': 'M', 'sections': [{'t': 'UD', 'comp': 0x2C00, 'sub': 73, 'ver': 1,
                                   'payload': (b'\x00\x10\x00\x01\x01\x04\x00\x00' * 2).hex()}]},
    {'creator': 'O', 'sections': [{'t': 'PS', 'ascii': 'BD8DE510'.ljust(32)},
                                  {'t': 'UD', 'comp': 0xE500, 'sub': 1, 'ver': 1,
                                   'payload': (b'\x00\x00\x00\x01' + bytes(range(12))).hex()}]},
]
EXTRA.append({'creator': 'O', 'sections': [
    {'t': 'UD', 'comp': 0x2000, 'sub': 3, 'ver': 1, 'payload': (b'\\' * 44 + b'\n' + b'"' * 20 + b':' + b'\\"' * 12).hex()},
    {'t': 'UD', 'comp': 0xABCD, 'sub': 1, 'ver': 1, 'payload': (b'\\' * 32 + b'"' * 16).hex()}]})
QUICK_VALUES = ['00', 'ff', 'x01', 'x80', '+1', '-1', '7f', '80']


def bases():
    return pelgen.base_pel_specs() + EXTRA


def bounds(tier):
    return {'base_pels': len(bases()), 'replacement_values': 8 if tier == 'quick' else 255,
            'configs': ['python', 'python -O'], 'pairs': tier == 'thorough'}


def plan(tier, seed):
    ch = []
    nb = len(bases())
    for opt in (False, True):
        for bi in range(nb):
            ch.append({'k': 'prefix', 'base': bi, 'opt': opt})
            if tier == 'quick':
                ch.append({'k': 'corrupt', 'base': bi, 'opt': opt, 'vals': 'quick'})
            else:
                for lo in range(0, 256, 64):
                    ch.append({'k': 'corrupt', 'base': bi, 'opt': opt, 'vals': [lo, lo + 64]})
            ch.append({'k': 'cli', 'base': bi, 'opt': opt, 'stride': 7 if tier == 'quick' else 2})
        ch.append({'k': 'small', 'opt': opt})
        ch.append({'k': 'subproc', 'opt': opt, 'base': nb - 4})
        ch.append({'k': 'dirmodes', 'opt': opt, 'base': nb - 1})
        ch.append({'k': 'dirprefix', 'opt': opt})
    if tier == 'thorough':
        for opt in (False, True):
            for bi in (1, nb - 4):
                for part in range(8):
                    ch.append({'k': 'pairs', 'base': bi, 'opt': opt, 'part': part, 'parts': 8})
    return ch


def deviate(b, dev):
    """dev: ['cut', n] | ['set', off, val] | ['set2', off1, val1, off2, val2] | ['raw', hex]"""
    if dev[0] == 'cut':
        return b[:dev[1]]
    if dev[0] == 'raw':
        return bytes.fromhex(dev[1])
    bb = bytearray(b)
    bb[dev[1]] = dev[2]
    if dev[0] == 'set2':
        bb[dev[3]] = dev[4]
    return bytes(bb)


def repl_values(old, spec):
    if spec == 'quick':
        vals = [0x00, 0xff, old ^ 0x01, old ^ 0x80, (old + 1) & 0xff, (old - 1) & 0xff, 0x7f, 0x80]
    else:
        vals = range(spec[0], spec[1])
    return sorted({v for v in vals if v != old})


def classify(case, what, r):
    opt = bool(sys.flags.optimize)
    if opt and what in ('prefix-decoded', 'over-read', 'cli-prefix-decoded'):
        return 'F4:range-checks-are-asserts-vanish-under-O'
    return 'C05:' + what


def eval_case(case):
    """Runs in whichever interpreter calls it; case['opt'] says which one it was found in."""
    if bool(case.get('opt')) != bool(sys.flags.optimize):
        res = subchunk.spawn('mc.checks.c05', {'k': 'one', 'case': case, 'opt': case.get('opt')}, bool(case.get('opt')))
        if 'harness_error' in res:
            raise RuntimeError(res['harness_error'])
        return res['violations']
    if case.get('dirprefix'):
        res = ChunkResult()
        impl.ensure(False)
        _dirprefix(res, {'opt': case.get('opt')})
        return [v for v in res.violations if v['case'] == case]
    if case.get('dirmodes'):
        res = ChunkResult()
        _dirmodes(res, {'base': case['base'], 'opt': case.get('opt')})
        return [v for v in res.violations if v['case'] == case]
    impl.ensure(False)
    base = pelgen.encode_pel(pelgen.pel_from_spec(bases()[case['base']])) if case.get('base') is not None else b''
    data = deviate(base, case['dev'])
    out = []

    def bad(what, detail, r=None):
        out.append({'key': classify(case, what, r), 'what': '%s: %s' % (what, detail), 'case': case})

    if case.get('cli'):
        _cli(case, data, base, bad)
        return out
    try:
        core.arm()
        r = decode.parse(data)
        core.disarm()
    except core.CaseTimeout:
        bad('hang', 'decoding did not terminate within %.0fs' % core.CASE_TIMEOUT_S)
        return out
    except BaseException as e:
        core.disarm()
        bad('base-exception', 'decoder raised %s (not an ordinary Exception)' % type(e).__name__)
        return out
    LAST['outcome'] = r['kind'] + (':' + r['type'] if r['kind'] == 'exc' else '')
    if r['kind'] == 'doc' and any(isinstance(v, dict) and 'Error' in v for v in r['doc'].values()):
        LAST['outcome'] = 'doc:error-note'          # a section's parser failed and was contained: its own path to the output
    if r['kind'] == 'badjson':
        bad('not-json', 'decoder returned text that is not JSON: %s' % r['msg'])
    if r['index'] > len(data):
        bad('over-read', 'stream cursor %d beyond the %d input bytes' % (r['index'], len(data)))
    if case['dev'][0] == 'cut' and len(data) < len(base) and r['kind'] in ('doc', 'badjson'):
        bad('prefix-decoded', 'proper prefix (%d of %d bytes) was decoded into a document' % (len(data), len(base)))
    return out


LAST = {'outcome': None}


def _cli(case, data, base, bad):
    with tempfile.NamedTemporaryFile(prefix='c05_', dir=clidrv.scratch_root(), delete=False) as f:
        f.write(data)
        path = f.name
    try:
        try:
            core.arm()
            r = clidrv.run_main(['-f', path, '-E'])
            core.disarm()
        except core.CaseTimeout:
            bad('cli-hang', 'peltool -f did not terminate')
            return
        LAST['outcome'] = 'cli:%s:%s' % (r.status, 'out' if r.stdout else 'noout')
        if r.exc:
            bad('cli-traceback', 'exception escaped main(): %s' % r.exc)
            return
        if r.status not in (0, 1):
            bad('cli-exit', 'exit status %r' % r.status)
        # "either yields a JSON document or fails with an ordinary error": what the decoder yields for these bytes is what
        # the command line shows, on standard output
        try:
            core.arm()
            lib = decode.parse(data)
            core.disarm()
        except BaseException:
            core.disarm()
            lib = {'kind': 'exc'}
        if lib['kind'] == 'doc':
            try:
                same = strictjson.loads(r.stdout) == lib['doc']
            except Exception:
                same = False
            if not same:
                bad('cli-document-not-shown', 'the decoder yields a document for these bytes, standard output holds %r (status %r, %d bytes on stderr)'
                    % (r.stdout[:60], r.status, len(r.stderr)))
        if r.stdout.strip():
            try:
                strictjson.loads(r.stdout)
            except Exception as e:
                bad('cli-not-json', 'stdout is not one JSON document: %s' % e)
            if case['dev'][0] == 'cut' and len(data) < len(base):
                bad('cli-prefix-decoded', 'proper prefix (%d of %d bytes) printed a document' % (len(data), len(base)))
        elif not r.stderr.strip():
            bad('cli-silent', 'nothing on stdout and nothing on stderr (status %r)' % r.status)
        if 'Traceback (most recent call last)' in r.stderr:
            bad('cli-traceback', 'traceback text on stderr')
    finally:
        os.unlink(path)


class TooManyHangs(Exception):
    pass


def _do(res, case, every=997):
    vs = eval_case(case)
    if vs and vs[0]['key'].endswith('hang'):
        res.bump('hangs')
        if res.extra['hangs'] >= 3:
            res.case(outcome=vs[0]['key'])
            res.add(vs)
            raise TooManyHangs()
    res.case(nontrivial_key=json.dumps(case, sort_keys=True), outcome=vs[0]['key'] if vs else LAST['outcome'],
             sample=case if res.evals % every == 1 else None)
    res.add(vs)


SIZE_BYTES_CACHE = {}


def size_offsets(bi):
    """Offsets of bytes that are lengths or counts (section lengths, section count, callout sizes, name lengths...)."""
    p = pelgen.pel_from_spec(bases()[bi])
    offs = set()
    for (start, end) in pelgen.section_offsets(p):
        offs.update({start + 2, start + 3})
    offs.add(27)   # section count in PH
    b = pelgen.encode_pel(p)
    pos = 0
    # SRC internals: word count, size, callout subsection length, callout sizes / substructure sizes
    for s, (start, end) in zip([None, None] + p['sections'], pelgen.section_offsets(p)):
        if s and s.get('t') in ('PS', 'SS') and 'id' not in s:
            offs.update({start + 8 + 3, start + 8 + 6, start + 8 + 7, start + 8 + 1})
            if s.get('callouts') is not None:
                co = start + 80
                offs.update({co + 2, co + 3})
                q = co + 4
                while q < end:
                    offs.update({q, q + 3})
                    sub = q + 4 + b[q + 3]
                    while sub < q + b[q]:
                        offs.update({sub + 2, sub + 3})
                        sub += b[sub + 2] or 4
                    q += b[q] or 4
        if s and s.get('t') == 'EH':
            offs.add(start + 8 + 75)
        if s and s.get('t') == 'LP':
            offs.update({start + 10, start + 11})
    return sorted(o for o in offs if o < len(b))


def run_chunk(chunk):
    if bool(chunk.get('opt')) != bool(sys.flags.optimize):
        return subchunk.spawn('mc.checks.c05', chunk, bool(chunk.get('opt')))
    res = ChunkResult()
    k = chunk['k']
    opt = bool(chunk.get('opt'))
    if k == 'one':
        res.add(eval_case(chunk['case']))
        res.evals += 1
        return res
    if opt:
        res.extra['optimized_interpreter_verified'] = 1 if sys.flags.optimize >= 1 and not __debug__ else 0
        if __debug__:
            raise RuntimeError('-O worker is not optimised')
    impl.ensure(False)
    try:
        _run(res, chunk, k, opt)
    except TooManyHangs:
        pass            # three cases of this chunk already hung: reported, the rest would only take time
    return res


def _run(res, chunk, k, opt):
    if k in ('prefix', 'corrupt', 'cli', 'pairs'):
        bi = chunk['base']
        base = pelgen.encode_pel(pelgen.pel_from_spec(bases()[bi]))
    if k == 'prefix':
        for n in range(len(base)):
            _do(res, {'base': bi, 'dev': ['cut', n], 'opt': opt}, every=199)
        _do(res, {'base': bi, 'dev': ['cut', len(base)], 'opt': opt})
    elif k == 'corrupt':
        seen = {}
        for off in range(len(base)):
            for v in repl_values(base[off], chunk['vals']):
                _do(res, {'base': bi, 'dev': ['set', off, v], 'opt': opt})
                # the command line has its own error handling: hand it every class of failure this chunk produces
                # (the first three inputs of each outcome class), not only the strided sample of the 'cli' chunk
                oc = LAST['outcome'] or ''
                if oc.startswith('exc:') or oc in ('empty', 'doc:error-note'):
                    seen[oc] = seen.get(oc, 0) + 1
                    if seen[oc] <= 3:
                        _do(res, {'base': bi, 'dev': ['set', off, v], 'opt': opt, 'cli': True})
    elif k == 'cli':
        for n in range(len(base) + 1):
            _do(res, {'base': bi, 'dev': ['cut', n], 'opt': opt, 'cli': True}, every=199)
        st = chunk['stride']
        for off in range(0, len(base), st):
            for v in repl_values(base[off], 'quick')[:4 if st > 2 else 8]:
                _do(res, {'base': bi, 'dev': ['set', off, v], 'opt': opt, 'cli': True}, every=199)
    elif k == 'small':
        _do(res, {'base': None, 'dev': ['raw', ''], 'opt': opt})
        for a in range(256):
            _do(res, {'base': None, 'dev': ['raw', '%02x' % a], 'opt': opt})
            for b2 in range(256):
                _do(res, {'base': None, 'dev': ['raw', '%02x%02x' % (a, b2)], 'opt': opt}, every=9973)
        for n in (3, 4):
            for t in itertools.product([0x00, 0x50, 0x48, 0xff], repeat=n):
                _do(res, {'base': None, 'dev': ['raw', bytes(t).hex()], 'opt': opt})
        for t in ('5048', '50480030', '504800300100', '5048003001003100' + '00' * 40 + '5548'):
            _do(res, {'base': None, 'dev': ['raw', t], 'opt': opt, 'cli': True})
        # failure classes that byte corruption of the base PELs does not reach: recursion limit in the JSON user data,
        # a PCE identity that is too small but consistent with every enclosing length
        deep = ('[' * 30000 + ']' * 30000).encode()
        co = {'prio': 0x48, 'loc': 'U1-P1', 'loclen': 8, 'fru': {'flags': 0x18, 'pn': 'PN'},
              'pce': {'mtm': 'MT', 'sn': 'S', 'name': '', 'namelen': 0}}
        for spec in ({'sections': [{'t': 'UD', 'comp': 0x2000, 'sub': 1, 'payload': deep.hex()}]},
                     {'sections': [{'t': 'PS', 'callouts': [co]}, {'t': 'MT'}]}):
            b = bytearray(pelgen.encode_pel(pelgen.pel_from_spec(spec)))
            if 'callouts' in spec['sections'][0]:
                i = bytes(b).rfind(b'PE')
                sec = 72
                b[i + 2] = 20                                    # PCE size below the 24-byte minimum ...
                del b[i + 20:i + 24]                             # ... the four bytes really absent, every enclosing length adjusted
                b[sec + 80 + 4] -= 4
                b[sec + 80 + 2:sec + 80 + 4] = (int.from_bytes(b[sec + 80 + 2:sec + 80 + 4], 'big') - 1).to_bytes(2, 'big')
                b[sec + 2:sec + 4] = (int.from_bytes(b[sec + 2:sec + 4], 'big') - 4).to_bytes(2, 'big')
                b[sec + 8 + 6:sec + 8 + 8] = (int.from_bytes(b[sec + 8 + 6:sec + 8 + 8], 'big') - 4).to_bytes(2, 'big')
            _do(res, {'base': None, 'dev': ['raw', bytes(b).hex()], 'opt': opt})
            _do(res, {'base': None, 'dev': ['raw', bytes(b).hex()], 'opt': opt, 'cli': True})
    elif k == 'pairs':
        szs = size_offsets(bi)
        vals = [0x00, 0x01, 0x04, 0x08, 0x7f, 0x80, 0xfe, 0xff]
        work = [(o1, o2) for o1 in szs for o2 in range(len(base)) if o2 != o1]
        for (o1, o2) in work[chunk['part']::chunk['parts']]:
            for v1 in vals:
                for v2 in (0x00, 0xff, base[o2] ^ 0x01, base[o2] ^ 0x80):
                    if v1 != base[o1] and v2 != base[o2]:
                        _do(res, {'base': bi, 'dev': ['set2', o1, v1, o2, v2], 'opt': opt}, every=99991)
    elif k == 'subproc':
        _subproc(res, chunk)
    elif k == 'dirmodes':
        _dirmodes(res, chunk)
    elif k == 'dirprefix':
        _dirprefix(res, chunk)
    return res


def _dirprefix(res, chunk):
    """A proper prefix is rejected by the modes that read a directory as well (they have their own file reader): for every
    base PEL, a directory holding nothing but its prefixes that end in the last twelve bytes, through the two modes that
    decode whole logs (-a prints, --json writes).  Nothing may be shown or written for any of them."""
    opt = bool(chunk.get('opt'))
    from mc import strictjson
    for bi, spec in enumerate(bases()):
        base = pelgen.encode_pel(pelgen.pel_from_spec(spec))
        cuts = [n for n in range(max(73, len(base) - 12), len(base))]
        with tempfile.TemporaryDirectory(prefix='c05p_', dir=clidrv.odd_root()) as d:
            os.mkdir(os.path.join(d, 'in'))
            os.mkdir(os.path.join(d, 'out'))
            for n in cuts:
                with open(os.path.join(d, 'in', 'prefix_%05d' % n), 'wb') as f:
                    f.write(base[:n])
            for mode in (['-a'], ['-a', '-r'], ['-j', '-o', os.path.join(d, 'out')]):
                case = {'dirprefix': True, 'base': bi, 'opt': opt, 'mode': [m if not m.startswith('/') else '<out>' for m in mode], 'cuts': [cuts[0], cuts[-1]]}
                core.arm(30)
                r = clidrv.run_main(['-p', os.path.join(d, 'in')] + mode + ['-E'], isolate=True)
                core.disarm()
                rc, so, se = r.status, r.stdout, r.stderr
                if r.exc:
                    res.violation('C05:cli-traceback', '%s over a directory of prefixes: exception escaped main(): %s' % (' '.join(case['mode']), r.exc), case)
                shown = None
                if mode[0] == '-a':
                    try:
                        doc = strictjson.loads(so) if so.strip() else []
                        shown = len(doc)
                    except Exception as e:
                        shown = -1
                else:
                    shown = len([fn for fn in os.listdir(os.path.join(d, 'out')) if fn.endswith('.json')])
                res.case(nontrivial_key=json.dumps(case), outcome='dirprefix:rc=%s:shown=%s' % (rc, shown))
                if shown:
                    res.violation('C05:cli-prefix-decoded', '%s over a directory holding only the %d longest proper prefixes of a %d-byte PEL '
                                  '(base %d): %s' % (' '.join(case['mode']), len(cuts), len(base), bi,
                                                     'standard output is not a JSON document' if shown < 0 else '%d document(s) shown / written' % shown), case)
                if rc not in (0, 1):
                    res.violation('C05:cli-exit', '%s over a directory of prefixes: exit status %s' % (' '.join(case['mode']), rc), case)


def _dirmodes(res, chunk):
    """Several malformed byte strings at once, through every directory mode of the real executable: ordinary errors only,
    exit status 0 or 1, no traceback, whatever the number of rejected files."""
    opt = bool(chunk.get('opt'))
    base = pelgen.encode_pel(pelgen.pel_from_spec(bases()[chunk['base']]))
    bad_files = [base[:100], base[:71], base[:-1], b'', bytes(range(256)), b'PH' + b'\0' * 70,
                 base[:2] + b'\xff\xff' + base[4:], base[:50] + b'XX' + base[52:]]
    for k in (0, 1, 2, 3, 5, 8):
        with tempfile.TemporaryDirectory(prefix='c05d_', dir=clidrv.odd_root()) as d:
            os.mkdir(os.path.join(d, 'in'))
            os.mkdir(os.path.join(d, 'out'))
            with open(os.path.join(d, 'in', 'good'), 'wb') as f:
                f.write(base)
            for i, b in enumerate(bad_files[:k]):
                with open(os.path.join(d, 'in', 'bad%d' % i), 'wb') as f:
                    f.write(b)
            # two more decodable logs behind the rejected ones; the text of the first survives loading only as an escape (an
            # unpaired surrogate: one corrupted byte of a surrogate pair), so a failure to print it would come late
            for name, payload in (('late_surrogate', b'{"a": "\\ud83d\\u0e00", "b": "Z\xc3\xbcrich"}'), ('later_plain', b'{"k": 1}')):
                with open(os.path.join(d, 'in', name), 'wb') as f:
                    f.write(pelgen.encode_pel(pelgen.pel_from_spec({'eid': 0x500001F0 + len(name), 'plid': 0x500001F0 + len(name), 'sections': [
                        {'t': 'PS'}, {'t': 'UD', 'comp': 0x2000, 'sub': 1, 'payload': payload.hex()}]})))
            # ... and one whose time stamps are not dates (corrupted BCD bytes: month 13, day 99, 25:61:7A; all zero): the
            # decoder shows the digits as stored, nothing may trip over them later
            with open(os.path.join(d, 'in', 'odd_timestamps'), 'wb') as f:
                f.write(pelgen.encode_pel(pelgen.pel_from_spec({'eid': 0x500001EE, 'plid': 0x500001EE, 'create': '0000000000000000',
                                                               'commit': '2024139925617a00', 'sections': [{'t': 'PS'}]})))
            for mode in (['-l'], ['-a'], ['-n'], ['--plid', '500001FF'], ['--src', 'BD8D'], ['-j', '-o', os.path.join(d, 'out')], ['-j'],
                         ['-a', '-x'], ['-l', '-x']):
                case = {'dirmodes': True, 'base': chunk['base'], 'opt': opt, 'bad': k, 'mode': [m if not m.startswith('/') else '<out>' for m in mode]}
                import subprocess
                try:
                    rc, so, se = clidrv.run_subprocess(['-p', os.path.join(d, 'in')] + mode + ['-E'], optimize=opt, timeout=20)
                except subprocess.TimeoutExpired:
                    res.case(nontrivial_key=json.dumps(case), outcome='dirmodes:hang')
                    res.violation('C05:cli-hang', '%s with %d malformed file(s) did not terminate within 20 s' % (' '.join(case['mode']), k), case)
                    continue
                res.case(nontrivial_key=json.dumps(case), outcome='dirmodes:rc=%s' % rc)
                if rc not in (0, 1):
                    res.violation('C05:cli-exit', '%s with %d malformed file(s): exit status %s' % (' '.join(case['mode']), k, rc), case)
                if 'Traceback (most recent call last)' in se:
                    res.violation('C05:cli-traceback', '%s with %d malformed file(s): traceback on stderr' % (' '.join(case['mode']), k), case)
                # whatever is shown or written for the logs that do decode is a JSON document
                from mc import strictjson
                if mode[0] in ('-l', '-a', '-n', '--plid', '--src') and '-x' not in mode and so.strip():
                    try:
                        strictjson.loads(so)
                    except Exception as e:
                        res.violation('C05:cli-not-json', '%s with %d malformed file(s): standard output is not a JSON document (%s)' % (
                            ' '.join(case['mode']), k, e), case)
                if mode[0] == '-j':
                    od = os.path.join(d, 'out') if '-o' in mode else os.path.join(d, 'in')
                    for fn in sorted(os.listdir(od)):
                        if fn.endswith('.json'):
                            try:
                                with open(os.path.join(od, fn), encoding='utf-8', errors='surrogateescape') as fh:
                                    strictjson.loads(fh.read())
                            except Exception as e:
                                res.violation('C05:cli-not-json', '%s with %d malformed file(s): %s is not a JSON document (%s)' % (
                                    ' '.join(case['mode']), k, fn.split('.', 1)[0] + '.<id>.json', e), case)
                            os.unlink(os.path.join(od, fn))


def _subproc(res, chunk):
    """Conformance: the real executable vs. the in-process driver, prefixes at stride, both modes."""
    bi = chunk['base']
    opt = bool(chunk.get('opt'))
    base = pelgen.encode_pel(pelgen.pel_from_spec(bases()[bi]))
    n_ok = 0
    with tempfile.TemporaryDirectory(prefix='c05s_', dir=clidrv.scratch_root()) as d:
        for n in list(range(0, len(base), 29)) + [len(base)]:
            path = os.path.join(d, 'p%04d' % n)
            with open(path, 'wb') as f:
                f.write(base[:n])
            rc, so, se = clidrv.run_subprocess(['-f', path, '-E'], optimize=opt)
            core.arm()
            r = clidrv.run_main(['-f', path, '-E'])
            core.disarm()
            case = {'base': bi, 'dev': ['cut', n], 'opt': opt, 'cli': True, 'subprocess': True}
            res.case(nontrivial_key=json.dumps(case), outcome='subproc:%s' % rc)
            if (rc, so) != (r.status, r.stdout):
                res.violation('C05:conformance', 'subprocess (rc=%s, %d bytes stdout) differs from in-process driver '
                              '(rc=%s, %d bytes)' % (rc, len(so), r.status, len(r.stdout)), case)
            else:
                n_ok += 1
            if 'Traceback (most recent call last)' in se:
                res.violation(classify(case, 'cli-traceback', None), 'real executable printed a traceback', case)
            if rc not in (0, 1):
                res.violation('C05:cli-exit', 'real executable exit status %s' % rc, case)
            if n < len(base) and so.strip():
                res.violation(classify(case, 'cli-prefix-decoded', None),
                              'real executable printed a document for a %d-byte prefix of a %d-byte PEL' % (n, len(base)), case)
    res.extra['traces_validated_against_impl'] = n_ok
