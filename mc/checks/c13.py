"""C13 - hex dumps are lossless (E1 product enumeration over the real hexdump/parse and the CLI -x route)."""
import math

from mc import subchunk, core
from mc.core import ChunkResult
from mc.ref import hexdump as rhex

PROPERTY = 'C13'
LEVEL = 'exploration'
RULE = ('complete enumeration of: (rt) every length 0..80 x 4 content patterns x 5 boundary last bytes, and every '
        'byte value 0..255 at every column 0..15 of a full line and of a short last line, through '
        'parse(hexdump(x)) and an independent reader; (layout) every (bytes_per_line, bytes_per_chunk) in the tier '
        'grid x 6 lengths: line count, equal widths, offset prefix; (io) both I/O-drawer templates x lengths 0..40 x '
        'padded/truncated short last line x upper/lower case x a comment/blank/whitespace line inserted at every '
        'line position; (cli) -f -x and -a -x over generated PELs. A case is non-trivial when the data is non-empty '
        '(distinct by data+layout+format).')
ASSUMPTIONS = ['a comment line is a line that breaks the line format somewhere (a literal character of the template missing, '
               'or a character that is neither a hex digit nor padding where a digit belongs); lines that are a valid '
               'prefix of the format are short data lines, not comments',
               'CRLF line ends and the spacing of non-default layouts are outside the statement and not generated']

FMT_NAMES = ['bmc', 'prebmc', 'default']
COMMENTS = ['# comment 12', '// 00 11 22', '; AB', '', '   ', '\t',
            # lines that start like data (hex digits) but break the line format further on: still comments
            'Date: 2024-01-01', 'Address  Data', 'Begin of dump', '12:30:45 start of dump', 'Feb 12 10:11:12 dump taken',
            'FACE:  BEEFCAFE-- drawer dump --', 'DEADBEEF', '00000000     CAFEBABE--comment', 'ab-cd', 'C0 FF EE!',
            # ... also when the break comes after a blank where a digit belongs (what follows padding must be padding)
            'Be  careful: partial dump', '10  lines follow', 'Ad  hoc dump taken at night', '0000:  be careful, partial dump',
            '00000000     be careful, partial dump', '0010:  BEEF     cafe', '00000010     BEEF      cafe',
            # ... and when only the address column breaks it: everything behind the address looks like data
            'addr:  41424344 45464748', 'OOOO:  41424344', 'Note:  DEADBEEF CAFEF00D', 'offset00     41424344  45464748', 'xxxxxxxx     41424344',
            '0x000010     41424344  45464748']


def bounds(tier):
    return {'roundtrip_lengths': '0..80', 'byte_values': 256, 'columns': 16,
            'layout_grid': '1..24 x 1..24 + row/col 256' if tier == 'quick' else '1..256 x 1..256',
            'io_lengths': '0..40'}


def plan(tier, seed):
    chunks = [{'k': 'rt_len'}, {'k': 'io', 'fmt': 0}, {'k': 'io', 'fmt': 1}, {'k': 'io', 'fmt': 2}, {'k': 'cli'}]
    for lo in range(0, 256, 32):
        chunks.append({'k': 'rt_byte', 'lo': lo, 'hi': lo + 32})
    if tier == 'quick':
        chunks.append({'k': 'layout', 'bpls': list(range(1, 25)) + [255, 256], 'bpcs': list(range(1, 25)) + [255, 256]})
        chunks.append({'k': 'layout', 'bpls': [16, 17, 31, 32, 33, 64, 100, 128, 200], 'bpcs': list(range(1, 257))})
    else:
        for lo in range(1, 257, 8):
            chunks.append({'k': 'layout', 'bpls': list(range(lo, lo + 8)), 'bpcs': list(range(1, 257))})
    # the same under python -O (assertions stripped, __debug__ false)
    chunks += [dict(c, optimize=True) for c in [{'k': 'rt_len'}, {'k': 'io', 'fmt': 0}, {'k': 'io', 'fmt': 1}, {'k': 'cli'}]]
    return chunks


def _patterns(n):
    yield 'ramp', bytes((i * 7 + 3) & 0xff for i in range(n))
    yield 'zero', bytes(n)
    yield 'ff', b'\xff' * n
    yield 'pos', bytes(((i % 16) << 4 | (i // 16) & 0xf) for i in range(n))


class ImplRaised(Exception):
    pass


def _guard(name, fn):
    def g(*a, **kw):
        try:
            return fn(*a, **kw)
        except Exception as e:      # the functions under test must accept every input of the stated domain
            raise ImplRaised('%s raised %s: %s' % (name, type(e).__name__, e))
    return g


def eval_case(case):
    try:
        return _eval_case(case)
    except ImplRaised as e:
        return [{'key': 'C13:raised', 'what': '%s (case %s)' % (e, {k: (v if len(str(v)) < 60 else str(v)[:60] + '...') for k, v in case.items()}),
                 'case': case}]


def _eval_case(case):
    import pel.hexdump as _hd
    hexdump, parse = _guard('hexdump()', _hd.hexdump), _guard('parse()', _hd.parse)
    k = case['k']
    out = []

    def bad(key, what):
        out.append({'key': key, 'what': what, 'case': case})

    if k == 'rt':
        data = bytes.fromhex(case['data'])
        lines = hexdump(memoryview(data))
        if len(lines) != math.ceil(len(data) / 16):
            bad('rt:line-count', 'len=%d lines=%d' % (len(data), len(lines)))
        if len({len(l) for l in lines}) > 1:
            bad('rt:width', 'lines of unequal width for len=%d' % len(data))
        for i, l in enumerate(lines):
            if not l.startswith('%08X' % (i * 16)):
                bad('rt:offset', 'line %d does not begin with its offset: %r' % (i, l))
                break
        back = bytes(parse(lines))
        if back != data:
            bad('rt:parse', 'parse(hexdump(x)) != x for x=%s got %s' % (data.hex(), back.hex()))
        try:
            ind = rhex.read_default(lines)
        except Exception as e:
            ind = None
            bad('rt:independent-reader', 'independent reader failed: %r' % (e,))
        if ind is not None and ind != data:
            bad('rt:independent-reader', 'independent reader recovers %s from dump of %s' % (ind.hex(), data.hex()))
    elif k == 'addr':
        from io_drawer.dump import HEX_DUMP_LINE_FORMATS
        from pel.hexdump import DEFAULT_LINE_FORMAT
        data = bytes(range(0x41, 0x51))
        if case['fmt'] == 'default':
            addr = ['1'] * 8
            addr[case['pos']] = case['digit']
            line = hexdump(memoryview(data))[0]
            lines = [''.join(addr) + line[8:]]
            back = bytes(parse(lines))
        else:
            fmt = HEX_DUMP_LINE_FORMATS[0]
            addr = ['1'] * 4
            addr[case['pos']] = case['digit']
            line = rhex.render(data, fmt)[0]
            lines = [''.join(addr) + line[4:]]
            back = bytes(parse(lines, fmt))
        if back != data:
            bad('addr:parse', 'a dump line whose address is %r parses to %d of 16 bytes (%s format)' % (''.join(addr), len(back), case['fmt']))
    elif k == 'layout':
        bpl, bpc, n = case['bpl'], case['bpc'], case['n']
        data = bytes((i * 5 + 1) & 0xff for i in range(n))
        if case.get('prev'):
            hexdump(memoryview(data), *case['prev'])        # the layout used just before this one (state kept between calls shows)
        lines = hexdump(memoryview(data), bpl, bpc)
        if len(lines) != math.ceil(n / bpl):
            bad('layout:line-count', 'bpl=%d bpc=%d n=%d lines=%d' % (bpl, bpc, n, len(lines)))
        if len({len(l) for l in lines}) > 1:
            bad('layout:width', 'bpl=%d bpc=%d n=%d widths=%s' % (bpl, bpc, n, sorted({len(l) for l in lines})))
        for i, l in enumerate(lines):
            if not l.startswith('%08X' % (i * bpl)):
                bad('layout:offset', 'bpl=%d bpc=%d line %d: %r' % (bpl, bpc, i, l[:20]))
                break
        # a dump in one layout has no influence on the next one: the default-format dump made right afterwards still
        # parses back (the layouts of a chunk are walked upwards and downwards, so every neighbour order occurs)
        back = parse(hexdump(memoryview(data)))
        if bytes(back) != data:
            bad('layout:default-after', 'after a dump with bpl=%d bpc=%d the default-format dump of %d bytes parses back to %d bytes'
                % (bpl, bpc, n, len(back)))
    elif k == 'io':
        from io_drawer.dump import HEX_DUMP_LINE_FORMATS
        from pel.hexdump import DEFAULT_LINE_FORMAT
        fmt = (list(HEX_DUMP_LINE_FORMATS) + [DEFAULT_LINE_FORMAT])[case['fmt']]
        data = bytes.fromhex(case['data'])
        lines = rhex.render(data, fmt, case['pad'], case['upper'])
        if case.get('ins') is not None:
            pos, c = case['ins']
            lines = lines[:pos] + [COMMENTS[c]] + lines[pos:]
        if case.get('nl'):
            lines = [l + '\n' for l in lines]
        if case.get('via_file'):
            import os, tempfile
            import io_drawer.dump as dump
            from mc import clidrv
            got = []
            orig = dump.parse_dump_data
            dump.parse_dump_data = lambda d, h, s_: got.append(bytes(d)) or []
            with tempfile.NamedTemporaryFile('w', prefix='c13_', dir=clidrv.scratch_root(), delete=False) as f:
                f.write(''.join(l if l.endswith('\n') else l + '\n' for l in lines))
            try:
                dump.parse_dump_file(f.name, 'unused.h', 'unused')
            finally:
                dump.parse_dump_data = orig
                os.unlink(f.name)
            back2 = got[0] if got else b''
            if back2 != data:
                bad('io:dump-file-reader', 'fmt=%s pad=%s ins=%s: the dump-file reader recovers %s, the file holds %s' % (
                    FMT_NAMES[case['fmt']], case['pad'], case.get('ins'), back2.hex(), data.hex()))
        back = bytes(parse(lines, fmt))
        if back != data:
            bad('io:parse', 'fmt=%s pad=%s upper=%s ins=%s: got %s want %s' % (
                FMT_NAMES[case['fmt']], case['pad'], case['upper'], case.get('ins'), back.hex(), data.hex()))
    elif k == 'cli':
        from mc import clidrv, pelgen
        out.extend(_cli_case(case, clidrv, pelgen))
    return out


def _cli_case(case, clidrv, pelgen):
    import os
    import tempfile
    out = []
    pels = [pelgen.encode_pel(pelgen.pel_from_spec(s)) for s in case['pels']]
    if case.get('tail'):
        pels[0] += bytes.fromhex(case['tail'])       # the file holds more bytes than the sections the Private Header counts
    with tempfile.TemporaryDirectory(prefix='c13_', dir=clidrv.scratch_root()) as d:
        names = []
        for i, b in enumerate(pels):
            p = os.path.join(d, 'p%02d' % i)
            with open(p, 'wb') as f:
                f.write(b)
            names.append(p)
        if case['mode'] == 'f':
            r = clidrv.run_main(['-f', names[0], '-x', '-E'], isolate=True)
            want = [pels[0]]
        elif case['mode'] == 'a':
            r = clidrv.run_main(['-p', d, '-a', '-x', '-E'], isolate=True)
            want = pels
        elif case['mode'] == 'l':
            r = clidrv.run_main(['-p', d, '-l', '-x', '-E'], isolate=True)
            want = pels
        elif case['mode'] == 'plid':
            r = clidrv.run_main(['-p', d, '--plid', '%08X' % pelgen.pel_from_spec(case['pels'][0])['plid'], '-x'], isolate=True)
            want = [b for b, sp in zip(pels, case['pels']) if pelgen.pel_from_spec(sp)['plid'] == pelgen.pel_from_spec(case['pels'][0])['plid']]
        elif case['mode'] == 'src':
            r = clidrv.run_main(['-p', d, '--src', 'BD8D', '-x'], isolate=True)
            want = [b for b, sp in zip(pels, case['pels']) if any(x.get('t') == 'PS' and 'BD8D' in x.get('ascii', 'BD8D1234') for x in sp['sections'][:1])]
        elif case['mode'] == 'bmc':
            r = clidrv.run_main(['-p', d, '--bmc-id', str(pelgen.pel_from_spec(case['pels'][0])['obmc']), '-x'])
            want = [pels[0]]
        else:
            os.rename(names[0], os.path.join(d, 'x_%08X' % pelgen.pel_from_spec(case['pels'][0])['eid']))
            r = clidrv.run_main(['-p', d, '-i', '%08X' % pelgen.pel_from_spec(case['pels'][0])['eid'], '-x'], isolate=True)
            want = [pels[0]]
        blocks = clidrv.split_hex_blocks(r.stdout)
        if blocks is None:
            out.append({'key': 'cli:markers', 'what': 'stdout is not a sequence of Begin/End blocks: %r' % r.stdout[:200],
                        'case': case})
        else:
            got = []
            for b in blocks:
                try:
                    got.append(rhex.read_default(b))
                except Exception as e:
                    got.append(None)
            if got != want:
                out.append({'key': 'cli:bytes', 'what': 'bytes between markers differ from the file(s): mode=%s' % case['mode'],
                            'case': case})
    return out


def run_chunk(chunk):
    routed = subchunk.route(__name__, chunk)
    if routed is not None:
        return routed
    res = ChunkResult()
    k = chunk['k']

    def do(case, nontrivial):
        core.arm()
        vs = eval_case(case)
        core.disarm()
        res.case(nontrivial_key=(repr(case) if nontrivial else None),
                 outcome=k + (':bad' if vs else ':ok'), sample=case if res.evals % 97 == 0 else None)
        res.add(vs)

    if k == 'rt_len':
        # longer dumps: offsets whose digits include A-F (0xA0 and up), around 4 KiB and 64 KiB
        for n in (159, 160, 161, 176, 255, 256, 257, 4095, 4097, 0xABC, 0xFFF1, 0x10001):
            do({'k': 'rt', 'data': bytes((i * 7 + n) & 0xff for i in range(n)).hex()}, True)
        # every hex digit, either case, in every position of the address column of each format that has one
        for d in '0123456789abcdefABCDEF':
            for pos in range(8):
                do({'k': 'addr', 'fmt': 'default', 'digit': d, 'pos': pos}, True)
            for pos in range(4):
                do({'k': 'addr', 'fmt': 'bmc', 'digit': d, 'pos': pos}, True)
        for n in range(0, 81):
            for name, data in _patterns(n):
                do({'k': 'rt', 'data': data.hex()}, n > 0)
            if n:
                for last in (0x1f, 0x20, 0x7e, 0x7f, 0x80):
                    data = bytes((i * 3 + 1) & 0xff for i in range(n - 1)) + bytes([last])
                    do({'k': 'rt', 'data': data.hex()}, True)
    elif k == 'rt_byte':
        for b in range(chunk['lo'], chunk['hi']):
            for col in range(16):
                full = bytearray(b'\x41' * 32)
                full[16 + col] = b
                do({'k': 'rt', 'data': bytes(full).hex()}, True)
                short = bytearray(b'\x42' * (16 + col + 1))
                short[16 + col] = b
                do({'k': 'rt', 'data': bytes(short).hex()}, True)
    elif k == 'layout':
        for bpl in chunk['bpls']:
            prev = None
            for bpc in list(chunk['bpcs']) + list(reversed(chunk['bpcs'])):
                for n in sorted({0, 1, max(bpl - 1, 0), bpl, bpl + 1, 2 * bpl + 3}):
                    do(dict({'k': 'layout', 'bpl': bpl, 'bpc': bpc, 'n': n}, **({'prev': prev} if prev else {})), n > 0)
                prev = [bpl, bpc]
    elif k == 'io':
        f = chunk['fmt']
        for n in (159, 161, 255, 257, 4097, 0xABC1):
            data = bytes((i * 11 + n) & 0xff for i in range(n))
            for pad in (True, False):
                do({'k': 'io', 'fmt': f, 'data': data.hex(), 'pad': pad, 'upper': bool(n % 2)}, True)
        for n in range(0, 41):
            for pi, (name, data) in enumerate(_patterns(n)):
                if pi in (1, 2) and n % 5:
                    continue
                for pad in (True, False):
                    for upper in (True, False):
                        base = {'k': 'io', 'fmt': f, 'data': data.hex(), 'pad': pad, 'upper': upper}
                        do(dict(base), n > 0)
                        if pi == 0 and upper:
                            nlines = math.ceil(n / 16)
                            for pos in range(nlines + 1):
                                for c in range(len(COMMENTS)):
                                    do(dict(base, ins=[pos, c], nl=bool((pos + c) % 2)), n > 0)
                                    if n % 8 == 1 and f < 2:
                                        do(dict(base, ins=[pos, c], nl=True, via_file=True), True)
    elif k == 'cli':
        from mc import pelgen
        specs = pelgen.base_pel_specs()
        for s in specs:
            do({'k': 'cli', 'mode': 'f', 'pels': [s]}, True)
        # PELs larger than any plausible read buffer (4 KiB, 8 KiB, 64 KiB - 9), through every mode that can print --hex
        for size in (4000, 4097, 8200, 20000, 65000):
            big = {'eid': 0x50000900 + size % 251, 'plid': 0x50000900 + size % 251, 'obmc': 900 + size % 7, 'sections': [
                {'t': 'PS', 'ascii': 'BD8D9000'.ljust(32)},
                {'t': 'UD', 'comp': 0xABCD, 'payload': bytes((i * 7 + size) & 0xff for i in range(size)).hex()}]}
            small = {'eid': 0x50000800, 'plid': 0x50000800, 'obmc': 800, 'sections': [{'t': 'PS', 'ascii': '11009000'.ljust(32)}]}
            for mode in ('f', 'a', 'l', 'plid', 'src', 'bmc', 'id'):
                do({'k': 'cli', 'mode': mode, 'pels': [big, small]}, True)
        # files that hold more than the counted sections (padding, stray bytes, an uncounted section): --hex shows the file
        extra = '5544001001000000abcd00000102030405060708'
        for tail in ('ff' * 20, '00', '1f207e7f41', extra, '00' * 4096):
            a = {'eid': 0x50000A01, 'plid': 0x50000A01, 'obmc': 701, 'sections': [{'t': 'PS', 'ascii': 'BD8D9000'.ljust(32)},
                                                                                    {'t': 'UD', 'comp': 0xABCD, 'payload': '1f207e7f'}]}
            b = {'eid': 0x50000A02, 'plid': 0x50000A02, 'obmc': 702, 'sections': [{'t': 'PS', 'ascii': '11009000'.ljust(32)}]}
            for mode in ('f', 'a', 'l', 'plid', 'src', 'bmc', 'id'):
                do({'k': 'cli', 'mode': mode, 'pels': [a, b], 'tail': tail}, True)
        for i in range(len(specs)):
            group = [specs[i], specs[(i + 1) % len(specs)], specs[(i + 5) % len(specs)]]
            for j, g in enumerate(group):
                g = dict(g)
                g['eid'] = 0x50000000 + i * 16 + j
                group[j] = g
            do({'k': 'cli', 'mode': 'a', 'pels': group}, True)
    return res

ENGINE = 'E1'
TECHNIQUE = 'bounded-exhaustive enumeration (explicit-state, stateless) of byte strings x layouts x dump formats on the real hexdump/parse and CLI, vs. independent reader/renderer'
LEVEL_TEXT = ('Every case of the stated finite space (lengths 0..80, every byte value at every column, every layout in the '
              'grid, both I/O-drawer templates with every comment position) is executed on the real functions; the oracle is '
              'the round-trip identity plus an independent reader. Right level: the property is a pure function of the input '
              'and the interesting boundaries (line ends, 0x1F/0x20/0x7E/0x7F, chunk edges) are all inside the bound.')
LEVEL_NOTE = 'small-scope: lengths above 80 / data beyond the patterns are not explored; CPython re and bytes.fromhex trusted'
