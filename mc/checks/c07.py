"""C07 - PEL selection follows the class / severity / --only rules (E1: complete product on the real considerPEL)."""
import itertools
import json
from mc import strictjson
import os
import tempfile

from mc import subchunk, core, pelgen, impl, clidrv
from mc.core import ChunkResult
from mc.ref import select as ref

PROPERTY = 'C07'
LEVEL = 'exploration'
ENGINE = 'E1'
TECHNIQUE = ('complete product enumeration: 256 severity bytes x 16 action-flag words x 64 switch combinations x severity-'
             'group subsets (thorough: all 128) evaluated on the real considerPEL with real UserHeader objects, vs. a set-form '
             'reference model; option binding checked through main() -n/-l on a directory with one PEL per class/group cell')
LEVEL_TEXT = ('The selection function has a finite domain once the 13 action-flag bits the rules do not mention are fixed to '
              'all-0 / all-1; the thorough tier evaluates every one of the 33 554 432 tuples, the quick tier every tuple with '
              '<= 1, 7 or four chosen pairs of severity groups. The reference is the statement in set form, not the chain of '
              'early returns. The command-line binding (option -> configuration) is checked for all 64 switch sets x 10 -S '
              'lists by counting a 60-PEL directory, 64 of those replayed through the real executable.')
LEVEL_NOTE = ('action-flag bits other than 0x8000/0x4000/0x2000 only as all-0, all-1 or (thorough) one at a time; look-ups combined with selection '
              'options are not constrained')
RULE = ('tuples (severity 0..255, flags in 8 combos of {0x8000,0x4000,0x2000} x {other bits 0, other bits 1}, switches E s N H '
        't O in 2^6, group subset); look-up clause: 5 look-up kinds x 256 x 16 with no option. Non-trivial: every tuple '
        '(disjoint by construction, counted not hashed).')
ASSUMPTIONS = ['Config attribute names (every_pel, serviceable, non_serviceable, hidden, critSysTerm, only, severities) are the '
               'configuration interface of considerPEL']
EXHAUSTIVE = True

GROUPS = list(ref.GROUP_DIGIT.items())     # [(name, digit)]
FLAGSETS = [(a | b | c | o) for a in (0, 0x8000) for b in (0, 0x4000) for c in (0, 0x2000) for o in (0, 0x1FFF)]
SW = ['every', 's', 'N', 'H', 't', 'only']
CLI_SEVS = [0x00, 0x05, 0x0F, 0x10, 0x20, 0x40, 0x50, 0x51, 0x61, 0x71]
CLI_FLAGS = [0x0000, 0x2000, 0x6000, 0x8000, 0xC000, 0xA000]
CLI_S_LISTS = [[], ['Informational'], ['Critical'], ['Recovered'], ['Symptom'], ['Predictive', 'Unrecoverable'],
               ['Informational', 'Critical'], ['Diagnostic', 'Symptom', 'Recovered'], [g for g, _ in GROUPS],
               ['Critical', 'Critical']]


def subsets(tier):
    alls = [tuple(d for i, (_, d) in enumerate(GROUPS) if m >> i & 1) for m in range(128)]
    if tier == 'thorough':
        return alls
    pairs = [(0, 5), (1, 7), (2, 4), (5, 6)]
    return [x for x in alls if len(x) <= 1 or len(x) == 7 or x in pairs]


def bounds(tier):
    return {'severities': 256, 'flag_words': len(FLAGSETS), 'switch_sets': 64, 'group_subsets': len(subsets(tier)),
            'tuples': 256 * len(FLAGSETS) * 64 * len(subsets(tier))}


OTHER_BITS = [1 << b for b in range(13)]


def plan(tier, seed):
    ch = [{'k': 'product', 'lo': lo, 'hi': lo + 8, 'tier': tier} for lo in range(0, 256, 8)]
    if tier == 'thorough':
        # each of the 13 action-flag bits the rules do not mention, alone, with every rule-bit combination
        ch += [{'k': 'product', 'lo': lo, 'hi': lo + 8, 'tier': 'quick', 'onehot': True} for lo in range(0, 256, 8)]
    ch.append({'k': 'lookup'})
    ch.append({'k': 'cli_lookup'})
    for part in range(8):
        ch.append({'k': 'cli', 'part': part, 'parts': 8})
    for part in range(8):
        ch.append({'k': 'subproc', 'part': part})
    # the same under python -O (assertions stripped, __debug__ false)
    ch += [dict(c, optimize=True) for c in [{'k': 'lookup'}, {'k': 'cli_lookup'}, {'k': 'product', 'lo': 0, 'hi': 8, 'tier': 'quick'}, {'k': 'cli', 'part': 0, 'parts': 8}]]
    return ch


def make_uh(pt, sev, flags):
    from pel.datastream import DataStream
    from pel.peltool.user_header import UserHeader
    u = dict(pelgen.UH_DEFAULT, sev=sev, flags=flags)
    b = pelgen.encode_uh(u)
    st = DataStream(b, byte_order='big', is_signed=False)
    sid, ln, ver, sub, comp = pt.parseHeader(st)
    uh = UserHeader(st, sid, ln, ver, sub, comp, 'O')
    uh.toJSON()
    return uh


def make_cfg(sw, groups, lookup=None):
    from pel.peltool.config import Config
    c = Config()
    c.every_pel, c.serviceable, c.non_serviceable, c.hidden, c.critSysTerm, c.only = [bool(x) for x in sw]
    c.severities = list(groups)
    if lookup:
        setattr(c, lookup, '50000001' if lookup != 'bmcID' else '1')
    return c


def classify(sev, groups):
    if 0x01 <= sev <= 0x0F and groups:
        return 'F6:severity-group-by-hex-string-prefix'
    return 'C07:selection'


def eval_case(case):
    pt = impl.ensure(False)
    if case.get('cli'):
        return _cli_case(case, pt)
    if case.get('cli_lookup'):
        return [v for v in run_chunk({'k': 'cli_lookup'}).violations if v['case'] == case]
    sev, flags, sw, groups = case['sev'], case['flags'], case['sw'], case['groups']
    uh = make_uh(pt, sev, flags)
    cfg = make_cfg(sw, groups, case.get('lookup'))
    got = bool(pt.considerPEL(uh, cfg))
    want = ref.selected(sev, flags, *[bool(x) for x in sw], groups=groups, lookup=bool(case.get('lookup')))
    if got != want:
        return [{'key': classify(sev, groups), 'what': 'severity 0x%02X flags 0x%04X switches %s groups %s lookup %s: selected=%s, '
                 'rule says %s' % (sev, flags, dict(zip(SW, sw)), list(groups), case.get('lookup'), got, want), 'case': case}]
    return []


def run_chunk(chunk):
    routed = subchunk.route(__name__, chunk)
    if routed is not None:
        return routed
    res = ChunkResult()
    k = chunk['k']
    pt = impl.ensure(False)
    if k == 'product':
        subs = subsets(chunk['tier'])
        swsets = list(itertools.product((False, True), repeat=6))
        n = 0
        n_sel = 0
        consider = pt.considerPEL
        selected = ref.selected
        core.arm(600)
        for sev in range(chunk['lo'], chunk['hi']):
            for flags in (FLAGSETS if not chunk.get('onehot') else
                          [a | b | c | o for a in (0, 0x8000) for b in (0, 0x4000) for c in (0, 0x2000) for o in OTHER_BITS]):
                uh = make_uh(pt, sev, flags)
                for sw in swsets:
                    cfg = make_cfg(sw, ())
                    for groups in subs:
                        cfg.severities = list(groups)
                        got = bool(consider(uh, cfg))
                        want = selected(sev, flags, *sw, groups=groups)
                        n += 1
                        n_sel += got
                        if got != want:
                            case = {'sev': sev, 'flags': flags, 'sw': [int(x) for x in sw], 'groups': list(groups)}
                            res.violation(classify(sev, groups), 'severity 0x%02X flags 0x%04X switches %s groups %s: '
                                          'selected=%s, rule says %s' % (sev, flags, dict(zip(SW, sw)), list(groups), got, want), case)
        core.disarm()
        res.evals += n
        res.nontrivial_count += n
        res.outcomes.update({'selected', 'not-selected'} if 0 < n_sel < n else {'selected'} if n_sel else {'not-selected'})
        res.extra['selected_tuples'] = n_sel
        res.samples.append({'sev': chunk['lo'], 'flags': FLAGSETS[5], 'sw': [0, 1, 0, 0, 0, 1], 'groups': list(subs[3])})
    elif k == 'lookup':
        for lookup in ('plid', 'src', 'bmcID', 'pelID', 'srcExcludeFile'):
            for sev in range(256):
                for flags in FLAGSETS:
                    case = {'sev': sev, 'flags': flags, 'sw': [0] * 6, 'groups': [], 'lookup': lookup}
                    vs = eval_case(case)
                    res.case(nontrivial_key=json.dumps(case), outcome='lookup:' + ('bad' if vs else 'selected'),
                             sample=case if res.evals % 4000 == 1 else None)
                    res.add(vs)
    elif k == 'cli':
        swsets = list(itertools.product((0, 1), repeat=6))
        work = [(sw, sl) for sw in swsets for sl in range(len(CLI_S_LISTS))]
        with tempfile.TemporaryDirectory(prefix='c07_', dir=clidrv.odd_root()) as d:
            cells = _make_dir(d)
            for sw, sl in work[chunk['part']::chunk['parts']]:
                case = {'cli': True, 'sw': list(sw), 'slist': sl}
                vs = _cli_case(case, pt, d, cells)
                res.case(nontrivial_key=json.dumps(case), outcome='cli:' + ('bad' if vs else 'ok'),
                         sample=case if res.evals % 40 == 1 else None)
                res.add(vs)
    elif k == 'cli_lookup':
        # look-ups through the command line, with key values that are falsy once converted (id 0, PLID 0, entry id 0) as
        # well as ordinary ones, on PELs of every class: a look-up without selection options considers every PEL
        classes = [(0x40, 0xA000), (0x40, 0x6000), (0x20, 0x0000), (0x00, 0x0000), (0x00, 0x4000), (0x51, 0x6000)]
        for key in (0, 1, 0x50000007):
            for ci, (sev, flags) in enumerate(classes):
                case = {'cli_lookup': True, 'key': key, 'sev': sev, 'flags': flags}
                with tempfile.TemporaryDirectory(prefix='c07l_', dir=clidrv.odd_root()) as d:
                    spec = {'eid': key, 'plid': key, 'obmc': key, 'uh': {'sev': sev, 'flags': flags},
                            'sections': [{'t': 'PS', 'ascii': 'BD8D0000'.ljust(32)}]}
                    with open(os.path.join(d, '20240101_%08X' % key), 'wb') as f:
                        f.write(pelgen.encode_pel(pelgen.pel_from_spec(spec)))
                    other = {'eid': 0x60000001, 'plid': 0x60000001, 'obmc': 777, 'sections': [{'t': 'PS', 'ascii': '11001111'.ljust(32)}]}
                    with open(os.path.join(d, '20240102_60000001'), 'wb') as f:
                        f.write(pelgen.encode_pel(pelgen.pel_from_spec(other)))
                    probs = []
                    for argv, kind in ((['--bmc-id', str(key)], 'doc'), (['-i', '%08X' % key], 'doc'), (['--plid', '%08X' % key], 'list'),
                                       (['--src', 'BD8D0000'], 'list')):
                        core.arm(30)
                        r = clidrv.run_main(['-p', d] + argv, isolate=True)
                        core.disarm()
                        try:
                            v = strictjson.loads(r.stdout)
                            found = (v['Private Header']['Entry Id'] == '0x%08X' % key) if kind == 'doc' else ('0x%08X' % key) in v
                        except Exception:
                            found = False
                        if not found:
                            probs.append('%s does not find the PEL (stdout %r)' % (' '.join(argv), r.stdout.strip()[:40]))
                    res.case(nontrivial_key=json.dumps(case), outcome='cli-lookup:' + ('bad' if probs else 'found'))
                    if probs:
                        res.violation('C07:lookup-cli', 'severity 0x%02X flags 0x%04X: %s' % (sev, flags, '; '.join(probs)), case)
    elif k == 'subproc':
        n_ok = 0
        with tempfile.TemporaryDirectory(prefix='c07s_', dir=clidrv.odd_root()) as d:
            cells = _make_dir(d)
            for i, sw in enumerate(itertools.product((0, 1), repeat=6)):
                if i % 8 != chunk['part']:
                    continue
                sl = i % len(CLI_S_LISTS)
                argv = _argv(d, sw, sl, '-n')
                rc, so, se = clidrv.run_subprocess(argv)
                r = clidrv.run_main(argv, isolate=True)
                case = {'cli': True, 'sw': list(sw), 'slist': sl, 'subprocess': True}
                res.case(nontrivial_key=json.dumps(case), outcome='subproc:%s' % rc)
                if (rc, so) != (r.status, r.stdout):
                    res.violation('C07:conformance', 'real executable and in-process driver disagree for %s' % argv[2:], case)
                else:
                    n_ok += 1
        res.extra['traces_validated_against_impl'] = n_ok
    return res


def _make_dir(d):
    cells = []
    i = 0
    for sev in CLI_SEVS:
        for flags in CLI_FLAGS:
            eid = 0x50000000 + i
            b = pelgen.encode_pel(pelgen.pel_from_spec({'eid': eid, 'plid': eid, 'uh': {'sev': sev, 'flags': flags},
                                                        'sections': [{'t': 'PS'}]}))
            with open(os.path.join(d, 'pel%03d' % i), 'wb') as f:
                f.write(b)
            cells.append((sev, flags))
            i += 1
    return cells


def _argv(d, sw, sl, mode):
    argv = ['-p', d, mode]
    for flag, on in zip(['-E', '-s', '-N', '-H', '-t', '-O'], sw):
        if on:
            argv.append(flag)
    if CLI_S_LISTS[sl]:
        argv += ['-S'] + CLI_S_LISTS[sl]
    return argv


def _cli_case(case, pt, d=None, cells=None):
    if d is None:
        with tempfile.TemporaryDirectory(prefix='c07_', dir=clidrv.odd_root()) as dd:
            return _cli_case(case, pt, dd, _make_dir(dd))
    sw, sl = case['sw'], case['slist']
    groups = sorted({ref.GROUP_DIGIT[g] for g in CLI_S_LISTS[sl]})
    want = sum(1 for sev, flags in cells if ref.selected(sev, flags, *[bool(x) for x in sw], groups=groups))
    out = []
    core.arm(30)
    r = clidrv.run_main(_argv(d, sw, sl, '-n'), isolate=True)
    core.disarm()
    try:
        got = strictjson.loads(r.stdout)['Number of PELs found']
    except Exception as e:
        got = 'unreadable (%s)' % e
    # the same rule decides whether -f <file> shows its PEL: six of the sixty files per option set (all files over the plan)
    w = (sum(b << i for i, b in enumerate(sw)) * len(CLI_S_LISTS) + sl)
    for j in range(6):
        ci = (w * 7 + j * 11) % len(cells)
        sev, flags = cells[ci]
        sel = ref.selected(sev, flags, *[bool(x) for x in sw], groups=groups)
        argv = ['-f', os.path.join(d, 'pel%03d' % ci)] + _argv(d, sw, sl, '-n')[3:]
        core.arm(30)
        rf = clidrv.run_main(argv, isolate=False)
        core.disarm()
        try:
            shown = strictjson.loads(rf.stdout)['Private Header']['Entry Id'] == '0x%08X' % (0x50000000 + ci) if rf.stdout.strip() else False
        except Exception as e:
            shown = 'unreadable (%s)' % e
        if shown != sel:
            out.append({'key': 'C07:cli-file', 'what': '-f <PEL with severity 0x%02X flags 0x%04X> %s: shown=%r, rule says %s' % (
                sev, flags, ' '.join(argv[2:]), shown, sel), 'case': case})
            break
    # ... and what every other directory mode shows, with and without --hex (every fifth option set)
    if w % 5 == 0 and not out:
        for mode, hexm in (('-a', False), ('-l', False), ('-a', True), ('-l', True)):
            argv = _argv(d, sw, sl, mode) + (['-x'] if hexm else [])
            core.arm(60)
            rm = clidrv.run_main(argv, isolate=False)
            core.disarm()
            try:
                if hexm:
                    blocks = clidrv.split_hex_blocks(rm.stdout)
                    n = len(blocks) if blocks is not None else 'unreadable'
                else:
                    n = len(strictjson.loads(rm.stdout)) if rm.stdout.strip() else 0
            except Exception as e:
                n = 'unreadable (%s)' % e
            if n != want:
                out.append({'key': 'C07:cli-modes', 'what': 'options %s: %s%s shows %r PELs, rule says %d of %d' % (
                    _argv('D', sw, sl, '-n')[3:], mode, ' -x' if hexm else '', n, want, len(cells)), 'case': case})
                break
    if got != want:
        misc = [s for s, f in cells if 1 <= s <= 0xF]
        key = 'F6:severity-group-by-hex-string-prefix' if groups and misc and \
            _count_without(cells, sw, groups) == got else 'C07:cli-count'
        out.append({'key': key, 'what': 'options %s: count %r, rule says %d of %d' % (_argv('D', sw, sl, '-n')[2:], got, want, len(cells)),
                    'case': case})
    return out


def _count_without(cells, sw, groups):
    """count as the hex-prefix rule of the pinned tree would give it (only used to label the known defect)."""
    def in_grp_bug(sev, g):
        return hex(sev).startswith(hex(g))
    n = 0
    for sev, flags in cells:
        hid, srv = ref.hidden(flags), ref.serviceable(sev, flags)
        every, s, N, H, t, only = [bool(x) for x in sw]
        grp = any(in_grp_bug(sev, g) for g in groups)
        if every:
            sel = True
        else:
            in_class = (s and srv) or (N and not srv) or (H and hid)
            term = t and sev == 0x51
            if not only:
                sel = (srv and not hid) or in_class or term or grp
            else:
                classes = s or N or H
                sel = term or ((classes or bool(groups)) and (not classes or in_class) and (not groups or grp))
        n += sel
    return n
