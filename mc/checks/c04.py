"""C04 - user data rendered from content or preserved as a recoverable hex dump (E1)."""
import itertools
import json
import os
import re

from mc import subchunk, core, pelgen, decode, impl, imphook
from mc.core import ChunkResult
from mc.ref import hexdump as rhex

PROPERTY = 'C04'
LEVEL = 'exploration'
ENGINE = 'E1'
TECHNIQUE = ('bounded-exhaustive enumeration of (payload x identity tuple x section kind x plug-in configuration x parser '
             'behaviour) through the real parsePEL with fixture parser modules served by a meta_path finder, plus arbitrary '
             'bytes (all single bytes, all pairs/triples over 24 symbols, ~100 shaped payloads) offered to the built-in JSON/text '
             'formats and to the shipped JSON-returning plug-in; oracle = reference model of the built-in formats (value / text '
             'lines / exact hex dump), independent hex-dump reader, RFC 8259 reading of the document')
LEVEL_TEXT = ('All payload lengths 1..48 and the boundary lengths, every boundary byte at every column, the complete '
              'identity-tuple product and every parser behaviour (object, list, string, None, JSON null, empty, raising, '
              'ImportError in the call, import failure, absent) are run through the real decoder; whenever no decoder '
              'applies the payload must come back from the section\'s Data lines via a reader that shares no code with '
              'pel.hexdump. Built-in JSON/text formats are compared with the value/lines computed from the source text.')
LEVEL_NOTE = ('payloads beyond the patterns and alphabets are not explored; what a section shows when its parser returns text '
              'that is not JSON (or cannot be printed as JSON) is not constrained beyond the PEL still decoding; only the '
              'trailing NUL padding of a text payload may be dropped')
RULE = ('PEL = PH UH <section> MT; section kinds UD, ED, 9 hexdump-only types, 4 unknown ids; payload lengths '
        '1..48,255,256,4095,65527 x 3 patterns + boundary bytes x 16 columns; identity = 12 creators x 7 components x 11 '
        'subtypes x 4 versions x plugins on/off; 19 parser behaviours (incl. load failures and unprintable output) x UD/ED x 3 creators x 4 payloads; '
        'built-in formats x {256 single bytes, 24^2 pairs (thorough 24^3 triples), shaped payloads: not UTF-8, not JSON, NaN/Infinity/1e999, '
        'huge integers, nesting 10..20000}; shipped oe500 sub-type 3 x 28 JSON payloads; built-in JSON = '
        '9 value shapes x NUL pad 0..3 x trailing blanks; built-in text = all strings <= 4 over a 12-symbol alphabet (incl. every character str.splitlines would also break on) + '
        'long lines. Non-trivial: every case (payload non-empty); distinct by case spec.')
ASSUMPTIONS = ['a parser returning JSON null or an empty string "returns nothing"']

BEHS = ['obj', 'list', 'str', 'none', 'null', 'empty', 'raise', 'importerror', 'keyerror', 'import-raises',
        'import-importerror', 'import-missing-dependency', 'absent', 'badjson', 'num', 'nan', 'overflow', 'deep', 'hugeint',
        'blank', 'newline', 'nullnl', 'nullsp']
BEH_CREATORS = ['O', 'B', 'x']
CREATORS = ['B', 'C', 'H', 'K', 'L', 'M', 'O', 'P', 'S', 'T', 'x', '~']
COMPS = [0x2000, 0x2C00, 0xE500, 0xABCD, 0x0000, 0xFFFF, 0x00AB]
SUBS = [1, 2, 3, 4, 5, 0, 72, 73, 84, 99, 255]
VERS = [0, 1, 2, 255]
HEXONLY = ['DH', 'SW', 'LR', 'HM', 'EP', 'IE', 'MI', 'CH', 'EI']
UNKNOWN = ['ZZ', 'ID', 'ud', '\x01\x02']
LENGTHS = list(range(1, 49)) + [255, 256, 4095, 65527]
SENTINEL = {'t': 'MT', 'mtm': 'SENTINEL', 'sn': 'AFTER'}
TEXT_SYMS = ['a', ' ', '\n', '\t', '\x7f', 'é', '\0', '\r', '\x0c', '\x1d', '\u0085', '\u2028']
JSON_VALUES = [{'k': 'v'}, {'outer': {'inner': [1, 2, {'x': None}]}, 'b': True}, [1, 'two', 3.5], 'just a string', 42,
               True, None, {}, []]


def beh_comp(beh):
    return 0x1200 + BEHS.index(beh)


def behaviour_table():
    t = {}
    for beh in BEHS:
        for cr in BEH_CREATORS:
            n = '%s%04x' % (cr.lower(), beh_comp(beh))
            t['udparsers.%s.%s' % (n, n)] = beh
    return t


def bounds(tier):
    return {'payload_lengths': '1..48,255,256,4095,65527', 'identity_tuples': len(CREATORS) * len(COMPS) * len(SUBS) * len(VERS),
            'behaviours': len(BEHS), 'text_strings': 'all of length <= 4 over 12 symbols' if tier == 'thorough'
            else 'all of length <= 3 over 12 symbols'}


def plan(tier, seed):
    ch = _plan(tier, seed)
    for c in ch:
        c['tier'] = tier
    return ch


def _plan(tier, seed):
    ch = [{'k': 'lengths', 'kind': k} for k in ('UD', 'ED', 'DH', 'ZZ')]
    ch += [{'k': 'columns'}, {'k': 'kinds'}, {'k': 'behaviours'}, {'k': 'json'}]
    for cr in CREATORS:
        ch.append({'k': 'identity', 'creator': cr, 'vers': VERS if tier == 'thorough' else [1, 255]})
    n = 4 if tier == 'thorough' else 3
    for first in TEXT_SYMS:
        ch.append({'k': 'text', 'first': first, 'maxlen': n})
    ch.append({'k': 'text_long'})
    ch.append({'k': 'plugin_json'})
    ch.append({'k': 'interleaved'})
    ch.append({'k': 'cli'})
    ch += [{'k': 'behaviours', 'optimize': True}, {'k': 'kinds', 'optimize': True}]       # python -O (assertions stripped)
    ch += [{'k': 'builtin_bytes', 'part': i, 'parts': 8} for i in range(8)]
    return ch


BYTE_SYMS = [0x00, 0x09, 0x0a, 0x0d, 0x1f, 0x20, 0x22, 0x2d, 0x31, 0x39, 0x5b, 0x5c, 0x5d, 0x65, 0x7b, 0x7d, 0x7e, 0x7f, 0x80,
             0xa9, 0xc3, 0xe2, 0xef, 0xff]


def builtin_payloads(part, parts):
    """Arbitrary bytes offered to the built-in JSON and text formats: every single byte, every pair and (thorough: triple)
    over BYTE_SYMS, and shaped payloads (not UTF-8, not JSON, unrepresentable numbers, deep nesting, odd white space)."""
    out = [bytes([b]) for b in range(256)]
    out += [bytes(t) for t in itertools.product(BYTE_SYMS, repeat=2)]
    if TIER['t'] == 'thorough':
        out += [bytes(t) for t in itertools.product(BYTE_SYMS, repeat=3)]
    shaped = [b'NaN', b'Infinity', b'-Infinity', b'1e999', b'-1e999', b'[1e999]', b'{"a": NaN}', b'{"a": 1e308, "b": 9e308}',
              b'{"a": 1E400}', b'1' * 4300, b'1' * 4301, b'[' + b'7' * 5000 + b']', b'{"n": -' + b'9' * 6000 + b'}',
              b'\xef\xbb\xbf{"a": 1}', b'\0{"a": 1}', b'{"a": 1}\0 \0', b'{"a": 1} \0\0', b'{"a": "caf\xe9"}', b'{"a": "caf\xc3"}',
              b'{"a": 1', b'not json', b'  not json \0\0', b'\tcore dumped at 0x1234\n\0', b'\0\0\0\0', b'\n', b' ',
              b'    indented first line\nsecond line\n', b'\n\nthird line is the first with text\n', b'\x1funit  ',
              b'trailing blanks   ', b'trailing newlines\n\n\n', b'a\rb\r\nc', b'tab\there', b'caf\xc3\xa9 \xe2\x82\xac', b'cut \xe2\x82',
              b'{"a": "\\ud800"}', b'"\\ud83d\\ude00"', b'{"dup": 1, "dup": 2}', b'{"": {"": {"": []}}}',
              b'{"Data": [1], "Error": "no"}']
    for depth in [10, 100, 300, 500, 700] + list(range(900, 1101, 10)) + [1500, 5000, 20000]:
        shaped.append(b'[' * depth + b']' * depth)
        shaped.append(b'{"k":' * depth + b'1' + b'}' * depth)
    out += [x for x in shaped if len(x) <= 65527]
    return out[part::parts]


TIER = {'t': 'quick'}


def pattern(n, which):
    if which == 0:
        return bytes(n)
    if which == 1:
        return b'\xff' * n
    return bytes((i * 13 + 7) & 0xff for i in range(n))


def has_decoder(sec, creator, plugins, beh):
    """None = outcome not constrained beyond JSON; 'raw' = payload must be recoverable; 'raw+err' = plus error note."""
    t = sec['t']
    if t not in ('UD', 'ED'):
        return 'raw'
    cr = sec.get('creator', 'B') if t == 'ED' else creator
    from pel.peltool.pel_values import creatorIDs
    comp, sub, ver = sec.get('comp', 0x1000), sec.get('sub', 0), sec.get('ver', 1)
    if creatorIDs.get(cr) == 'BMC' and comp == 0x2000:
        return 'builtin' if sub in (1, 3) else 'raw'
    if not plugins:
        return 'raw'
    if beh is not None:
        if beh in ('obj', 'list', 'str', 'num'):
            return 'decoded'
        if beh in ('badjson', 'nan', 'overflow', 'deep', 'hugeint'):
            return None         # what the section shows is not constrained; the PEL must still decode to (strict) JSON
        if beh in ('none', 'raise', 'importerror', 'keyerror', 'import-raises', 'import-importerror', 'import-missing-dependency'):
            return 'raw+err'    # the module is there and failed (while being loaded or when called)
        return 'raw'      # null, empty, absent
    if cr == 'M' and comp == 0x2C00:
        return None if sub in (72, 73, 84) else 'raw'
    if cr == 'O' and comp == 0xE500:
        return 'oe500' if sub in (1, 2, 3, 4, 5) else 'raw'
    return 'raw'


def classify(case, what):
    beh = case.get('beh')
    sec = case['sec']
    if what == 'not-decoded':
        return 'C04:not-decoded'
    if beh in ('null', 'empty', 'blank', 'newline', 'nullnl', 'nullsp'):
        return 'F12:parser-returning-null-or-empty-drops-payload'
    if sec.get('comp') == 0xE500 and case.get('creator', 'O') == 'O' and sec.get('sub') not in (1, 2, 3, 4, 5) \
            and sec['t'] == 'UD' and case.get('plugins', True):
        return 'F12:parser-returning-null-or-empty-drops-payload'
    if sec['t'] == 'ED' and sec.get('comp') == 0xE500 and sec.get('creator') == 'O' and case.get('plugins', True):
        return 'F12:parser-returning-null-or-empty-drops-payload'
    if beh == 'importerror':
        return 'F10:importerror-in-parser-call-treated-as-absent'
    return 'C04:' + what


LAST = {'mode': None}


def eval_case(case):
    if 'secs' in case:
        return eval_multi(case)
    if case.get('cli'):
        r = run_chunk({'k': 'cli'})
        return [v for v in r.violations if v['case'] == case]
    LAST['mode'] = 'undecoded'
    impl.ensure(False)
    if not imphook.STATE['installed'] or imphook.BEHAVIOUR != behaviour_table():
        imphook.install(serve_all=False, behaviour=behaviour_table())
    sec = dict(case['sec'])
    creator = case.get('creator', 'O')
    plugins = case.get('plugins', True)
    beh = case.get('beh')
    p = pelgen.pel_from_spec({'creator': creator, 'sections': [sec, SENTINEL]})
    b = pelgen.encode_pel(p)
    r = decode.parse(b, plugins=plugins)
    out = []

    def bad(what, detail):
        out.append({'key': classify(case, what), 'what': '%s: %s' % (what, detail), 'case': case})

    if r['kind'] != 'doc':
        bad('not-decoded', '%s %s %s' % (r['kind'], r.get('type'), r.get('msg')))
        return out
    doc = r['doc']
    want = pelgen.expected_keys(p)
    if list(doc.keys()) != want:
        bad('keys', '%r expected %r' % (list(doc.keys()), want))
        return out
    m = pelgen.check_mt(SENTINEL, doc[want[3]], creator, {})
    if m:
        bad('sentinel', '; '.join(m))
    ent = doc[want[2]]
    if not isinstance(ent, dict):
        bad('entry', 'not an object')
        return out
    payload = pelgen.payload_of(sec)
    mode = has_decoder(sec, creator, plugins, beh)
    LAST['mode'] = str(mode) + ('/err' if 'Error' in ent else '')
    rest = {k: v for k, v in ent.items() if k not in ('Section Version', 'Sub-section type', 'Created by')}
    if mode == 'builtin':
        exp = pelgen.builtin_expect(sec)
        LAST['mode'] = 'builtin:' + exp[0] + (':shown-raw' if isinstance(rest.get('Data'), list) and rest['Data'] and
                                              re.match(r'^[0-9A-F]{8}  ', str(rest['Data'][0])) else '')
        if 'json_value' in case and exp[:2] != ('json', case['json_value']):
            raise AssertionError('harness: reference model reads %r as %r, case says %r' % (payload, exp, case['json_value']))
        for mm in pelgen.check_builtin(sec, ent, creator, {}):
            bad(mm.split(':')[0].replace(' ', '-'), mm)
    elif mode in ('raw', 'raw+err') or (mode == 'oe500' and 'Error' in ent):
        try:
            got = rhex.read_default(ent.get('Data'))
        except Exception as e:
            got = None
        if got != payload:
            bad('payload-lost', 'Data %r does not give back the %d payload bytes' % (
                ent.get('Data') if not isinstance(ent.get('Data'), list) else ent.get('Data')[:2], len(payload)))
        if mode == 'raw+err' and not ent.get('Error'):
            bad('no-error-note', 'parser failed (%s) but the section has no Error note' % beh)
    elif mode == 'decoded':
        if not rest:
            bad('decoded-empty', 'well-behaved parser output not shown')
    return out


def eval_multi(case):
    impl.ensure(False)
    p = pelgen.pel_from_spec({'creator': 'O', 'sections': [dict(x) for x in case['secs']] + [SENTINEL]})
    r = decode.parse(pelgen.encode_pel(p), plugins=case['plugins'])
    out = []
    if r['kind'] != 'doc':
        return [{'key': 'C04:not-decoded', 'what': 'not-decoded: %s %s' % (r['kind'], r.get('msg')), 'case': case}]
    want = pelgen.expected_keys(p)
    if list(r['doc'].keys()) != want:
        return [{'key': 'C04:section-missing', 'what': 'section-missing: document has %r, the PEL holds %r' % (list(r['doc'].keys()), want),
                 'case': case}]
    for name, sec in zip(want[2:], p['sections']):
        m = pelgen.check_entry(sec, r['doc'][name], 'O', {})
        if m:
            out.append({'key': 'C04:payload-lost', 'what': 'payload-lost: %s: %s' % (name, '; '.join(m)), 'case': case})
            break
    return out


def _do(res, case, every=499):
    core.arm()
    vs = eval_case(case)
    core.disarm()
    res.case(nontrivial_key=json.dumps(case, sort_keys=True), outcome=vs[0]['key'] if vs else 'ok:' + LAST['mode'],
             sample=_brief(case) if res.evals % every == 1 else None)
    res.add(vs)


def _brief(case):
    c = json.loads(json.dumps(case))
    if len(c['sec'].get('payload', '')) > 64:
        c['sec']['payload'] = c['sec']['payload'][:64] + '...(%d bytes)' % (len(case['sec']['payload']) // 2)
    return c


def _sec(kind, payload, comp=0xABCD, sub=9, ver=1, **kw):
    s = {'t': kind, 'comp': comp, 'sub': sub, 'ver': ver, 'payload': payload.hex()}
    if kind == 'ED':
        s['creator'] = kw.pop('ed_creator', 'K')
    s.update(kw)
    return s


def run_chunk(chunk):
    routed = subchunk.route(__name__, chunk)
    if routed is not None:
        return routed
    res = ChunkResult()
    k = chunk['k']
    TIER['t'] = chunk.get('tier', 'quick')
    if k == 'lengths':
        for n in LENGTHS:
            if chunk['kind'] == 'ED' and n > 65523:
                n = 65523
            for w in (0, 1, 2):
                for plugins in (True, False):
                    _do(res, {'sec': _sec(chunk['kind'], pattern(n, w)), 'plugins': plugins})
    elif k == 'columns':
        for bval in (0x1f, 0x20, 0x7e, 0x7f, 0x80, 0x00, 0xff, 0x22, 0x5c):
            for col in range(16):
                for total in (16, 32, col + 1, 16 + col + 1):
                    data = bytearray(b'\x41' * total)
                    data[total - (16 if total % 16 == 0 else total % 16) + col if total % 16 == 0 else total - 1] = bval
                    for kind in ('UD', 'ED', 'SW', 'ZZ'):
                        _do(res, {'sec': _sec(kind, bytes(data))})
    elif k == 'kinds':
        for kind in HEXONLY + UNKNOWN:
            for n in (1, 4, 15, 16, 17, 33):
                for sub in (0, 1, 3):
                    for comp in (0x2000, 0xABCD):
                        _do(res, {'sec': _sec(kind, pattern(n, 2), comp=comp, sub=sub)})
    elif k == 'behaviours':
        for beh in BEHS:
            for cr in BEH_CREATORS:
                for kind in ('UD', 'ED'):
                    for payload in (b'\x00', b'\x01\x02\x03', pattern(16, 2), pattern(37, 2)):
                        for plugins in (True, False):
                            sec = _sec(kind, payload, comp=beh_comp(beh), sub=7, ver=2, ed_creator=cr)
                            _do(res, {'sec': sec, 'creator': cr if kind == 'UD' else 'T', 'beh': beh, 'plugins': plugins})
    elif k == 'identity':
        cr = chunk['creator']
        for comp, sub, ver in itertools.product(COMPS, SUBS, chunk['vers']):
            for plugins in (True, False):
                for payload in (pattern(20, 2), b'{"a": 1}\0\0\0\0', b'  two\nlines \xff\n'):
                    _do(res, {'sec': _sec('UD', payload, comp=comp, sub=sub, ver=ver), 'creator': cr, 'plugins': plugins})
                    _do(res, {'sec': _sec('ED', payload, comp=comp, sub=sub, ver=ver, ed_creator=cr), 'creator': 'O',
                              'plugins': plugins})
    elif k == 'json':
        for v in JSON_VALUES:
            for pad in range(4):
                for ws in ('', ' ', '\n', ' \n\t'):
                    for lead in ('', ' '):
                        raw = (lead + json.dumps(v) + ws).encode() + b'\0' * pad
                        _do(res, {'sec': _sec('UD', raw, comp=0x2000, sub=1), 'json_value': v})
                        _do(res, {'sec': _sec('ED', raw, comp=0x2000, sub=1, ed_creator='O'), 'creator': 'B', 'json_value': v})
            for indent in (None, 2):
                raw = json.dumps({'v': v, 'text': 'x": y', 'u': 'é'}, indent=indent, ensure_ascii=False).encode()
                _do(res, {'sec': _sec('UD', raw, comp=0x2000, sub=1), 'json_value': {'v': v, 'text': 'x": y', 'u': 'é'}})
    elif k == 'text':
        first = chunk['first']
        for n in range(0, chunk['maxlen']):
            for tail in itertools.product(TEXT_SYMS, repeat=n):
                t = first + ''.join(tail)
                for pad in (0, 2):
                    raw = t.encode('utf-8') + b'\0' * pad
                    _do(res, {'sec': _sec('UD', raw, comp=0x2000, sub=3)}, every=199)
    elif k == 'builtin_bytes':
        for sub in (1, 3):
            for raw in builtin_payloads(chunk['part'], chunk['parts']):
                _do(res, {'sec': _sec('UD', raw, comp=0x2000, sub=sub)}, every=997)
                if len(raw) != 2:
                    _do(res, {'sec': _sec('ED', raw, comp=0x2000, sub=sub, ed_creator='O'), 'creator': 'H'}, every=997)
    elif k == 'interleaved':
        # several sections without a decoder in one PEL, same kinds recurring with others in between: every one must still
        # appear with its own payload
        kinds = [('UD', {}), ('ED', {}), ('ZZ', {}), ('YY', {}), ('DH', {})]
        for combo in itertools.product(range(len(kinds)), repeat=3):
            secs = [_sec(kinds[i][0], bytes([0x10 * (n + 1) + i] * (5 + n)), comp=0xABC0 + n) for n, i in enumerate(combo)]
            for plugins in (True, False):
                core.arm()
                vs = eval_multi({'secs': secs, 'plugins': plugins})
                core.disarm()
                res.case(nontrivial_key=json.dumps([combo, plugins]), outcome=vs[0]['key'] if vs else 'ok:interleaved')
                res.add(vs)
    elif k == 'cli':
        # the section layer seen through the command line: what -f prints is the decoded document (text that can be loaded
        # must also be printable: escaped unpaired surrogates, non-ASCII characters, control characters)
        import tempfile
        from mc import clidrv, strictjson
        texts = [b'{"a": "fan\\ud83d"}', b'{"a": "\\udc00 low", "b": ["\\ud800\\ud800"]}', '{"ort": "Zürich", "k€y": 1}'.encode(),
                 b'{"ctl": "\\u0000\\u001f\\u007f\\u2028"}', 'naïve text\nline ü'.encode(), b'plain']
        with tempfile.TemporaryDirectory(prefix='c04_', dir=clidrv.odd_root()) as d:
            for i, raw in enumerate(texts):
                for sub in (1, 3):
                    for kind in ('UD', 'ED'):
                        sec = _sec(kind, raw, comp=0x2000, sub=sub, ed_creator='O')
                        case = {'sec': sec, 'cli': True}
                        p = pelgen.pel_from_spec({'creator': 'O', 'sections': [sec, SENTINEL]})
                        b = pelgen.encode_pel(p)
                        path = os.path.join(d, 'p%d_%d_%s' % (i, sub, kind))
                        with open(path, 'wb') as f:
                            f.write(b)
                        r = decode.parse(b)
                        core.arm(30)
                        m = clidrv.run_main(['-f', path, '-E'])
                        core.disarm()
                        why = None
                        if r['kind'] != 'doc':
                            why = 'library: %s %s' % (r['kind'], r.get('msg'))
                        else:
                            try:
                                if m.status != 0 or strictjson.loads(m.stdout) != r['doc']:
                                    why = '-f (status %s) does not print the decoded document; stderr %r' % (m.status, m.stderr[-160:])
                            except Exception as e:
                                why = '-f output unreadable: %s; stderr %r' % (e, m.stderr[-160:])
                        res.case(nontrivial_key=json.dumps(case, sort_keys=True), outcome='cli:' + ('lost' if why else 'ok'))
                        if why:
                            res.violation('C04:cli-section-lost', 'cli-section-lost: %s' % why, case)
            # "parser modules disabled" through the command line: -P / --skip-parser-plugins with every display route shows
            # what the library shows with plug-ins off (whose hex dumps the sweeps above read back), in either argument order
            pd = os.path.join(d, 'pdir')
            os.mkdir(pd)
            os.mkdir(os.path.join(d, 'pout'))
            psecs = [_sec('UD', bytes(range(1, 9)), comp=0xE500, sub=5), _sec('UD', b'{"Callout List": [{"Priority": "H"}]}', comp=0xE500, sub=3),
                     _sec('ED', bytes.fromhex('000100020100000000020003EA088410'), comp=0x2C00, sub=73, ed_creator='M'),
                     _sec('UD', b'{"k": "v"}', comp=0x2000, sub=1)]
            spec = pelgen.pel_from_spec({'creator': 'O', 'eid': 0x50000D01, 'plid': 0x50000D01, 'obmc': 77,
                                         'sections': [{'t': 'PS', 'ascii': 'BD8DE500'.ljust(32)}] + psecs + [SENTINEL]})
            b = pelgen.encode_pel(spec)
            path = os.path.join(pd, 'plug_50000D01')
            with open(path, 'wb') as f:
                f.write(b)
            want = {True: decode.parse(b, plugins=True), False: decode.parse(b, plugins=False)}
            routes = [(['-f', path], 'doc'), (['-p', pd, '-a'], 'list'), (['-p', pd, '-i', '50000D01'], 'doc'),
                      (['-p', pd, '--bmc-id', '77'], 'doc'), (['-p', pd, '-j', '-o', os.path.join(d, 'pout')], 'file')]
            for argv, shape in routes:
                for opt in ([], ['-P'], ['--skip-parser-plugins']):
                    for front in ((False, True) if opt else (False,)):
                        full = (opt + argv) if front else (argv + opt)
                        case = {'cli': True, 'argv': [a.replace(d, '<d>') for a in full]}
                        core.arm(30)
                        m = clidrv.run_main(full, isolate=True)
                        core.disarm()
                        w = want[not opt]
                        why = None
                        try:
                            if w['kind'] != 'doc':
                                why = 'library: %s %s' % (w['kind'], w.get('msg'))
                            elif shape == 'file':
                                with open(os.path.join(d, 'pout', 'plug_50000D01.50000D01.json')) as fh:
                                    got = strictjson.loads(fh.read())
                                os.unlink(os.path.join(d, 'pout', 'plug_50000D01.50000D01.json'))
                                if got != w['doc']:
                                    why = 'the file written differs from the document decoded with parser modules %s' % ('on' if not opt else 'off')
                            else:
                                got = strictjson.loads(m.stdout)
                                if (got if shape == 'doc' else (got[0] if isinstance(got, list) and len(got) == 1 else None)) != w['doc']:
                                    why = 'the document shown differs from the one decoded with parser modules %s' % ('on' if not opt else 'off')
                        except Exception as e:
                            why = 'output unreadable: %s; stderr %r' % (e, m.stderr[-160:])
                        res.case(nontrivial_key=json.dumps(case, sort_keys=True), outcome='cli-P:' + ('differs' if why else 'ok'))
                        if why:
                            res.violation('C04:cli-plugins-option', '%s: %s' % (' '.join(case['argv']), why), case)
    elif k == 'plugin_json':
        # the shipped hardware-diagnostics plug-in hands JSON from the payload (callout FFDC, sub-type 3) back to the tool
        texts = [b'{"Callout List": [{"Priority": 1e999}]}', b'{"Callout List": [NaN, Infinity, -Infinity]}', b'NaN', b'[1e999]',
                 b'{"n": ' + b'7' * 5000 + b'}', b'{"Callout List": []}', b'{"a": 1}\0\0', b'not json at all']
        for depth in (10, 500, 900, 990, 1000, 1010, 1100, 1400, 1600, 5000):
            texts.append(b'[' * depth + b']' * depth)
            texts.append(b'{"k":' * depth + b'1' + b'}' * depth + b'\0')
        for raw in texts:
            for plugins in (True, False):
                _do(res, {'sec': _sec('UD', raw, comp=0xE500, sub=3), 'creator': 'O', 'plugins': plugins})
                _do(res, {'sec': _sec('ED', raw, comp=0xE500, sub=3, ed_creator='O'), 'creator': 'B', 'plugins': plugins})
    elif k == 'text_long':
        for n in (1, 15, 16, 17, 80, 1000):
            for sep in ('\n', '\n\n', ' '):
                t = sep.join('line %d %s' % (i, 'x' * n) for i in range(4))
                for end in ('', '\n', '\0\0\0'):
                    raw = (t + end).encode()
                    _do(res, {'sec': _sec('UD', raw, comp=0x2000, sub=3)})
                    _do(res, {'sec': _sec('ED', raw, comp=0x2000, sub=3, ed_creator='O'), 'creator': 'H'})
    imphook.uninstall()
    return res
