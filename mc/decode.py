"""Thin wrappers that call the real decoder and classify the outcome."""
import json
from mc import strictjson


def config(plugins=True, **kw):
    from pel.peltool.config import Config
    c = Config()
    c.allow_plugins = plugins
    c.every_pel = kw.pop('every', True)
    for k, v in kw.items():
        setattr(c, k, v)
    return c


def parse(b, cfg=None, plugins=True):
    """-> dict(kind='doc', doc, text, eid, index) | dict(kind='empty', index) | dict(kind='exc', type, msg, index)"""
    from pel.datastream import DataStream
    from pel.peltool.peltool import parsePEL
    if cfg is None:
        cfg = config(plugins)
    st = DataStream(bytes(b), byte_order='big', is_signed=False)
    try:
        eid, text = parsePEL(st, cfg, False)
    except (Exception, SystemExit) as e:
        # SystemExit: a decoder that calls exit() - reported like any other way of not producing a document
        return {'kind': 'exc', 'type': type(e).__name__, 'msg': str(e)[:200], 'index': st.index}
    if text == '' or text is None:
        return {'kind': 'empty', 'index': st.index, 'eid': eid}
    try:
        doc = strictjson.loads(text)
    except Exception as e:
        return {'kind': 'badjson', 'text': text, 'index': st.index, 'eid': eid, 'msg': str(e)}
    return {'kind': 'doc', 'doc': doc, 'text': text, 'eid': eid, 'index': st.index}
