"""Regenerate /verif/MANIFEST.json from the check modules that exist (python -m mc.mkmanifest)."""
import importlib
import json
import os

from mc import core

ALL = ['C%02d' % i for i in range(1, 21)]
ENGINES = {
    'E1': ('product enumerator', 'mc/core.py + mc/checks/*.py',
           'bounded-exhaustive Cartesian product / sequence enumeration on the real code vs. an independent reference model'),
    'E2': ('history explorer', 'mc/statefp.py',
           'explicit-state BFS over decode histories; state = fingerprint of all module-level mutable state'),
    'E3': ('fault/deviation enumerator', 'mc/faultio.py',
           'every single (thorough: pair of) deviation(s) of a recorded trace of environment interactions'),
    'E4': ('file-system state explorer', 'mc/clidrv.py',
           'BFS over directory-tree snapshots with one real CLI invocation per transition vs. a dict model'),
}


def main():
    core.setup_path()
    checks, na, serves = [], [], {k: [] for k in ENGINES}
    for pid in ALL:
        try:
            mod = importlib.import_module('mc.checks.' + pid.lower())
        except ModuleNotFoundError:
            na.append({'property_id': pid, 'reason': 'check not built yet in this round; design in DESIGN.md section 3'})
            continue
        eng = getattr(mod, 'ENGINE', 'E1')
        serves[eng].append(pid)
        checks.append({
            'property_id': pid,
            'quick_cmd': './check %s --tier quick' % pid,
            'thorough_cmd': './check %s --tier thorough' % pid,
            'evidence_file': '/verif/evidence/%s.json' % pid,
            'replay_cmd_template': './check %s --replay {path}' % pid,
            'engine': eng,
            'level_claimed': {'category': mod.LEVEL, 'text': mod.LEVEL_TEXT, 'design_ref': 'DESIGN.md section 3, ' + pid},
            'level_note': mod.LEVEL_NOTE,
            'technique': mod.TECHNIQUE,
        })
    man = {
        'version': 1,
        'setup_cmd': './setup.sh',
        'hooks': {
            'guard': 'OPENPOWER_PEL_PARSERS_VERIF',
            'enable': 'no source hooks are needed: the harness interposes from outside (module-global open/os shadowing, '
                      'sys.meta_path finder, stream replacement); checks import /repo/modules from the working tree',
            'baseline_off_cmd': 'cd /repo && /venv/bin/python -m pytest -ra -q -p no:cacheprovider --timeout=900 '
                                '--continue-on-collection-errors',
            'source_commits': [],
            'add_only': True,
        },
        'engines': [{'name': k, 'path': v[1], 'serves_properties': serves[k], 'kind_free_text': v[0] + ': ' + v[2]}
                    for k, v in ENGINES.items()],
        'checks': checks,
        'not_applicable': na,
        'notes': 'Model-checking family: every check enumerates a finite space completely (stated in its evidence file) '
                 'on the real code; no sampling, no solver verdicts. Known findings: /verif/known_findings.json.',
    }
    with open(os.path.join(core.VERIF, 'MANIFEST.json'), 'w') as f:
        json.dump(man, f, indent=1)
        f.write('\n')
    print('MANIFEST.json: %d checks, %d not yet claimed' % (len(checks), len(na)))


if __name__ == '__main__':
    main()
