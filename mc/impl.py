"""Fresh (re)import of the code under test in a chosen configuration."""
import importlib
import json
import os
import sys

from mc import core

PREFIXES = ('pel', 'io_drawer', 'udparsers', 'srcparsers', 'calloutparsers', 'pel_registry')
REGDIR = os.path.join(core.FIXTURES, 'registry')


def purge():
    for name in list(sys.modules):
        if name.split('.')[0] in PREFIXES:
            del sys.modules[name]
    importlib.invalidate_caches()


def fresh(registry=False):
    """Purge every repository module and re-import pel.peltool.peltool with / without the fixture registry."""
    purge()
    core.setup_path()
    while REGDIR in sys.path:
        sys.path.remove(REGDIR)
    if registry:
        sys.path.insert(1, REGDIR)
    else:
        try:
            import pel_registry  # noqa
            raise RuntimeError('a real pel_registry is importable; the "registry absent" configuration is not available')
        except ModuleNotFoundError:
            pass
    import pel.peltool.peltool as pt
    return pt


def compnames():
    out = {}
    d = os.path.join(REGDIR, 'pel_registry')
    for f in os.listdir(d):
        if f.endswith('_component_ids.json'):
            with open(os.path.join(d, f)) as fh:
                out[f[0]] = json.load(fh)
    return out


def registry_entries():
    with open(os.path.join(REGDIR, 'pel_registry', 'message_registry.json')) as f:
        return json.load(f)['PELs']


_current = {'registry': None}


def ensure(registry=False):
    """Make sure the repository modules are imported in the wanted configuration (re-import only on change)."""
    if _current['registry'] is not registry or 'pel.peltool.peltool' not in sys.modules:
        fresh(registry)
        _current['registry'] = registry
    return sys.modules['pel.peltool.peltool']
