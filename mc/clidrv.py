"""
In-process driver for pel.peltool.peltool.main(), plus the subprocess route used for conformance.
"""
import hashlib
import io
import os
import subprocess
import sys
import tempfile

from mc import core

BEGIN = '-------------- PEL Begin  ----------------'
END = '-------------- PEL End    ----------------'
PELTOOL_PY = os.path.join(core.MODULES, 'pel', 'peltool', 'peltool.py')


def scratch_root():
    for d in ('/dev/shm', tempfile.gettempdir()):
        if os.path.isdir(d) and os.access(d, os.W_OK):
            return d
    return None


def odd_root():
    """Scratch parent whose own name holds a blank and glob metacharacters: directory paths given to the CLI are data, not
    patterns (a tool that globs or shell-quotes its -p argument shows up at once)."""
    d = os.path.join(scratch_root(), 'mc pel dirs [v1]')
    os.makedirs(d, exist_ok=True)
    return d


class OsProxy:
    """Stands in for the `os` name inside pel.peltool.peltool only."""

    def __init__(self, real, order=None, log=None):
        self.__dict__['_real'] = real
        self.__dict__['_order'] = order      # None | 'sorted' | 'reversed' | list of permutation indices
        self.__dict__['_log'] = log

    def __getattr__(self, name):
        return getattr(self._real, name)

    def walk(self, top, *a, **kw):
        for root, dirs, files in self._real.walk(top, *a, **kw):
            files = sorted(files)
            dirs.sort()
            o = self._order
            if o == 'reversed':
                files.reverse()
            elif isinstance(o, (list, tuple)) and len(o) == len(files):
                files = [files[i] for i in o]
            yield root, dirs, files

    def remove(self, path, *a, **kw):
        if self._log is not None:
            self._log.append(('remove', os.path.basename(path)))
        hook = self.__dict__.get('_remove_hook')
        after = hook(path) if hook else None
        ret = self._real.remove(path, *a, **kw)
        if callable(after):
            after()
        return ret

    unlink = remove


class Result:
    __slots__ = ('status', 'stdout', 'stderr', 'exc', 'exit_arg')

    def __init__(self):
        self.status = None
        self.stdout = ''
        self.stderr = ''
        self.exc = None
        self.exit_arg = None

    def brief(self):
        return {'status': self.status, 'stdout': self.stdout[:300], 'stderr': self.stderr[:300], 'exc': self.exc}


def peltool():
    import pel.peltool.peltool as pt
    return pt


_PRISTINE = []


def pristine():
    """Module-level state of the freshly imported implementation, captured once per worker process before any run."""
    if not _PRISTINE:
        from mc import statefp, impl
        impl.fresh(bool(impl._current.get('registry')))
        _PRISTINE.append(statefp.Snapshot())
    return _PRISTINE[0]


class _Capture(io.TextIOWrapper):
    """What the tool's stdout / stderr are in a real run: text layers with the UTF-8 codec (stdout strict, stderr
    backslashreplace), so text that cannot be encoded fails here exactly where it fails on a terminal or a pipe."""

    def __init__(self, errors):
        super().__init__(io.BytesIO(), encoding='utf-8', errors=errors, newline='\n', write_through=True)

    def getvalue(self):
        self.flush()
        return self.buffer.getvalue().decode('utf-8', errors='surrogateescape')


NO_STDOUT = object()      # run_main(stdout=NO_STDOUT): the process has no standard output (sys.stdout is None)


def run_main(argv, order='sorted', os_log=None, stdout=None, open_fn=None, remove_hook=None, pt=None, isolate=False):
    """
    Call the real main() with argv.  Returns Result.  `order` is the directory-listing order answer,
    `stdout` optionally a ready-made text stream (fault injection), `open_fn` shadows open() in the module.
    `isolate`: every invocation of the tool is a process of its own - put the module-level state (parser caches, tables,
    loaded plug-ins) back to that of a fresh interpreter first, so that what one run leaves behind cannot mask or fake a
    difference in the next.
    """
    if isolate:
        pristine().restore()
    pt = pt or peltool()
    r = Result()
    old = (sys.argv, sys.stdout, sys.stderr)
    had_open = 'open' in pt.__dict__
    saved_open = pt.__dict__.get('open')
    real_os = pt.os._real if isinstance(pt.os, OsProxy) else pt.os
    proxy = OsProxy(real_os, order, os_log)
    if remove_hook:
        proxy.__dict__['_remove_hook'] = remove_hook
    pt.os = proxy
    if open_fn is not None:
        pt.open = open_fn
    out = None if stdout is NO_STDOUT else (stdout if stdout is not None else _Capture('strict'))
    err = _Capture('backslashreplace')
    sys.argv = ['peltool.py'] + list(argv)
    sys.stdout, sys.stderr = out, err
    try:
        try:
            pt.main()
            r.status = 0
            r.exit_arg = 'return'
        except SystemExit as e:
            r.exit_arg = repr(e.code)
            if e.code is None:
                r.status = 0
            elif isinstance(e.code, int):
                r.status = e.code
            else:
                err.write(str(e.code) + '\n')
                r.status = 1
        except core.CaseTimeout:
            raise
        except BaseException as e:
            r.exc = '%s: %s' % (type(e).__name__, e)
            if os.environ.get('VERIF_DEBUG'):
                import traceback
                traceback.print_exc(file=sys.__stderr__)
            r.status = 1
            r.exit_arg = 'exception'
    finally:
        sys.argv, sys.stdout, sys.stderr = old
        pt.os = real_os
        if open_fn is not None:
            if had_open:
                pt.open = saved_open
            else:
                del pt.open
    if stdout is None:
        r.stdout = out.getvalue()
    r.stderr = err.getvalue()
    return r


def run_subprocess(argv, optimize=False, stdout_path=None, timeout=60, cwd=None):
    env = dict(os.environ)
    env['PYTHONPATH'] = core.MODULES
    env['PYTHONDONTWRITEBYTECODE'] = '1'
    env['PYTHONHASHSEED'] = '0'
    cmd = [core.PY] + (['-O'] if optimize else []) + [PELTOOL_PY] + list(argv)
    if stdout_path:
        with open(stdout_path, 'w') as so:
            p = subprocess.run(cmd, stdout=so, stderr=subprocess.PIPE, text=True, env=env, timeout=timeout, cwd=cwd)
        return p.returncode, None, p.stderr
    p = subprocess.run(cmd, capture_output=True, text=True, env=env, timeout=timeout, cwd=cwd)
    return p.returncode, p.stdout, p.stderr


def split_hex_blocks(text):
    """stdout of an -x mode -> list of blocks (each a list of dump lines), or None if not well delimited."""
    blocks = []
    cur = None
    for ln in text.split('\n'):
        if ln == BEGIN:
            if cur is not None:
                return None
            cur = []
        elif ln == END:
            if cur is None:
                return None
            blocks.append(cur)
            cur = None
        elif cur is not None:
            cur.append(ln)
        elif ln.strip():
            return None
    if cur is not None:
        return None
    return blocks


def snapshot(root):
    """Recursive snapshot {relative path: (type, size, sha256)}"""
    snap = {}
    for base, dirs, files in os.walk(root):
        rel = os.path.relpath(base, root)
        for d in dirs:
            p = os.path.normpath(os.path.join(rel, d))
            snap[p] = ('dir', 0, '')
        for f in files:
            full = os.path.join(base, f)
            p = os.path.normpath(os.path.join(rel, f))
            if os.path.islink(full):
                snap[p] = ('link', 0, os.readlink(full))
            else:
                with open(full, 'rb') as fh:
                    b = fh.read()
                snap[p] = ('file', len(b), hashlib.sha256(b).hexdigest()[:16])
    return snap


def make_tree(root, tree):
    """tree: {relative path: bytes | None (directory)}"""
    for rel, content in sorted(tree.items()):
        full = os.path.join(root, rel)
        if content is None:
            os.makedirs(full, exist_ok=True)
        else:
            os.makedirs(os.path.dirname(full), exist_ok=True)
            with open(full, 'wb') as f:
                f.write(content)
