"""Run one chunk of a check in this (differently configured) interpreter: python [-O] -m mc.subchunk <module>"""
import importlib
import json
import os
import sys

from mc import core


def main():
    core.setup_path()
    if not os.environ.get('VERIF_DEBUG'):
        dn = os.open(os.devnull, os.O_WRONLY)
        os.dup2(dn, 2)
    mod = importlib.import_module(sys.argv[1])
    chunk = json.load(sys.stdin)
    real_stdout = os.fdopen(os.dup(1), 'w')
    os.dup2(os.open(os.devnull, os.O_WRONLY), 1)      # nothing the code under test prints may corrupt the result
    sys.stdout = open(os.devnull, 'w')
    try:
        res = mod.run_chunk(chunk)
        d = res.to_dict() if isinstance(res, core.ChunkResult) else res
    except BaseException as e:
        import traceback
        d = core._implementation_raised(mod, chunk, e) or \
            {'harness_error': ''.join(traceback.format_exception(type(e), e, e.__traceback__)), 'chunk': chunk}
    json.dump(d, real_stdout)
    real_stdout.flush()


def spawn(modname, chunk, optimize):
    import subprocess
    env = dict(os.environ)
    env['PYTHONPATH'] = core.VERIF
    cmd = [core.PY] + (['-O'] if optimize else []) + ['-m', 'mc.subchunk', modname]
    p = subprocess.run(cmd, input=json.dumps(chunk), capture_output=True, text=True, env=env, cwd=core.VERIF,
                       timeout=3600)
    if p.returncode != 0 or not p.stdout.strip():
        return {'harness_error': 'sub-interpreter failed rc=%s\n%s' % (p.returncode, p.stderr[-2000:]), 'chunk': chunk}
    d = json.loads(p.stdout)
    if optimize:
        for v in d.get('violations', []):
            if isinstance(v.get('case'), dict):
                v['case']['_python_O'] = True      # the replay has to run under python -O as well
    return d


def route(modname, chunk):
    """Checks call this first in run_chunk: a chunk marked {'optimize': True} is executed in a `python -O` interpreter."""
    if chunk.get('optimize') and not sys.flags.optimize:
        return spawn(modname, chunk, True)
    return None


if __name__ == '__main__':
    main()
