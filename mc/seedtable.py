"""Print the markdown table of kept seeded changes (python -m mc.seedtable) for DESIGN.md section 6."""
import glob
import json
import os

VERIF = os.path.dirname(os.path.dirname(os.path.abspath(__file__)))


def main():
    print('| seed | breaks | change (one line) | needs to manifest | caught by |')
    print('|---|---|---|---|---|')
    for d in sorted(glob.glob(os.path.join(VERIF, 'seeded', 'C*-w*'))):
        m = json.load(open(os.path.join(d, 'meta.json')))
        caught = [c for c, v in m['detection'].items() if v['exit'] == 1 and v['violation_lines']]
        first = ''
        for c in caught:
            first = m['detection'][c]['first_key'].split('  ')[0].replace('key=', '')
            break
        cell = lambda t, n: (t or '').replace('|', '/').replace('\n', ' ')[:n]
        print('| `%s` | %s | %s | %s | %s (`%s`) |' % (os.path.basename(d), m['property'], cell(m['breaks'], 200), cell(m['needs_to_manifest'], 160),
                                               ', '.join(caught) or '**missed**', first))


if __name__ == '__main__':
    main()
